#!/bin/sh
# Build the overlay interpreter (py3.12 + z3 + cvc5 + /venv site-packages). Offline.
set -e
cd "$(dirname "$0")"
if [ ! -x .venv/bin/python ] || ! .venv/bin/python -c "import z3" 2>/dev/null; then
  rm -rf .venv
  /venv/bin/python -m venv .venv --without-pip
  /venv/bin/python -m pip --python .venv/bin/python install -q --no-index --find-links /opt/veriftools/wheels z3-solver cvc5
  echo "import site; site.addsitedir('/venv/lib/python3.12/site-packages')" > .venv/lib/python3.12/site-packages/_venv.pth
fi
.venv/bin/python -c "import z3, cvc5, pydantic; print('overlay ok', z3.get_version_string())"
