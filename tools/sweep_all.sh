#!/bin/sh
# tools/sweep_all.sh <outfile> [ids...]: every seeded change against the checks of its property (+ related ones)
out="$1"; shift
cd /verif
ids="$@"; [ -z "$ids" ] && ids=$(ls seeded)
for id in $ids; do
  prop=$(python3 -c "import json;print(json.load(open('seeded/$id/meta.json'))['property'])")
  extra=""
  case "$id" in
    C31-m2) extra="C11";; C10-m2) extra="C12";; C12-m1) extra="C10";; C12-m2) extra="C11 C01";; C06-m1) extra="C05";;
    C02-m2) extra="C10";; C08-m1) extra="C05";; C11-m1) extra="C01 C05";; C14-m1) extra="C36";; C14-m3) extra="C36";; C13-m1) extra="C11";; C36-m1) extra="C14";; C36-m2) extra="C14";; C15-m1) extra="C16";; C15-m2) extra="C16";;
  esac
  tools/mutant_sweep.sh "$out" /verif/seeded/$id/patch.diff $prop $extra
done
echo SWEEP-DONE >> "$out"
