import sys, z3
from pyvc.check import load_specs
from pyvc.verify import make_world
import pyvc.verify as V
fq_s, sel = sys.argv[1], sys.argv[2]
specs = load_specs(); w = make_world(specs)
fq = [k for k in specs.contracts if k.endswith(fq_s)][0]
def fake(obs, ax, timeout_ms, seed, jobs, single_attempt=()):
    for ob in obs:
        if sel in ob.oid:
            print("==", ob.oid)
            for i, p in enumerate(ob.pc):
                print(f"[{i}]", p.sexpr().replace("\n", " ")[:int(sys.argv[3]) if len(sys.argv) > 3 else 400])
                print()
    return {ob.oid: {"status": "proved", "time": 0, "backend": "z3"} for ob in obs}
V.discharge_all = fake
V.verify_function(w, specs, fq)
