"""solve every (ext-)split part of one obligation separately and show the failing ones.
usage: python -m tools.ob_parts <fn-suffix> <obligation-substring> [timeout_ms] [--show N]"""
import sys, time, z3
from pyvc.check import load_specs
from pyvc.verify import make_world
import pyvc.verify as V
from pyvc import solve as S

args = [a for a in sys.argv[1:] if not a.startswith("--")]
fq_s, sel = args[0], args[1]
tmo = int(args[2]) if len(args) > 2 else 10000
show = 3000
specs = load_specs(); w = make_world(specs)
fq = [k for k in specs.contracts if k.endswith(fq_s)][0]


def fake(obs, ax, timeout_ms, seed, jobs, single_attempt=()):
    S._collect_defs(ax)
    for ob in obs:
        if sel in ob.oid:
            print("==", ob.oid)
            parts = []
            for hyps, g in S.split_goal(ob.goal):
                parts.extend((hyps + h2, g2) for h2, g2 in S.split_goal(g, ext=True))
            print("parts:", len(parts))
            tasks = [(str(k), (lambda hyps=hyps, g=g: S._check_inproc(list(ob.pc) + hyps, g, ax, tmo, seed, True)),
                      S.WALL_SLACK * tmo / 1000.0) for k, (hyps, g) in enumerate(parts)]
            r = S.run_forked(tasks, 16)
            for k, (hyps, g) in enumerate(parts):
                st, info = r.get(str(k), ("error", {}))
                print(f"  part {k}: {st} {info.get('time', 0):.2f}s {info.get('reason', '')}")
                if st != "proved":
                    print("    HYPS:")
                    for h in hyps:
                        print("      ", h.sexpr().replace("\n", " ")[:show])
                    print("    GOAL:", z3.simplify(g).sexpr().replace("\n", " ")[:show])
                    if info.get("model"):
                        print("    MODEL:", str(info["model"])[:2000])
    return {ob.oid: {"status": "proved", "time": 0, "backend": "z3"} for ob in obs}


V.discharge_all = fake
V.verify_function(w, specs, fq)
