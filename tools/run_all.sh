#!/bin/sh
# tools/run_all.sh [tier]: every claimed check, one after the other; prints the summary line of each
cd /verif
for p in $(python3 -c "import json;print(' '.join(c['property_id'] for c in json.load(open('MANIFEST.json'))['checks']))"); do
  ./vcheck "$p" --tier "${1:-quick}" 2>&1 | grep -v "^KNOWN-FINDING" | tail -3 | cut -c1-300
done
