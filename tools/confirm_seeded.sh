#!/bin/sh
# tools/confirm_seeded.sh <dir with patch.diff + demo.py> : confirm a seeded change on a scratch copy of /repo HEAD
# prints one line: <dir> applies=.. compiles=.. touches_pinned=.. demo_clean=<rc> demo_mutant=<rc>
d="$1"
scratch=$(mktemp -d /tmp/seedchk.XXXXXX)
(cd /repo && git archive HEAD packages/llama-index-workflows/src packages/llama-agents-server/src packages/llama-agents-core/src packages/llama-agents-client/src packages/llama-agents-dbos/src packages/llama-agents-control-plane/src src | tar -x -C "$scratch")
applies=yes
(cd "$scratch" && patch -p1 -s < "$d/patch.diff") || applies=no
files=$(grep '^+++ b/' "$d/patch.diff" | sed 's#^+++ b/##')
compiles=yes
for f in $files; do /venv/bin/python -m py_compile "$scratch/$f" 2>/dev/null || compiles=no; done
touches=no
for f in $files; do case "$f" in src/dev_cli/*|tests/*) touches=yes;; esac; done
stub=/verif/replay_support
run_demo() { # $1 = tree root
  (cd "$d" && PYTHONPATH="$stub:$1/packages/llama-index-workflows/src:$1/packages/llama-agents-server/src:$1/packages/llama-agents-core/src:$1/packages/llama-agents-client/src:$1/packages/llama-agents-dbos/src:$1/src" SEEDED_TREE="$1" timeout 600 /venv/bin/python demo.py >/tmp/seedchk_demo.out 2>&1; echo $?)
}
rc_clean=$(run_demo /repo)
rc_mut=$(run_demo "$scratch")
echo "$d applies=$applies compiles=$compiles touches_pinned=$touches demo_clean=$rc_clean demo_mutant=$rc_mut"
rm -rf "$scratch"
