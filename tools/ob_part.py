"""solve a single part with options: python -m tools.ob_part <fn> <sel> <part> <timeout_ms> [--mbqi]"""
import sys, time, z3
if "--mbqi" in sys.argv: z3.set_param("smt.mbqi", True)
from pyvc.check import load_specs
from pyvc.verify import make_world
import pyvc.verify as V
if "--mbqi" in sys.argv: z3.set_param("smt.mbqi", True)
from pyvc.solve import split_goal
fq_s, sel, part, tmo = sys.argv[1], sys.argv[2], int(sys.argv[3]), int(sys.argv[4])
specs = load_specs(); w = make_world(specs)
fq = [k for k in specs.contracts if k.endswith(fq_s)][0]
def fake(obs, ax, timeout_ms, seed, jobs, single_attempt=()):
    for ob in obs:
        if sel in ob.oid:
            hyps, g = split_goal(ob.goal)[part]
            s = z3.Solver(); s.set("timeout", tmo)
            for a in ax: s.add(a)
            for p in ob.pc: s.add(p)
            for h in hyps: s.add(h)
            s.add(z3.Not(g))
            t = time.time(); r = s.check(); print("RESULT", r, round(time.time() - t, 1), s.reason_unknown() if r == z3.unknown else "")
            st = s.statistics()
            for kk in ("quant instantiations", "conflicts", "decisions", "max memory"):
                try: print("   ", kk, st.get_key_value(kk))
                except Exception: pass
    return {ob.oid: {"status": "proved", "time": 0, "backend": "z3"} for ob in obs}
V.discharge_all = fake
V.verify_function(w, specs, fq)
