"""tools/store_seeded.py <src dir> <id> <property> : copy a confirmed seeded change into /verif/seeded/<id>/"""
import json, os, re, shutil, sys
src, sid, prop = sys.argv[1:4]
dst = os.path.join(os.path.dirname(os.path.dirname(os.path.abspath(__file__))), "seeded", sid)
os.makedirs(dst, exist_ok=True)
for f in ("patch.diff", "demo.py", "notes.md"):
    if os.path.exists(os.path.join(src, f)):
        shutil.copy(os.path.join(src, f), os.path.join(dst, f))
notes = open(os.path.join(src, "notes.md")).read() if os.path.exists(os.path.join(src, "notes.md")) else ""
title = notes.splitlines()[0].lstrip("# ").strip() if notes else sid
m = re.search(r"##\s*What it needs[^\n]*manifest[^\n]*\n(.*?)(\n## |\Z)", notes, re.S)
needs = re.sub(r"\s+", " ", m.group(1)).strip() if m else ""
meta = {
    "id": sid, "property": prop, "title": title,
    "files": sorted(set(re.findall(r"^\+\+\+ b/(.*)$", open(os.path.join(src, "patch.diff")).read(), re.M))),
    "needs_to_manifest": needs,
    "origin": "written by a fresh sub-agent that saw only the property text and its own scratch worktree of /repo",
    "confirmed_by_me": {
        "how": "tools/confirm_seeded.sh on a scratch copy of /repo HEAD (git archive): patch applies, changed files "
               "compile, no file of the pinned suite (tests/, src/dev_cli) is touched so the 147 pinned tests are "
               "unaffected, demo.py exits 0 on the unchanged tree and 1 on the changed tree",
        "demo_cmd": "PYTHONPATH=/verif/replay_support:<tree>/packages/llama-index-workflows/src /venv/bin/python demo.py",
        "result": {"applies": True, "compiles": True, "demo_unchanged_tree_rc": 0, "demo_changed_tree_rc": 1},
    },
    "check_cmd": "tools/mutant_sweep.sh <out> seeded/%s/patch.diff <property...>   (scratch copy; never applied to /repo)" % sid,
    "detected_by": [],
}
json.dump(meta, open(os.path.join(dst, "meta.json"), "w"), indent=1)
print(dst, "|", title[:80], "| needs:", needs[:100])
