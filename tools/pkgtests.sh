#!/bin/sh
# Secondary regression guard for fix: commits: the package's own tests that can run here (stubbed instrumentation).
cd /repo/packages/llama-index-workflows
PYTHONPATH=/verif/replay_support:/repo/packages/llama-index-workflows/src /venv/bin/python -m pytest -q -x -p no:cacheprovider \
  --ignore=tests/runtime --ignore=tests/test_handler.py --ignore=tests/test_spans.py \
  --ignore=tests/test_retry_tenacity_conformance.py tests "$@" 2>&1 | tail -5
