import sys, time, z3
z3.set_param("smt.qi.profile", True); z3.set_param("smt.qi.profile_freq", 100000)
from pyvc.check import load_specs
from pyvc.verify import make_world
import pyvc.verify as V
from pyvc.solve import split_goal
fq_s, sel, part = sys.argv[1], sys.argv[2], int(sys.argv[3])
tmo = int(sys.argv[4]) if len(sys.argv) > 4 else 5000
specs = load_specs(); w = make_world(specs)
fq = [k for k in specs.contracts if k.endswith(fq_s)][0]
def fake(obs, ax, timeout_ms, seed, jobs, single_attempt=()):
    for ob in obs:
        if sel in ob.oid:
            parts = split_goal(ob.goal)
            hyps, g = parts[part]
            s = z3.Solver(); s.set("timeout", tmo)
            for a in ax: s.add(a)
            for p in ob.pc: s.add(p)
            for h in hyps: s.add(h)
            s.add(z3.Not(g))
            t = time.time(); r = s.check(); print("RESULT", r, time.time() - t, flush=True)
            del s
    return {ob.oid: {"status": "proved", "time": 0, "backend": "z3"} for ob in obs}
V.discharge_all = fake
V.verify_function(w, specs, fq)
