"""tools/sweep_report.py <sweep logs...>: latest result per (seeded id, property) -> seeded/<id>/meta.json + a table"""
import json, os, re, sys
VERIF = os.path.dirname(os.path.dirname(os.path.abspath(__file__)))
res = {}
for f in sys.argv[1:]:
    for ln in open(f):
        m = re.match(r".*?seeded/([A-Z0-9a-z\-]+)/patch\.diff (C\d+) :: (.*)$", ln.strip())
        if not m:
            continue
        sid, prop, rest = m.groups()
        ex = re.search(r"exit=(\d)", rest)
        code = int(ex.group(1)) if ex else None
        how = ""
        if code == 1:
            how = "replay" if re.search(r"replay=\S+\.(py|sh)", rest) else "text"
        res[(sid, prop)] = (code, how)
rows = []
for sid in sorted(os.listdir(os.path.join(VERIF, "seeded"))):
    mp = os.path.join(VERIF, "seeded", sid, "meta.json")
    meta = json.load(open(mp))
    det, other = [], []
    for (s2, prop), (code, how) in sorted(res.items()):
        if s2 != sid:
            continue
        if code == 1:
            det.append({"check": prop, "how": "native replay" if how == "replay" else "obligation + solver output (no-failing-input-found)"})
        else:
            other.append({"check": prop, "exit": code})
    meta["detected_by"] = det
    meta["not_detected_by"] = other
    json.dump(meta, open(mp, "w"), indent=1)
    rows.append((sid, meta["title"].split(" - ", 1)[-1][:70], ", ".join(meta["files"])[-60:],
                 ", ".join(f"{d['check']} ({'replay' if d['how'].startswith('native') else 'text'})" for d in det) or
                 ("**missed**" + (" (exit 3: checker error)" if any(o["exit"] == 3 for o in other) else ""))))
print("| change | what | caught by |")
print("|---|---|---|")
for sid, title, files, det in rows:
    print(f"| {sid} | {title} | {det} |")
print(f"\n{sum(1 for r in rows if not r[3].startswith('**'))} of {len(rows)} caught")
