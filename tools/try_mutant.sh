#!/bin/sh
# tools/try_mutant.sh <patch.diff> <prop> [<prop> ...] : apply a seeded change to /repo, run the checks, undo it.
patch="$1"; shift
cd /repo || exit 9
if ! git diff --quiet; then echo "REPO NOT CLEAN"; exit 9; fi
if ! git apply --check "$patch" 2>/dev/null; then echo "PATCH DOES NOT APPLY: $patch"; exit 8; fi
git apply "$patch"
cd /verif
for p in "$@"; do
  ./vcheck "$p" 2>/dev/null | grep -v "^KNOWN-FINDING" | cut -c1-300
  echo "  -> $p exit=$?"
done
git -C /repo checkout -- . 
git -C /repo status --short | head -3
