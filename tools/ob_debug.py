"""Developer helper: regenerate the VCs of one function and experiment on selected obligations.
usage: python -m tools.ob_debug <function-suffix> <obligation-substring> [timeout_ms]"""
import sys, time, z3
if "--nombqi" in sys.argv: z3.set_param("smt.mbqi", False)
from pyvc.check import load_specs
from pyvc.verify import make_world
import pyvc.verify as V

def main():
    fq_s, sel = sys.argv[1], sys.argv[2]
    tmo = int(sys.argv[3]) if len(sys.argv) > 3 else 10000
    specs = load_specs(); w = make_world(specs)
    fq = [k for k in specs.contracts if k.endswith(fq_s)][0]
    def fake(obs, ax, timeout_ms, seed, jobs, single_attempt=()):
        from pyvc.solve import split_goal
        for ob in obs:
            if sel not in ob.oid:
                continue
            print("==", ob.oid, "pc:", len(ob.pc), "axioms:", len(ax))
            for ext in (False,):
                parts = split_goal(ob.goal, ext=ext)
                for k, (hyps, g) in enumerate(parts):
                    s = z3.Solver(); s.set("timeout", tmo)
                    for a in ax: s.add(a)
                    for p in ob.pc: s.add(p)
                    for h in hyps: s.add(h)
                    s.add(z3.Not(g))
                    t = time.time(); r = s.check(); dt = time.time() - t
                    print(f"  part{k}: {r} {dt:.2f}s  goal={z3.simplify(g).sexpr()[:150]!r}")
                    if r != z3.unsat and "--stats" in sys.argv:
                        st = s.statistics()
                        for kk in ("quant instantiations", "num allocs", "conflicts", "decisions"):
                            try: print("     ", kk, st.get_key_value(kk))
                            except Exception: pass
                    if r != z3.unsat and "--qf" in sys.argv:
                        # which quantified hypotheses are present
                        for p in list(ob.pc) + hyps:
                            if z3.is_quantifier(p) or "forall" in p.sexpr()[:4000]:
                                print("      Q:", p.sexpr()[:300].replace("\n", " "))
        return {ob.oid: {"status": "proved", "time": 0, "backend": "z3"} for ob in obs}
    V.discharge_all = fake
    V.verify_function(w, specs, fq)

main()
