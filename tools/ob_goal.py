import sys, z3
from pyvc.check import load_specs
from pyvc.verify import make_world
import pyvc.verify as V
from pyvc.solve import split_goal
fq_s, sel, part = sys.argv[1], sys.argv[2], int(sys.argv[3])
specs = load_specs(); w = make_world(specs)
fq = [k for k in specs.contracts if k.endswith(fq_s)][0]
def fake(obs, ax, timeout_ms, seed, jobs, single_attempt=()):
    for ob in obs:
        if sel in ob.oid:
            hyps, g = split_goal(ob.goal)[part]
            print("HYPS:")
            for h in hyps: print("  ", h.sexpr().replace("\n"," ")[:1500]); print()
            print("GOAL:", g.sexpr().replace("\n", " ")[:6000])
    return {ob.oid: {"status": "proved", "time": 0, "backend": "z3"} for ob in obs}
V.discharge_all = fake
V.verify_function(w, specs, fq)
