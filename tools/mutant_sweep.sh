#!/bin/sh
# tools/mutant_sweep.sh <outfile> <patch> <prop> [...]: run property checks against a scratch copy of /repo with the
# patch applied (never touches /repo; evidence and replays go to a scratch directory).
out="$1"; patch="$2"; shift 2
tag=$(echo "$patch" | sed 's#[/.]#_#g')
scratch=/tmp/mrepo$tag
rm -rf "$scratch"; mkdir -p "$scratch"
(cd /repo && git archive HEAD packages/llama-index-workflows/src packages/llama-agents-server/src packages/llama-agents-core/src packages/llama-agents-client/src packages/llama-agents-control-plane/src packages/llama-agents-dbos/src packages/llamactl/src packages/llama-agents-agentcore/src src | tar -x -C "$scratch")
if ! (cd "$scratch" && git apply --unsafe-paths "$patch" 2>/dev/null || patch -p1 -s < "$patch"); then echo "$patch: DOES NOT APPLY" >> "$out"; rm -rf "$scratch"; exit 1; fi
for p in "$@"; do
  res=$(cd /verif && VERIF_REPO="$scratch" VERIF_OUT="$scratch/out" VERIF_EVID="$scratch/evid" ./vcheck "$p" 2>/dev/null | grep -v "^KNOWN-FINDING" | cut -c1-220 | tr '\n' '|')
  echo "$patch $p :: $res" >> "$out"
done
rm -rf "$scratch"
