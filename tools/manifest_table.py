# table read by gen_manifest.py:  claim(id, text, note)  /  na(id, reason)

claim("C05",
      "Retry accounting on both sides, for all states and events: the attempt counter, first-attempt time, last "
      "exception / failure time and recovery counts travel unchanged with an event into its worker slot "
      "(_add_or_enqueue_event; a first-attempt time of 0.0 is a time, fix e9433f3), are kept when interrupted work is "
      "re-queued (rewind_in_progress) and when a failure is retried (attempts+1, same first-attempt time); the policy "
      "is consulted with elapsed = now - first attempt and the 1-based failure count, and _ComposableRetryPolicy.next "
      "/ the stop conditions / _to_seconds are proved against their definitions.",
      "That the two timestamps are taken from one clock is a structural obligation on the real functions "
      "(InternalAsyncioAdapter.get_now returns time.time(), like the failure stamps; fix 1cc26d5), replayed by an "
      "end-to-end scenario; adapters of other runtimes and retry_info() are not under contract; floats are mathematical "
      "reals.")

claim("C10",
      "The three places a wait passes through are under contract: InternalContext.wait_for_event (which wait is "
      "registered - id derived from the awaited type AND the requirements unless given -, with which payload, when "
      "TimeoutError is raised, which event is handed out: exception payloads are part of the contract), the reducer "
      "(_process_add_event_tick: only a waiter that is still waiting - not answered, not timed out - can be answered, "
      "by an event of exactly the awaited type that meets every requirement, other waiters untouched, an answered "
      "waiter keeps its event (fix 04b084e); _process_waiter_timeout_tick: only an existing unresolved waiter times "
      "out, once) and the snapshot functions (waiters keep id, replay event, awaited type, delivered result and the "
      "requirements flag across serialize/resume). Every obligation is discharged for all states and events.",
      "Rehydration of requirements after a resume (rehydrate_with_ticks) and the step worker that turns WaitingForEvent "
      "into an AddWaiter result are not under contract; un-rehydrated requirements matching any event (DESIGN.md 7, "
      "C10 ii) is therefore not reported by this check; 'waiter_event is published once per waiter id' is covered only "
      "per tick (AddWaiter of a new id publishes it once).")

claim("C31",
      "Reducer part: a timeout tick publishes WorkflowTimedOutEvent naming exactly the steps with running invocations, "
      "then halts with WorkflowTimeoutError and marks the run not running; a cancel tick publishes "
      "WorkflowCancelledEvent, halts with WorkflowCancelledByUser and leaves the state untouched (resumable).",
      "Runner side: one structural obligation on the real _ControlLoopRunner.run (AST, replayed by a native scenario): "
      "scheduled ticks - the run's timeout among them - are promoted only on a wake-up in which no task completed, so "
      "a completed result is not overtaken by a timer that came due together with it. The rest (scheduling of the "
      "timeout tick, cleanup of tasks, interleaving of cancellation with worker completion) is trusted.",
      technique="contract-based deductive verification of the reducer (sidecar pre/postconditions and loop invariants on "
                "the real functions, VCs generated from /repo's source by pyvc, discharged by z3); one ordering contract "
                "on the runner's main loop decided on the AST of the real method, replayed by a native scenario")

na("C17", "end-to-end client/server/httpx composition under connection faults: no contract on repository code "
          "carries the property (DESIGN.md 6)")
na("C18", "the property is pydantic's model_dump/model_validate/importlib semantics; there is no contract for "
          "pydantic to verify against (DESIGN.md 6)")
na("C26", "cross-process interleavings and crash points over DBOS/asyncpg/SQL; dbos is not importable here "
          "(DESIGN.md 6)")
na("C27", "DBOS recovery across process stops: crash points and SQL semantics are outside contract-based "
          "verification of Python functions (DESIGN.md 6)")
na("C28", "the state is a SQLite schema driven by SQL scripts; no SQL semantics within reach (DESIGN.md 6)")
na("C37", "all state lives behind SQL strings in SQLite; proving it would mean hand-modelling each statement, i.e. "
          "a model, not the code (DESIGN.md 6)")

claim("C01",
      "Inductive invariant over the pure reducer, discharged for all states, ticks, queue lengths and num_workers: per "
      "step, in_progress never exceeds num_workers and its worker ids are pairwise distinct and in [0, num_workers); "
      "every reducer function (_add_or_enqueue_event, rewind_in_progress, _process_*_tick, _reduce_tick) preserves it; "
      "new work takes the smallest free slot; the only worker a result tick starts on the reporting slot is its own "
      "re-run, and then the slot stays occupied.",
      "The link 'one CommandRunWorker = one real invocation, whose TickStepResult is delivered once' (runner main loop, "
      "adapters, asyncio) is trusted; free-slot existence uses the pigeonhole lemma (lemmas/FreeSlot.lean) as an "
      "assumed instance at _add_or_enqueue_event.")

claim("C02",
      "Routing postcondition of _process_add_event_tick, for every state and event: per step exactly one of - woken "
      "through a matching waiter (event stored as the waiter's result, not delivered as input) / handed the event "
      "exactly once when its exact type is accepted and the optional target matches (one more attempt carrying the "
      "tick's retry fields) / left untouched; UnhandledEvent exactly when nothing took the event and it is not an "
      "InputRequiredEvent. Every event a step returns becomes exactly one CommandQueueEvent (step result tick), and "
      "_ControlLoopRunner.process_command turns a CommandQueueEvent into exactly one TickAddEvent - buffered at once "
      "when there is no positive delay, otherwise one scheduled entry. wait_for_event registers waits under ids that "
      "distinguish different requirements.",
      "ctx.send_event's fire-and-forget task, the adapters' queues and the runner's main loop (that every buffered "
      "tick is reduced once) are trusted.")

claim("C03",
      "(a) work conservation (queued events only while all num_workers slots are busy) is an inductive invariant of "
      "every non-exiting tick, incl. rewind; (b) _check_idle_state is exactly 'running and all queues and in_progress "
      "empty'; CommandScheduleIdleCheck is emitted only as the last command and only in a quiescent state; a "
      "TickIdleCheck announces idleness iff the state is quiescent at that moment.",
      "Part (c) of the property (no idle announcement while a delayed retry / undelivered tick is pending in the runner's "
      "heap) concerns _ControlLoopRunner state that the reducer cannot see; it is not covered by these obligations.")

claim("C04",
      "For every tick kind the reducer is total (raises only the documented ValueError for an unknown worker) and every "
      "exit command is immediately preceded by the publication of the matching terminal event (same StopEvent / "
      "WorkflowFailedEvent with the same exception / WorkflowTimedOutEvent / WorkflowCancelledEvent; idle release is the "
      "documented exception). A raising user retry policy no longer escapes (fix 355c975).",
      "Runner side: one structural obligation on the real _ControlLoopRunner (AST, replayed by a native scenario): a "
      "worker result carrying the StopEvent awaits cleanup_tasks() - cancel every worker task, then wait for all of "
      "them - before its tick is buffered, so a cancelled sibling cannot publish after the terminal event. The rest "
      "(commands after an exit are not executed; stream_published_events stops at the first StopEvent; the main "
      "loop's scheduling) is trusted.",
      technique="contract-based deductive verification of the reducer (sidecar pre/postconditions and loop invariants on "
                "the real functions, VCs generated from /repo's source by pyvc, discharged by z3); one ordering contract "
                "on the runner's main loop decided on the AST of the real method, replayed by a native scenario")

claim("C08",
      "Both halves are under contract. Tables: validate_catch_error_handlers returns no error IFF the handler set is "
      "consistent (at most one wildcard, every scoped target a known non-handler step claimed exactly once), and "
      "_collect_catch_error_handlers builds exactly: one descriptor per @catch_error step with its own configuration; "
      "every non-handler step owned by the handler that lists it, else by the wildcard, else by nobody; a handler step "
      "is never owned. Routing: the reducer's failed-branch routes an exhausted failure iff the step has an owning "
      "handler whose recovery count for this lineage stays within max_recoveries, addresses the StepFailedEvent to that "
      "handler with the count incremented (other counts unchanged), otherwise emits WorkflowFailedEvent + "
      "CommandFailWorkflow with the original exception. The snapshot lemma adds: queued work keeps its recovery counts "
      "across serialize/resume; work that is in flight does not (recorded known finding).",
      "Workflow._validate (which stores the tables on the workflow, and skips doing so when disable_validation=True - "
      "the statement's last sentence) is not under contract; field annotations are trusted as run-time types (the "
      "isinstance(max_recoveries, int) guard is decided statically).",
      category="other")

claim("C35",
      "Per tick: starting work publishes RUNNING for the assigned slot, waiting for capacity publishes PREPARING; a "
      "result tick either gives the slot up - NOT_RUNNING for that worker id is the first command and the step holds "
      "one piece of work less - or re-runs it in place; waiter timeouts and routing only ever emit start commands.",
      "Whole-stream balance over a run (RUNNING ... NOT_RUNNING pairing across ticks) follows from these per-tick facts "
      "plus the trusted runner; 'InputRequiredEvent published exactly once' is not stated as a clause yet.")

claim("C06",
      "Contracts written from the property statement on each wait strategy (__call__) and on the composed policy: the "
      "k-th retry (k = the 1-based failure count the reducer passes, proved at the reducer: failures = attempts+1, "
      "handed unchanged through _ComposableRetryPolicy.next) must use strategy k of wait_chain, multiplier*exp_base^(k-1) "
      "for wait_exponential and start+increment*(k-1) for wait_incrementing. These three clauses are refuted on the "
      "unchanged tree (recorded known findings, each confirmed natively); everything else is discharged.",
      "Known findings are an API decision (every local repair contradicts the package's own unit tests of w(0)); "
      "float arithmetic is modelled over the reals.",
      category="other")

claim("C07",
      "retry_any/all, stop_any/all and wait_combine are proved equal to the or / and / sum of their parts for every "
      "tuple of parts; every built-in wait is proved to return a value within its documented bounds under its parameter "
      "precondition; the float power exp_base**attempts is a range obligation (CPython raises OverflowError), handled "
      "by the code since fix 1ad9831; jittered waits depend only on (seed, bounds) through the assumed contract of "
      "random.Random(seed).uniform.",
      "floats are mathematical reals except for the explicit power-range obligation; random.uniform(a,b) in [a,b] and "
      "determinism of Random(seed) are assumed library contracts; the | & + dunder methods and __init__ conversions "
      "are not separately under contract.")

claim("C11",
      "rebuild_state_from_ticks and replay_ticks_stream are proved, for every well-formed initial state and every tick "
      "list, to start exactly like the live runner (the same rewind_in_progress: with an empty log nothing is left "
      "queued while a slot is free), to thread the state through the same _reduce_tick under the reducer's inductive "
      "invariant (shape of the workflow kept, worker ids legal and distinct), to raise only the documented ValueError "
      "and to leave the caller's state and tick list untouched (no aliasing with the live state); replay_ticks_stream "
      "reports only an exit command the reducer really emitted. ExternalContext._state (what running_steps() and "
      "to_dict() report) is proved - over a ghost log of its calls - to be ONE call of rebuild_state_from_ticks on the "
      "run's initial state and the WHOLE recorded tick log, whose result it returns.",
      "Not a full functional-equality proof: that the loop feeds EVERY tick exactly once and in order is checked by the "
      "loop contract's structure (for-over-list cut at the invariant) but 'result == fold(reduce, ticks)' is not stated "
      "as a ghost fold yet; that the persistence adapter journals every tick it is shown (PersistTick) and that the "
      "runner's _process_tick shows every tick it has reduced to adapter.on_tick exactly once, before executing its "
      "commands (RunnerProcessTick), are under contract - that the runner's main loop passes every tick it takes from "
      "its buffer to _process_tick is read off the loop (`while self.tick_buffer: ... _process_tick(tick)`) and "
      "trusted; timestamps are set aside as in the statement.",
      category="other")

claim("C20",
      "Lock-discipline contract guarded_by(_lock) on both state-store classes, decided on the AST of the real classes "
      "for every method and every syntactic path: each write of the shared state (self._state / _save_state) is lexically "
      "inside `async with self._lock`, and edit_state holds the lock across its yield. With one asyncio lock per store "
      "this makes every operation atomic w.r.t. the others at every await point, i.e. serializable. A failed obligation "
      "is replayed by a native two-task scenario (scenarios/store_scenarios.py) on the real classes. Since fix e334c81 "
      "all obligations hold.",
      "Decided syntactically, not by SMT: the obligation is 'write dominated by lock acquisition' on the method's AST; "
      "asyncio.Lock's mutual exclusion and SQLite's statement atomicity are assumed; cross-store-instance sharing of one "
      "run_id row (two SqliteStateStore objects for the same run) is outside the lock's reach and not covered.",
      category="other",
      technique="contract-based: guarded_by(lock) ownership contract on the real classes, obligations decided on the "
                "Python AST (lexical lock scope on every path), failing obligations replayed natively")

claim("C21",
      "Ownership contract close_requires_ownership on SqliteStateStore / SqliteWorkflowStore: a connection obtained "
      "from _connect() may be closed only under the `owns connection` guard; decided on the AST for every method of the "
      "real classes (all syntactic paths), with the native scenario `single_connection` replaying any failed obligation "
      "against real sqlite. Since fix 19adfa4 all obligations hold. One result that differs between the modes is "
      "under contract as well (pyvc + z3, ghost call log): SqliteWorkflowStore.delete returns the row count of the "
      "cursor that executed ITS statement - not a connection-wide counter, which on a shared connection includes "
      "earlier operations.",
      "Equivalence of results between the two connection modes beyond 'the shared connection stays open' and the "
      "delete count (transaction visibility, commit points, the other operations' results) relies on SQLite semantics "
      "and is not covered.",
      category="other",
      technique="contract-based: ownership (close only what you opened) contract on the real classes, obligations "
                "decided on the Python AST, failing obligations replayed natively against sqlite; delete's result "
                "as a postcondition over a ghost call log (pyvc + z3)")

claim("C12",
      "BrokerState.to_serialized, from_workflow and from_serialized are under contract and fully discharged (what is "
      "written / rebuilt, field by field, for every state, every number of steps, queue lengths, waiters, buffers). The "
      "property is then a lemma over those contracts (harness lemmas/py/vlemmas/snapshot.py composing the two real "
      "functions, proved against the callees' contracts): after a snapshot round trip the running flag, step "
      "configuration, queued attempts with all retry accounting, collected events and waiters (id, replay event, awaited "
      "type, delivered result, requirements flag) are preserved and in-flight work is re-queued after the queued work, in "
      "order. Two clauses taken from the statement fail and are recorded known findings (in-flight work loses its retry "
      "count / recovery budget; a fired waiter timeout is forgotten), each reproduced natively on every run.",
      "Assumed: serializer round trip on events and importlib on event classes (instances stated as assume_ clauses, "
      "C18 is not applicable), pydantic model_dump/JSON/model_validate between the two functions is the identity; the "
      "state store part (ctx.store) and the re-execution after resume (runner) are not covered; idempotence of a "
      "second round trip is not stated as a clause yet.",
      category="other")

claim("C13",
      "replay_ticks_stream (what a restarted server uses to rebuild a run) is proved to start like the live runner, to "
      "keep the reducer invariant over every persisted tick and to report as the run's outcome only an exit command the "
      "reducer really emitted for one of those ticks (so a run whose ticks already end it is finalized, not re-run). "
      "The journal side is under contract too: _PersistenceInternalRunAdapter.on_tick is proved (ghost call log) to "
      "forward EVERY tick, whatever its kind, to the inner adapter and to offer its serialised form to "
      "store.append_tick exactly once under the run's id; and the live runner's _process_tick is proved to hand every "
      "tick it has reduced to adapter.on_tick exactly once, before any of its commands runs (a tick the reducer "
      "rejected is not journaled), after_tick following exactly when the tick did not end the run.",
      "The statement's 'no accepted event is lost' half is decided only up to the journal: commands of replayed ticks "
      "other than the exit command are discarded by design and whether their effects were persisted as later ticks is "
      "a property of the rest of the server runtime (_on_server_start, the store's append_tick implementations) that "
      "is not under contract; handler status mapping is not under contract either.",
      category="other")

claim("C14",
      "Where timers live is pinned down by contract: _ControlLoopRunner.process_command is proved to put a delayed retry "
      "and a waiter timeout into the in-memory schedule only (exactly one entry, due at now+delay) and the snapshot "
      "lemma (C12) shows what a reload restores; the clause 'a waiter timeout that has fired is still in effect after a "
      "reload' fails and is a recorded known finding, reproduced natively on every run. "
      "The idle-release side (shared with C36) is under contract as far as 'a run is only released after it has been "
      "idle for idle_timeout, and every idle announcement re-stamps idle_since'. The deep copies of worker state are "
      "proved field by field (the timed-out flag of a waiter survives a copy).",
      "The property as a whole (timers re-armed after idle release / restart) concerns the reload path of "
      "idle_release_runtime and persistence_runtime, which is not under contract: this check decides only the facts "
      "above and must not be read as a proof of C14.",
      category="other")

claim("C24",
      "In-memory store: _matches_query is proved equal to the conjunction of all given filters (an empty list matches "
      "nothing) on all 78 paths; query returns exactly the matching handlers, each once, and leaves the store untouched; "
      "delete removes exactly the matching handlers and returns their number; update / _evict_oldest_completed keep "
      "every non-terminal handler and drop only the oldest completions, and only when more than max_completed "
      "completed handlers exist - under the inductive store invariant 'the completion queue lists exactly the completed "
      "handlers, each once', which every operation is proved to preserve (since fix a483339). SQLite store, the "
      "Python side of the statements: _build_filters returns None exactly when a given filter list is empty (matches "
      "nothing, as in memory) and otherwise one clause per given filter in a fixed order, each IN clause with one "
      "placeholder per value, with the parameter list holding the values in the same order (the k-th placeholder "
      "binds the k-th parameter); delete sends no statement when nothing can match or no filter is given, otherwise "
      "exactly one statement on a cursor of the store's connection with those parameters, commits once, and returns "
      "the row count of that statement's cursor (ghost call log).",
      "SQLite parity beyond that is assumed, not proved: the SQL text itself (strings are opaque except for the "
      "placeholder structure), SQLite's semantics of IN / AND and of cursor.rowcount; query() of the SQLite store is "
      "not under contract; asyncio interleavings "
      "of store operations are not modelled (each operation has no await between its reads and writes); the order of "
      "surviving queue entries after delete() is not stated.")

claim("C23",
      "Four of the statement's conjuncts are decided, for every step set: (0) the three graph checks of "
      "validate_graph GIVEN the step graph, and the graph itself: `_dfs` returns a set that contains the seeds, is "
      "closed under the adjacency lists and has only members derivable from the two closure axioms of reachability "
      "(exactly the reachable set, by the induction principle proved in lemmas/lean/Reach.lean); build_step_graph "
      "(a second contract on the real function) records every step as a step name, an edge from each accepted event "
      "type to its step and from each step to each of its return types (None excepted), seeds the forward search with "
      "the start event, every HumanResponseEvent (sub)class of the graph and every catch_error step, reverses every "
      "edge for the backward search and seeds it with every StopEvent / InputRequiredEvent (sub)class, so that the "
      "forward set is closed under the graph's edges and the reverse set closed against them; for the checks: the "
      "reachability error lists exactly the steps that are not forward-reachable and not opted out, the dead-end error "
      "exactly the event-producing steps that cannot reach an output event and are not opted out, a terminal-event error "
      "is reported iff some event type has no consuming step and is not an output event; each check is silent exactly "
      "when it is skipped for the workflow or nothing qualifies, and one check's per-step opt-outs do not leak into "
      "another; (1) event connectivity - "
      "_validate_event_connectivity raises WorkflowValidationError only when some step consumes a StopEvent (sub)class, "
      "or a consumed event is neither produced nor a boundary event, or a produced event is neither consumed nor an "
      "output event, and returns only when none of these holds; (2) the human-in-the-loop flag it returns is true iff "
      "a produced event type is an InputRequiredEvent (sub)class or a consumed one a HumanResponseEvent (sub)class (fix "
      "3cd0ed0: the flag ignored subclasses); (3) @catch_error consistency - validate_catch_error_handlers returns no "
      "error iff at most one wildcard exists and every scoped target is a known non-handler step claimed exactly once, "
      "and _collect_catch_error_handlers raises or returns tables that agree with it.",
      "NOT covered: exactly-one StartEvent / StopEvent type (_ensure_start_event_class / _ensure_stop_event_class); "
      "that the graph has NO OTHER edges / seeds than the recorded ones (the contract of build_step_graph says what is "
      "in the graph, not what is not), so 'not reachable' is relative to the adjacency the function built; the plain "
      "contract that names build_step_graph's result for validate_graph (a function of its arguments) stays assumed; "
      "the Lean lemma is re-checked by the thorough tier only; the order of names inside an error is left open "
      "(sorted() is modelled as a permutation). This check must not be read as a proof of all of C23.",
      category="other")

claim("C16",
      "In-memory store only: under the invariant 'every run's log is numbered 0,1,2,... in list order', append_event is "
      "proved to append exactly one record with the next consecutive number (earlier records and other runs' logs "
      "untouched, invariant kept), and query_events to return only records of this run numbered above the cursor, in "
      "publication order and once each, all of them when no limit is given and at most `limit` otherwise. For both "
      "stores' subscribe_events a structural obligation (AST, replayed by a native scenario on the real stores) "
      "decides the statement's last clause: every yielded record is tested for being terminal right after its yield "
      "and the generator returns on the first one, wherever it sits in a batch. The server adapter is proved to "
      "append every live event to the run's log exactly once (shared with C15).",
      "subscribe_events' cursoring (an async generator with a condition variable), the SQLite store's numbering "
      "(MAX+1 in SQL) and the HTTP layer (_resolve_event_stream) are not under "
      "contract; 'the first record returned is exactly number k+1' needs a counting argument that is not stated.",
      category="other")

claim("C25",
      "KeyedLock.__call__ is a generator-based async context manager; its two atomic sections (the bodies of the two "
      "`async with self._get_main_lock()` blocks, extracted mechanically from the real source on every run) are under "
      "contract and discharged by z3: registering adds exactly one unit to _refs[key], creates a lock only for a key "
      "that has none and otherwise keeps the SAME lock object, touches no other key; deregistering removes one unit, "
      "deletes the key's entries exactly when the count reaches zero and touches no other key; both keep the table "
      "invariant (a lock exists exactly for keys with a positive count). On the AST of the real method: both sections "
      "contain no await / yield, every other table access is the read of the key's lock to acquire it, the caller's "
      "block runs under the key's lock, deregistration sits in the finally around it (holders, failing blocks and "
      "cancelled waiters all deregister) and registration precedes the try.",
      "The composition (per-key mutual exclusion, independence of keys, no lock state left) follows from these facts "
      "plus asyncio.Lock's exclusion by a rely/guarantee argument written in the evidence assumptions, which is not "
      "machine-checked; 'every waiter eventually enters' (fairness of asyncio.Lock) is not decided.",
      category="other",
      technique="contract-based: pre/postconditions + data-structure invariant on the mechanically extracted atomic "
                "sections of the real method (pyvc + z3), structural obligations on its AST")

claim("C30",
      "The get-or-create section of BasicRuntime._maybe_acquire_max_concurrent_runs (the await-free statements before "
      "`async with sem`, extracted mechanically from the real source) is under contract and discharged: the semaphore a "
      "run is gated by is the one stored under its workflow instance - the existing one if there is one (table "
      "untouched), otherwise a new one with exactly num_concurrent_runs permits - and entries of other instances are "
      "untouched. On the AST: the limited branch's block runs inside `async with sem`, nothing awaits between the "
      "start of that branch and the `async with`, and run_workflow awaits the run function inside the gate.",
      "asyncio.Semaphore's bound and fairness are assumed (so 'every started run eventually executes' is not decided); "
      "the table is a WeakValueDictionary - that an entry cannot vanish while a run of the instance is between the "
      "section and the end of its `async with` is argued in the contract notes, not modelled; instances are told "
      "apart by id().",
      category="other",
      technique="contract-based: postconditions on the mechanically extracted atomic section (pyvc + z3), structural "
                "obligations on the AST of the real methods")

claim("C09",
      "Reducer side of collect_events, as two variant contracts on _process_step_result_tick (the plain contract's "
      "precondition and invariants plus the result shapes collect_events produces): (a) an event offered to a buffer "
      "is recorded exactly once, at the end of its buffer, or - when the buffer has grown since the invocation's "
      "snapshot - not at all, in which case the invocation is re-run with a fresh snapshot and offers it again "
      "(neither lost nor counted twice), other buffers untouched: discharged for every state and buffer content; (b) "
      "on completion the code drops the whole buffer (proved), so the clause taken from the statement 'events that "
      "arrived after the completing invocation's snapshot stay in the buffer' fails: recorded known finding, "
      "reproduced natively on every run.",
      "InternalContext.collect_events itself works on collections.Counter multisets of event types, outside the "
      "verifier's encoding: its contract (a list only when every expected type has been received with multiplicity, "
      "ordered as the expected list, each received event at most once; a still-needed event recorded once; the "
      "completing event returns the list and clears the buffer) is checked as a BOUNDED stand-in - run-time, real "
      "function, complete enumeration of expected lists of length 0..3, buffers 0..2 over three event classes - "
      "labelled bounded, never counted as proved. Result lists that mix several collect actions in one tick are "
      "outside the two reducer-side shapes.",
      category="other",
      technique="contract-based deductive verification of the reducer side (pyvc + z3, variant contracts); the "
                "step-side function InternalContext.collect_events only as a bounded stand-in (run-time checked "
                "contract over an exhaustively enumerated finite domain), labelled bounded, not counted as proved")

claim("C36",
      "Two pieces of the in-process stack are decided. (1) Marking: _IdleReleaseInternalRunAdapter.write_to_event_stream "
      "is proved - over a ghost log of its collaborator calls - to stamp the handler row (status running, idle_since = "
      "now) on EVERY WorkflowIdleEvent of the run, to forward every event to the inner adapter exactly once and to arm "
      "exactly one deferred release per idle announcement (none otherwise). (2) Release decision: the body of `async "
      "with self._reload_lock(run_id)` in IdleReleaseDecorator._release_idle_handler (extracted mechanically) removes a "
      "run from memory if and only if the store holds exactly one handler row for it whose idle_since is at least "
      "idle_timeout in the past at that moment and the run is active, and touches no other run. (3) Activity: the body "
      "of `async with self._runtime._reload_lock(run_id)` in IdleReleaseExternalRunAdapter.send_event clears the idle "
      "mark (one store write, idle_since=None) when the run is still in memory, reloads it otherwise, and forwards the "
      "event exactly once afterwards. (4) Reload: _ensure_active_run_locked leaves an active run alone (nothing started, "
      "nothing written) and starts a released run exactly once under its own run id, marks it active, clears its idle "
      "mark and changes no other run's membership; when the handler row or the workflow is missing nothing is started. "
      "One fact about the DBOS stack is decided from its source text alone (the package cannot be imported here, so "
      "there is no native side): DBOSIdleReleaseDecorator._deferred_release takes itself out of the timer table "
      "BEFORE it starts the release handshake - the call-site precondition of _release_idle_handler - so that the "
      "tick the handshake sends cannot cancel the task that is running it.",
      "NOT covered: that the reloaded run continues from where it stopped (what context_from_ticks replays: C11 / "
      "C13 cover the replay functions, not this call chain), the interplay of the deferred release task with these "
      "sections beyond the reload lock, and the rest of the DBOS stack (packages/llama-agents-dbos: lifecycle lock, "
      "journal, crash recovery - not importable here). The store query and the clock are modelled as read once inside "
      "each section. This check must not be read as a proof of C36.",
      category="other",
      technique="contract-based: postconditions on a mechanically extracted section and over a ghost call log of the "
                "real methods (pyvc + z3)")

claim("C34",
      "BOUNDED STAND-IN, nothing is proved: semver_to_pep440 / pep440_to_semver / detect_change_type are string "
      "functions over regular expressions and packaging.version, outside the verifier's encoding (no string theory). "
      "Their contracts (the two round trips give back the normalised original; the classification is 'none' exactly "
      "when the new version is not greater and otherwise names the most significant release component that grew) are "
      "checked at run time on the real functions over a complete enumeration of a small version domain (components "
      "0..2, pre-releases a/b/rc 0..2; 0..3 and all pairs in the thorough tier; the two round trips also on release "
      "tuples of one, two and four components - which is how the defect repaired by fix b5133a2 was found).",
      "Bound: no epochs, post/dev/local segments, multi-digit components or more than four release components (three "
      "for the classification); when "
      "only the pre-release part grew the statement names no component and any of major/minor/patch is accepted.",
      category="exploration",
      technique="bounded stand-in for contract verification: run-time checked contracts on the real functions over an "
                "exhaustively enumerated finite domain (stated bound); labelled bounded, not counted as proved")

claim("C15",
      "The place where a run's outcome reaches the handler record is under contract: "
      "_ServerInternalRunAdapter.write_to_event_stream is proved - over a ghost log of the calls it makes on the runtime, "
      "the store and the inner adapter - to request exactly one status update when the run publishes its terminal "
      "event, with the status that matches how it ended (WorkflowFailedEvent / WorkflowTimedOutEvent -> failed, with "
      "the error text; WorkflowCancelledEvent -> cancelled; any other StopEvent -> completed, with that event as the "
      "result), for the run's own id, and none for other events or while ticks are replayed; every live event is "
      "appended to the run's log exactly once and always forwarded to the inner adapter. Two more pieces of the "
      "statement: _WorkflowService.start_workflow is proved to write the handler row - under the run id the run is "
      "then started with - BEFORE it schedules the run, on every path including failures (a run that ends at once "
      "finds its row); ServerRuntimeDecorator._retry_store_write is proved never to consume the runtime-wide backoff "
      "schedule (every later write, e.g. the terminal status, gets all its attempts).",
      "NOT covered: what the store does with the request (AbstractWorkflowStore.update_handler_status: that a terminal "
      "status is never overwritten by a later `running`), how many attempts _retry_store_write makes, and that every run "
      "does publish a terminal event (C04 shows that for the reducer; the runner is trusted). `self.run_id` and "
      "`is_replaying()` are read through the inner adapter and treated as stable during the call.",
      category="other",
      technique="contract-based: postconditions over a ghost log of the collaborator calls of the real method "
                "(pyvc + z3), cross-checked natively with recording stand-ins")


claim("C32",
      "BOUNDED STAND-IN, nothing is proved: find_deployment_id / _append_random_suffix are string functions (lower, "
      "re.sub, slicing, random hex digits) outside the verifier's encoding, in a module that imports the kubernetes "
      "client (not installed here). Their `def`s are extracted mechanically from the real k8s_client.py on every run and "
      "executed with a seeded `random` and a stub for the Kubernetes look-up `validate_deployment_id`; the contract "
      "taken from the statement (the id is a valid DNS-1035 label of at most 63 characters; a name with at least three "
      "lowercase alphanumerics gives an id made of exactly those; a name with fewer gets a random suffix - split into "
      "the two classes 'normalised form shorter than three' and 'hyphenated form of three or more'; a forced suffix / "
      "a taken id gives a suffixed id) is checked at run time over a complete enumeration: every display name of "
      "length 0..4 (0..5 thorough) over 11 symbols incl. non-ASCII letters and digits, plus long names around the "
      "63-character limit, with and without force_suffix, with 0 and 2 ids taken. The second class failed on the "
      "unchanged tree ('7' -> 'd-7', 'a b' -> 'a-b') and was repaired by fix 2c03820.",
      "Bound: the alphabet and lengths above, one seed of the random suffix per run, at most two collisions; what the "
      "extraction drops: everything of k8s_client.py except the two functions, and the real Kubernetes look-up.",
      category="exploration",
      technique="bounded stand-in for contract verification: run-time checked contract on mechanically extracted real "
                "functions over an exhaustively enumerated finite domain (stated bound); labelled bounded, not counted "
                "as proved")


claim("C19",
      "BOUNDED STAND-IN, nothing is proved: get_by_path / set_by_path walk dynamically typed values with string "
      "splitting and integer parsing, and get_state goes through pydantic's model_copy / JSON - outside the verifier's "
      "statically typed, string-free encoding. The contract taken from the statement is checked at run time on the real "
      "classes (InMemoryStateStore over DictState and over a typed model, SqliteStateStore from a real "
      "SqliteWorkflowStore on a temporary file) over a complete enumeration of small operation sequences: (1) a state "
      "obtained from get_state is a snapshot - editing its top-level keys / fields leaves the store unchanged until "
      "set_state writes it back; (2) get / set by dotted path (intermediate dicts created as needed) and clear return "
      "the values of a plain nested-dict model, for the in-memory and the SQLite store; (3) overwriting a value with an "
      "equal-but-different JSON value (1 / true / 1.0, also nested) through set or edit_state stores the new value; (4) "
      "set_state with a parent-typed state overwrites exactly the parent's fields, defaults included, and keeps the "
      "child's own. Clause (1) failed on the unchanged tree for the in-memory store over DictState and was repaired by "
      "fix 90804d2; (3) and (4) were added because two seeded changes were missed without them.",
      "Bound: prefixes of at most two sets before the snapshot; operation sequences of length <= 2 (3 in the thorough "
      "tier) over five paths and four JSON values, sampled in the quick tier; a fixed list of seven value swaps at two "
      "paths; one inherited model over 4 x 5 field settings; list indices in paths, nested typed models and longer "
      "edit_state blocks are outside it. The lock discipline of these classes (lost updates) is C20.",
      category="exploration",
      technique="bounded stand-in for contract verification: run-time checked contract on the real classes over an "
                "exhaustively enumerated finite domain of operation sequences (stated bound); labelled bounded, not "
                "counted as proved")

claim("C22",
      "ResourceManager after fix 8bfe69d (a dependency resolution runs under the manager's lock, re-entrant for the "
      "resolving task). Discharged by z3 on the real code: `_get` - a name already on the resolution chain never "
      "returns a value and a cycle error is raised here only for such a name (any other ValueError comes out of the "
      "single nested resolve()); a cached resource that exists is returned as it is, without a factory call and "
      "without touching anything; within one resolution the per-resolution table answers; otherwise exactly one "
      "resolve() of this descriptor, whose value is returned and recorded (workflow-wide only if cached); on EVERY "
      "exit - value, factory error, nested cycle, cancellation - the chain is as before and nothing already resolved "
      "is replaced or dropped (the resolution guarantee, assumed for the re-entrant resolve() call and proved for "
      "`_get` and `get#with1`). `resolution_scope#enter/#exit` (mechanically extracted halves of the generator "
      "context manager): leaving the outermost scope empties the per-resolution table, inner scopes leave it alone, "
      "the workflow-wide table is never touched. `_resolution_lock`: one lock per manager and loop. `set`: one "
      "entry. On the AST: the bookkeeping fields are used only by `_get` / `resolution_scope`; `_get` is reached only "
      "through get()'s exclusive section; the scope is entered only inside `async with lock > try/finally owner "
      "reset`; re-entry is by task identity; the owner is recorded under the lock; the lock is taken by `async with` "
      "only; `partial` resolves all of a step's resources inside ONE exclusive section.",
      "The composition of these pieces under concurrency (at most one task inside => the sequential contracts "
      "describe every resolution) is a rely/guarantee argument written in the evidence, NOT machine-checked; it is "
      "cross-checked by a BOUNDED native scenario (random schedules of 2-4 concurrently resolving steps with "
      "cancellations and a failing factory on the real classes: 400 quick / 20000 thorough), which is counted as "
      "bounded, not proved. The resolution guarantee assumed for the re-entrant `resource.resolve(self)` is PROVED for "
      "the repository's factory-backed descriptor (`_Resource.resolve` / `call` / `_resolve_dependencies`, with "
      "signature inspection `get_dependencies`, the user factory and the composite re-entrant `get()` as named "
      "assumptions) and for the config-backed one (`_ResourceConfig.resolve`: never touches the manager; its file "
      "reading `call()` assumed), and stays assumed only for user-written descriptor classes. asyncio.Lock and "
      "current_task are assumed library contracts.",
      category="other",
      technique="contract-based deductive verification: pre/postconditions (normal and exceptional exits) on the real "
                "`_get`, `set`, `_resolution_lock` and on mechanically extracted sections (pyvc + z3, ghost call log "
                "for the re-entrant resolve()); lock-discipline contract decided on the AST; bounded native "
                "interleaving scenario as cross-check and replay")

claim("C29",
      "debounced_sorted_prefix is under a z3-discharged contract on the real code: the async generator is verified as "
      "the function that builds the sequence it yields (`yield e` read as an append to a ghost list, mechanically, on "
      "the real AST of every run) over the merged stream as a finite sequence in which the debouncer's one-shot marker "
      "sits at ANY position c (that position is what 'all item timings relative to the debounce window' comes to): "
      "every item is yielded once, the first c yielded items are exactly the items delivered before the marker (in the "
      "order the sort gives them), the rest are the later items in arrival order - so nothing overtakes the burst (fix "
      "78cbc59: passthrough was decided by the debouncer's flag, not by the flush). merge_generators, the Debouncer's "
      "timing and the composition are covered only by a BOUNDED stand-in: the statement's postconditions evaluated on "
      "the real async generators over an exhaustive enumeration of arrival schedules under a virtual clock (arrivals "
      "coincide exactly with the window deadlines): sorted burst of exactly the in-window items, then arrival order, "
      "every item once; merge: every item once, source order, a source's error re-raised.",
      "ASSUMED by the contract of debounced_sorted_prefix: the merged stream delivers the marker exactly once and "
      "`inner` never produces the marker string (merge_generators' exactly-once delivery is only in the bounded "
      "check); that the burst is SORTED (list.sort is modelled as an unspecified permutation); the Debouncer object is "
      "opaque (which items fall inside the window is decided by the bounded check only). Everything outside the "
      "enumeration (longer streams, other delays, more than three sources, tie orders a real clock could produce, "
      "stop_on_first_completion) is not covered; an arrival exactly at the closing instant may go either way.",
      category="other",
      technique="contract-based deductive verification of debounced_sorted_prefix (generator read as the builder of its "
                "output sequence, loop invariants, pyvc + z3); bounded stand-in (run-time checked contract over an "
                "exhaustive enumeration of arrival schedules under a virtual event-loop clock) for merge_generators, "
                "the Debouncer's timing and the composition")

claim("C33",
      "BOUNDED stand-in, nothing is proved: create_backup_archive / read_backup_archive are tarfile + gzip + PyYAML + "
      "json + AES-GCM code (library semantics pyvc has no encoding for; `cryptography` is not installed here). The "
      "statement is evaluated as a run-time checked contract on the real archive.py (loaded from the file on every "
      "run together with the real encryption.py; only the three `cryptography` primitives it imports are a stand-in "
      "package with their assumed contracts) over an "
      "enumerated family of archives: reading what was created returns the same deployment resources, secrets and "
      "generations under the same names, in order, with a manifest that says what was asked for, with and without a "
      "password; and whenever a password is given every secret is routed through encrypt - no secret is stored in "
      "plaintext or readable with another / no password (fix 311cab1: with an empty password the archive said "
      "'encrypted' and stored plaintext).",
      "The primitives (PBKDF2HMAC deterministic in password and salt; AESGCM authenticated) are ASSUMED stand-ins - "
      "`cryptography` is not installed; encryption.py's own code (salt / nonce, wire format, length check) IS executed; everything outside the enumeration (more than 2 / 3 deployments, "
      "other resource shapes, other secret values) is not covered.",
      category="exploration",
      technique="bounded stand-in for contract verification: run-time checked contract (the property's own "
                "postcondition) on the real archive functions over an exhaustive enumeration of small backups, with the "
                "cipher module replaced by a stand-in that has its assumed contract; a deductive proof is out of "
                "pyvc's reach (tarfile / yaml / cryptography semantics)")
