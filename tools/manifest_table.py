# table read by gen_manifest.py:  claim(id, text, note)  /  na(id, reason)

claim("C05",
      "Retry accounting at the reducer: the attempt counter, first-attempt time, last exception and recovery counts "
      "travel unchanged with an event into its worker slot (_add_or_enqueue_event), and are kept when interrupted work "
      "is re-queued (rewind_in_progress); proved for all states and events by discharged obligations.",
      "Policy side (retry_policy.py) and the failed-branch of _process_step_result_tick are not yet under contract in "
      "this revision; clock consistency between adapters is not covered.")

claim("C10",
      "Waiter resolution and waiter timeouts at the reducer: a waiter receives exactly an event of its exact type "
      "whose requirements all match, non-matching waiters are untouched, a timeout acts only on an existing unresolved "
      "waiter; every obligation discharged for all states/ticks except the recorded known finding (already-resolved "
      "waiter is resolved again).",
      "InternalContext.wait_for_event and serialization/rehydration of requirements are not under contract yet.",
      category="other")

claim("C31",
      "Reducer part: a timeout tick publishes WorkflowTimedOutEvent naming exactly the steps with running invocations, "
      "then halts with WorkflowTimeoutError and marks the run not running; a cancel tick publishes "
      "WorkflowCancelledEvent, halts with WorkflowCancelledByUser and leaves the state untouched (resumable).",
      "Runner side (scheduling of the timeout tick, cleanup of tasks, interleaving of cancellation with worker "
      "completion) is trusted.")

na("C17", "end-to-end client/server/httpx composition under connection faults: no contract on repository code "
          "carries the property (DESIGN.md 6)")
na("C18", "the property is pydantic's model_dump/model_validate/importlib semantics; there is no contract for "
          "pydantic to verify against (DESIGN.md 6)")
na("C26", "cross-process interleavings and crash points over DBOS/asyncpg/SQL; dbos is not importable here "
          "(DESIGN.md 6)")
na("C27", "DBOS recovery across process stops: crash points and SQL semantics are outside contract-based "
          "verification of Python functions (DESIGN.md 6)")
na("C28", "the state is a SQLite schema driven by SQL scripts; no SQL semantics within reach (DESIGN.md 6)")
na("C37", "all state lives behind SQL strings in SQLite; proving it would mean hand-modelling each statement, i.e. "
          "a model, not the code (DESIGN.md 6)")
