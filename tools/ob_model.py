import sys, time, z3
from pyvc.check import load_specs
from pyvc.verify import make_world
import pyvc.verify as V
from pyvc.solve import split_goal
fq_s, sel, part = sys.argv[1], sys.argv[2], int(sys.argv[3])
tmo = int(sys.argv[4]) if len(sys.argv) > 4 else 3000
pats = sys.argv[5:]
specs = load_specs(); w = make_world(specs)
fq = [k for k in specs.contracts if k.endswith(fq_s)][0]
def fake(obs, ax, timeout_ms, seed, jobs, single_attempt=()):
    for ob in obs:
        if sel in ob.oid:
            hyps, g = split_goal(ob.goal)[part]
            s = z3.Solver(); s.set("timeout", tmo)
            for a in ax: s.add(a)
            for p in ob.pc: s.add(p)
            for h in hyps: s.add(h)
            s.add(z3.Not(g))
            print("hyps:", [h.sexpr()[:200] for h in hyps]); print("goal:", g.sexpr()[:500])
            r = s.check(); print("RESULT", r)
            if r != z3.unsat:
                try:
                    m = s.model()
                    for d in m.decls():
                        n = d.name()
                        if any(p in n for p in pats) and d.arity() == 0:
                            print(n, "=", m[d])
                    for e in pats:
                        pass
                except Exception as e:
                    print("no model", e)
    return {ob.oid: {"status": "proved", "time": 0, "backend": "z3"} for ob in obs}
V.discharge_all = fake
V.verify_function(w, specs, fq)
