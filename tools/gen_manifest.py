"""Regenerate /verif/MANIFEST.json from the table below (keeps the file valid and consistent)."""
import json
import os

VERIF = os.path.dirname(os.path.dirname(os.path.abspath(__file__)))

TECH = ("contract-based deductive verification: sidecar pre/postconditions and loop invariants on the real "
        "functions, VCs generated from /repo's source by pyvc (AST symbolic executor), discharged by z3")

# property -> (claimed?, category, text, note, design_ref)
CHECKS = {}
NA = {}


def claim(pid, text, note, category="proof", ref="DESIGN.md 0a.4 (what is decided now) and 4 (per-property design)", technique=None):
    CHECKS[pid] = dict(category=category, text=text, note=note, ref=ref, technique=technique or TECH)


def na(pid, reason):
    NA[pid] = reason


def load_table():
    here = os.path.join(VERIF, "tools", "manifest_table.py")
    ns = {"claim": claim, "na": na}
    exec(open(here).read(), ns)


def main():
    load_table()
    props = [json.loads(l)["id"] for l in open(os.path.join(VERIF, "properties.jsonl"))]
    checks = []
    for pid in props:
        if pid in CHECKS:
            c = CHECKS[pid]
            checks.append({
                "property_id": pid,
                "quick_cmd": f"./vcheck {pid}",
                "thorough_cmd": f"./vcheck {pid} --tier thorough",
                "evidence_file": f"/verif/evidence/{pid}.json",
                "replay_cmd_template": "./vreplay {path}",
                "engine": "pyvc",
                "level_claimed": {"category": c["category"], "text": c["text"], "design_ref": c["ref"]},
                "level_note": c["note"],
                "technique": c["technique"],
            })
    not_app = [{"property_id": p, "reason": NA.get(p, "no contract of this revision of /verif serves it: it was planned as a "
                                                      "(partial) claim (DESIGN.md 4) and not reached in the time "
                                                      "available (DESIGN.md 0a.3) - the functions it anchors are "
                                                      "therefore not under contract and nothing is claimed")}
               for p in props if p not in CHECKS]
    man = {
        "version": 1,
        "setup_cmd": "./setup.sh",
        "hooks": {
            "guard": "RUN_LLAMA_WORKFLOWS_PY_VERIF",
            "enable": "no hooks: the verifier reads /repo's working-tree source text with ast on every run; "
                      "nothing in /repo is annotated or instrumented",
            "baseline_off_cmd": "cd /repo && /venv/bin/python -m pytest -ra -q -p no:cacheprovider --timeout=900 "
                                "--continue-on-collection-errors",
            "source_commits": [],
            "add_only": True,
        },
        "engines": [{
            "name": "pyvc", "path": "/verif/pyvc",
            "serves_properties": sorted(CHECKS),
            "kind_free_text": "Python AST -> verification conditions (symbolic executor with contracts, loop "
                              "invariants, places for aliasing), z3 back end in forked workers, native CPython "
                              "cross-check and replay of every contract against the real functions",
        }],
        "checks": checks,
        "notes": "fix: commits in /repo and known findings are listed in /verif/KNOWN_FINDINGS.jsonl; DESIGN.md 0a "
                 "describes what was built, the findings, corrected false alarms and which seeded changes "
                 "(seeded/<id>/) each check catches; exit codes: 0 held, 1 violation, 2 undecided, 3 checker error.",
        "not_applicable": not_app,
    }
    with open(os.path.join(VERIF, "MANIFEST.json"), "w") as f:
        json.dump(man, f, indent=1)
    print("checks:", len(checks), "not_applicable:", len(not_app))


if __name__ == "__main__":
    main()
