"""C19: state stores - snapshot isolation of get_state, and get/set by dotted path against a nested-dict model.

BOUNDED, NOT PROVED.  get_by_path / set_by_path walk dynamically typed values (dict / list / model attributes) with string
splitting and integer parsing, outside the verifier's statically typed, string-free encoding (DESIGN.md 6); the stores'
get_state goes through pydantic's model_copy / JSON.  The contract taken from the property statement is therefore
checked at run time on the real classes - InMemoryStateStore over DictState and over a typed model, SqliteStateStore
obtained from a real SqliteWorkflowStore - over a complete enumeration of a stated finite domain of operation
sequences.  (The lock discipline of the same classes is proved: C20.)"""
import asyncio
import copy
import itertools
import os
import tempfile

VERIF = os.path.dirname(os.path.dirname(os.path.abspath(__file__)))
_BASE = None  # one scratch directory per run (removed at the end); a replay creates its own
_N = 0
PATHS = ["a", "b", "a.x", "a.x.y", "b.z"]
VALUES = [1, "s", {"k": 1}, [1, 2]]


def _stores():
    from pydantic import BaseModel
    from workflows.context.state_store import DictState, InMemoryStateStore
    from llama_agents.server._store.sqlite.sqlite_workflow_store import SqliteWorkflowStore

    class Typed(BaseModel):
        n: int = 0
        tags: dict = {}

    def mem_dict():
        return InMemoryStateStore(DictState())

    def mem_typed():
        return InMemoryStateStore(Typed())

    def sqlite_dict():
        global _N
        _N += 1
        base = _BASE or tempfile.mkdtemp(prefix="verif_sq_")
        return SqliteWorkflowStore(os.path.join(base, f"db{_N}.sqlite")).create_state_store("run-1")

    return {"memory/DictState": mem_dict, "memory/typed": mem_typed, "sqlite/DictState": sqlite_dict}


# ----------------------------------------------------------------- nested-dict model (the property's reference)
def m_set(model, path, value):
    cur = model
    segs = path.split(".")
    for s in segs[:-1]:
        if not isinstance(cur.get(s), dict):
            cur[s] = {}
        cur = cur[s]
    cur[segs[-1]] = copy.deepcopy(value)


def m_get(model, path, default):
    cur = model
    for s in path.split("."):
        if not isinstance(cur, dict) or s not in cur:
            return default
        cur = cur[s]
    return cur


def m_ok(model, path):
    """the operation stays inside the model's domain: no path segment walks through a scalar / list value"""
    cur = model
    for s in path.split(".")[:-1]:
        if s in cur and not isinstance(cur[s], dict):
            return False
        cur = cur.get(s, {})
    return True


async def _isolation(make, kind, prefix):
    """get_state gives a snapshot: changing its top-level keys / fields leaves the store alone until written back"""
    store = make()
    typed = kind.endswith("typed")
    for path, value in prefix:
        if typed:
            await store.set("tags." + path.replace(".", "_"), value)
        else:
            await store.set(path, value)
    before = (await store.get_state()).model_dump()
    st = await store.get_state()
    if typed:
        st.n = 99
        st.tags = {"other": True}
    else:
        st["zz"] = 9
        st["a"] = "changed"
    after = (await store.get_state()).model_dump()
    if after != before:
        return f"the store changed when only the snapshot was edited: {before!r} -> {after!r}"
    await store.set_state(st)
    back = (await store.get_state()).model_dump()
    want = st.model_dump()
    if back != want:
        return f"writing the edited snapshot back did not store it: {back!r} != {want!r}"
    return None


async def _model(make, ops):
    """get / set by dotted path and clear behave like a plain nested dict"""
    store = make()
    model = {}
    for op in ops:
        if op[0] == "set":
            if not m_ok(model, op[1]):
                return None  # outside the model's domain (walking through a scalar): not judged
            await store.set(op[1], copy.deepcopy(op[2]))
            m_set(model, op[1], op[2])
        elif op[0] == "clear":
            await store.clear()
            model = {}
        for p in PATHS:
            got = await store.get(p, default=None)
            want = m_get(model, p, None)
            if got != want:
                return f"after {ops!r}: get({p!r}) = {got!r}, the nested-dict model says {want!r}"
    return None


def _strict(v):
    """a value with its JSON types spelled out (1, 1.0 and True are equal in Python, not in JSON)"""
    import json
    return json.dumps(v, sort_keys=True)


SWAPS = [(1, True), (True, 1), (1, 1.0), (1.0, 1), (0, False), ({"k": 1}, {"k": True}), ([1, 2], [True, 2])]


async def _overwrite(make, path, v1, v2, via_edit):
    """overwriting a value with an equal-but-different JSON value stores the new one"""
    store = make()
    await store.set(path, copy.deepcopy(v1))
    if via_edit:
        async with store.edit_state() as st:
            if "." in path:
                st[path.split(".")[0]][path.split(".")[1]] = copy.deepcopy(v2)
            else:
                st[path] = copy.deepcopy(v2)
    else:
        await store.set(path, copy.deepcopy(v2))
    got = await store.get(path, default=None)
    if _strict(got) != _strict(v2):
        return f"set({path!r}, {v1!r}) then {'edit_state' if via_edit else 'set'} to {v2!r}: get returns {got!r}"
    return None


from pydantic import BaseModel as _BaseModel  # noqa: E402


class C19Base(_BaseModel):
    n: int = 0
    name: str = "x"


class C19Child(C19Base):
    extra: int = 0


def _typed_stores():
    from workflows.context.state_store import InMemoryStateStore
    from llama_agents.server._store.sqlite.sqlite_workflow_store import SqliteWorkflowStore

    Base, Child = C19Base, C19Child  # module-level classes: the SQLite store re-imports a typed state by its name

    def mem():
        return InMemoryStateStore(Child())

    def sqlite():
        global _N
        _N += 1
        base = _BASE or tempfile.mkdtemp(prefix="verif_sq_")
        return SqliteWorkflowStore(os.path.join(base, f"dbt{_N}.sqlite")).create_state_store("run-1", state_type=Child)

    return Base, Child, {"memory/inherited": mem, "sqlite/inherited": sqlite}


async def _merge(make, Base, Child, child_kw, base_kw):
    """set_state with a parent-typed state overwrites exactly the parent's fields (defaults included) and keeps the
    child's own fields - what updating a nested dict with the parent's dict does"""
    store = make()
    await store.set_state(Child(**child_kw))
    await store.set_state(Base(**base_kw))
    got = (await store.get_state()).model_dump()
    want = dict(Child(**child_kw).model_dump())
    want.update(Base(**base_kw).model_dump())
    if got != want:
        return f"set_state(Child({child_kw})) then set_state(Base({base_kw})): state {got!r}, the model says {want!r}"
    return None


def run(tier, seed, repo):
    global _BASE
    import shutil
    _BASE = tempfile.mkdtemp(prefix="verif_c19_")
    try:
        return _run(tier, seed, repo)
    finally:
        shutil.rmtree(_BASE, ignore_errors=True)
        _BASE = None


def _run(tier, seed, repo):
    from pyvc import native
    native.setup_paths(repo)
    import logging
    logging.disable(logging.CRITICAL)
    stores = _stores()
    n = 0
    fails = {"snapshot-isolation": [], "nested-dict-model": []}
    prefixes = [()] + [((p, v),) for p in PATHS[:3] for v in VALUES] + \
               [((p1, v1), (p2, v2)) for (p1, v1), (p2, v2) in itertools.product(
                   [(p, v) for p in ("a", "a.x") for v in (1, {"k": 1})], [("b", "s"), ("b.z", [1, 2])])]
    for kind, make in stores.items():
        for prefix in prefixes:
            if kind.startswith("sqlite") and tier != "thorough" and len(prefix) == 2:
                continue
            n += 1
            try:
                r = asyncio.run(_isolation(make, kind, prefix))
            except Exception as e:  # noqa
                r = f"raised {type(e).__name__}: {e}"
            if r:
                fails["snapshot-isolation"].append((kind, prefix, r))
    sets = [("set", p, v) for p in PATHS for v in VALUES]
    length = 2 if tier != "thorough" else 3
    seqs = [s for k in range(1, length + 1) for s in itertools.product(sets + [("clear",)], repeat=k)]
    if tier != "thorough":
        seqs = seqs[::3]
    for kind in ("memory/DictState", "sqlite/DictState"):
        use = seqs if kind.startswith("memory") else seqs[::7]
        for ops in use:
            n += 1
            try:
                r = asyncio.run(_model(stores[kind], ops))
            except Exception as e:  # noqa
                r = f"after {ops!r}: raised {type(e).__name__}: {e}"
            if r:
                fails["nested-dict-model"].append((kind, ops, r))
    fails["strict-overwrite"] = []
    for kind in ("memory/DictState", "sqlite/DictState"):
        for path in ("a", "a.x"):
            for v1, v2 in SWAPS:
                for via_edit in (False, True):
                    n += 1
                    try:
                        r = asyncio.run(_overwrite(stores[kind], path, v1, v2, via_edit))
                    except Exception as e:  # noqa
                        r = f"raised {type(e).__name__}: {e}"
                    if r:
                        fails["strict-overwrite"].append((kind, (path, v1, v2, via_edit), r))
    fails["parent-type-merge"] = []
    Base, Child, tstores = _typed_stores()
    for kind, make in tstores.items():
        for child_kw in ({}, {"n": 5, "name": "y", "extra": 7}, {"extra": 7}, {"n": 5}):
            for base_kw in ({}, {"n": 3}, {"name": "z"}, {"n": 0, "name": "x"}, {"n": 3, "name": "z"}):
                n += 1
                try:
                    r = asyncio.run(_merge(make, Base, Child, child_kw, base_kw))
                except Exception as e:  # noqa
                    r = f"raised {type(e).__name__}: {e}"
                if r:
                    fails["parent-type-merge"].append((kind, (child_kw, base_kw), r))
    what = {
        "strict-overwrite": "overwriting a value with an equal-but-different JSON value (1 / true / 1.0, also nested) "
                            "through set or edit_state stores the new value, in both stores",
        "parent-type-merge": "set_state with a parent-typed state overwrites exactly the parent's fields, defaults "
                             "included, and keeps the child's own fields, in both stores",
        "snapshot-isolation": "a state obtained from get_state is a snapshot: changing its top-level fields or keys does "
                              "not change the store until it is written back with set_state",
        "nested-dict-model": "get / set by dotted path (intermediate dicts created as needed) and clear return the same "
                             "values as a plain nested-dict model, for the in-memory and the SQLite store",
    }
    obs = []
    for key, text in what.items():
        f = fails[key]
        ob = {"id": f"workflows.context.state_store/{key}", "status": "proved" if not f else "refuted",
              "backend": "bounded enumeration", "detail": text if not f else
              f"{text}\nfailing case ({len(f)} in all): store {f[0][0]}, {f[0][1]!r}: {f[0][2]}"}
        if f:
            rp = os.path.join(os.environ.get("VERIF_OUT") or os.path.join(VERIF, "out"), "replay", f"C19-{key}.py")
            os.makedirs(os.path.dirname(rp), exist_ok=True)
            fn = {"snapshot-isolation": "_isolation", "nested-dict-model": "_model", "strict-overwrite": "_overwrite",
                  "parent-type-merge": "_merge"}[key]
            if key == "snapshot-isolation":
                args = f"{f[0][0]!r}, {f[0][1]!r}"
            elif key == "nested-dict-model":
                args = f"{f[0][1]!r}"
            elif key == "strict-overwrite":
                args = ", ".join(repr(x) for x in f[0][1])
            else:
                args = f"Base, Child, {f[0][1][0]!r}, {f[0][1][1]!r}"
            getmake = (f"Base, Child, ts = C19._typed_stores()\nmake = ts[{f[0][0]!r}]\n" if key == "parent-type-merge"
                       else f"make = C19._stores()[{f[0][0]!r}]\n")
            with open(rp, "w") as fh:
                fh.write("#!/usr/bin/env python3\n# replay of a C19 contract violation (generated)\n"
                         f"import asyncio, os, sys\nsys.path.insert(0, {VERIF!r})\nos.environ.setdefault('VERIF_REPO', {repo!r})\n"
                         "from pyvc import native\nnative.setup_paths()\nfrom propchecks import C19\n"
                         + getmake +
                         f"r = asyncio.run(C19.{fn}(make, {args}))\n"
                         f"print('store:', {f[0][0]!r}, 'case:', {f[0][1]!r})\nprint('VIOLATED:' if r else 'holds', r or '')\n"
                         "sys.exit(1 if r else 0)\n")
            os.chmod(rp, 0o755)
            ob["replay"] = rp
        obs.append(ob)
    return {
        "obligations": obs, "native_evaluations": n, "native_distinct": n,
        "functions": [{"function": "InMemoryStateStore / SqliteStateStore: get_state, set_state, get, set, clear "
                                   "(real classes, real sqlite file)", "backend": "bounded"}],
        "assumptions": [f"BOUNDED, not proved: snapshot isolation after every prefix of at most two sets over "
                        f"{PATHS[:3]!r} x {VALUES!r} on three store configurations; the nested-dict model on every "
                        f"operation sequence of length <= {length} over set(path in {PATHS!r}, value in {VALUES!r}) and "
                        "clear (sampled 1 in 3 in the quick tier, 1 in 7 of those for SQLite); list indices in paths, "
                        "typed models with nested models and longer edit_state blocks are outside the bound; plus every "
                        "swap of equal-but-different JSON values of a fixed list at two paths through set and "
                        "edit_state, and parent-type merges of one inherited model over 4 x 5 field settings, on both "
                        f"stores ({n} scenarios)"],
        "coverage_extra": {"bounded_not_proved": ["all C19 obligations: enumeration bound (see assumptions)"]},
    }
