"""C25: structure of KeyedLock.__call__ (decided on the AST); its two atomic sections are SMT obligations
(specs/keyed_lock.py, extracted mechanically as `__call__#with1` / `#with3`)."""


def run(tier, seed, repo):
    from pyvc.astcheck import keyed_lock_structure
    from pyvc.extract import Repo
    obs = keyed_lock_structure(Repo(repo), "llama_agents.server._keyed_lock", "KeyedLock", "__call__",
                               "self._get_main_lock()")
    return {
        "obligations": obs,
        "native_evaluations": 0,
        "functions": [{"function": "llama_agents.server._keyed_lock.KeyedLock.__call__ (structure)", "backend": "ast"}],
        "assumptions": [
            "asyncio.Lock gives mutual exclusion between acquire and release and hands the lock to every waiter "
            "eventually (FIFO); code between two awaits of one task is atomic (cooperative scheduling)",
            "per-key mutual exclusion and clean-up then follow by a rely/guarantee argument that is NOT machine-checked "
            "here: every coroutine between its registration and its deregistration contributes one unit to _refs[key] "
            "(proved per section: +1 / -1, other keys untouched), so _refs[key] >= 1 and - by the section contracts - "
            "_locks[key] stays the same Lock object for all of them; the block runs under that lock; when the last "
            "unit is removed the entry is deleted (no lock state remains)",
            "liveness ('every waiter eventually enters') is asyncio.Lock's fairness, not decided",
        ],
    }
