"""C05: one clock for the retry window.  The reducer computes  elapsed = failed_at - first_attempt_at  (proved in
specs/control_loop_d.py); first_attempt_at is the `now_seconds` the runner obtained from adapter.get_now(), failed_at is
stamped where the step fails.  Contract: both are epoch seconds (the Runtime interface says so for get_now).  Decided
on the AST of the real functions; a failing obligation is replayed by scenarios/clock_scenario.py."""
import os
import subprocess

VERIF = os.path.dirname(os.path.dirname(os.path.abspath(__file__)))


def run(tier, seed, repo):
    from pyvc.astcheck import calls_with_kw_from, returns_call
    from pyvc.extract import Repo
    r = Repo(repo)
    obs = []
    obs += returns_call(r, "workflows.plugins.basic", "InternalAsyncioAdapter", "get_now", "time.time")
    obs += calls_with_kw_from(r, "workflows.runtime.types.step_function", None, "as_step_worker_function",
                              "StepWorkerFailed", "failed_at", ("time.time()",))
    obs += calls_with_kw_from(r, "workflows.runtime.control_loop", "_ControlLoopRunner", "run_worker",
                              "StepWorkerFailed", "failed_at", ("await self.adapter.get_now()",))
    py = os.path.join(VERIF, ".venv", "bin", "python")
    scen = os.path.join(VERIF, "scenarios", "clock_scenario.py")
    evals = 0
    for o in obs:
        if o["status"] != "proved":
            p = subprocess.run([py, scen], capture_output=True, text=True, env=dict(os.environ, VERIF_REPO=repo), timeout=180)
            evals += 1
            o["detail"] += f"\nnative scenario retry_window_clock: exit {p.returncode}: {p.stdout.strip()[-300:]}"
            if p.returncode == 1:
                rp = os.path.join(os.environ.get("VERIF_OUT") or os.path.join(VERIF, "out"), "replay", "C05-retry_window_clock.sh")
                os.makedirs(os.path.dirname(rp), exist_ok=True)
                with open(rp, "w") as f:
                    f.write(f"#!/bin/sh\n# failed obligation: {o['id']}\nVERIF_REPO={repo} exec {py} {scen}\n")
                os.chmod(rp, 0o755)
                o["replay"] = rp
    return {
        "obligations": obs, "native_evaluations": evals,
        "functions": [{"function": "InternalAsyncioAdapter.get_now / StepWorkerFailed(failed_at=...) sites", "backend": "ast"}],
        "assumptions": ["time.time() is the epoch clock everywhere; adapters of other runtimes (DBOS, server decorators) "
                        "are not covered by this structural obligation"],
    }
