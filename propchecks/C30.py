"""C30: structure of the concurrent-run limit in BasicRuntime (decided on the AST); the get-or-create section is an SMT
obligation set (specs/basic_runtime.py, `_maybe_acquire_max_concurrent_runs#before_with1`)."""


def run(tier, seed, repo):
    from pyvc.astcheck import attr_initialised_as, awaited_call_under_with, no_await_before_with, yields_under_with
    from pyvc.extract import Repo
    r = Repo(repo)
    mod, cls = "workflows.plugins.basic", "BasicRuntime"
    obs = []
    obs += yields_under_with(r, mod, cls, "_maybe_acquire_max_concurrent_runs", "sem",
                             only_in_branch_of="not workflow._num_concurrent_runs is None")
    obs += no_await_before_with(r, mod, cls, "_maybe_acquire_max_concurrent_runs", "sem")
    obs += awaited_call_under_with(r, mod, cls, "run_workflow", "registered.workflow_run_fn",
                                   "self._maybe_acquire_max_concurrent_runs(")
    # the section contract treats the table as a dict; that an entry cannot outlive the runs that use its semaphore
    # (so that a recycled id() of a dead instance never inherits a semaphore) rests on the table being weak-valued
    obs += attr_initialised_as(r, mod, cls, "_max_concurrent_runs", "weakref.WeakValueDictionary")
    if len(obs) < 4:
        obs.append({"id": f"{mod}.{cls}/structure-found", "status": "refuted", "backend": "ast",
                    "detail": "the limited branch / the gated run call were not found where the contract expects them"})
    return {
        "obligations": obs,
        "native_evaluations": 0,
        "functions": [{"function": f"{mod}.{cls}._maybe_acquire_max_concurrent_runs / run_workflow (structure)",
                       "backend": "ast"}],
        "assumptions": [
            "asyncio.Semaphore(N) admits at most N holders between acquire and release and is fair (assumed library "
            "contract); with the section contract (all overlapping runs of one instance are gated by the same "
            "semaphore, created with N permits) and the structural facts (the run executes inside `async with sem`) "
            "the bound 'at most N runs of an instance execute steps' follows; 'every started run eventually executes' "
            "is the semaphore's fairness and is not decided",
            "instances are told apart by id(workflow): distinct live objects have distinct ids (CPython)",
        ],
    }
