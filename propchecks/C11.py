"""C11: structural obligations of the two replay functions (decided on the AST): every recorded tick is replayed."""


def run(tier, seed, repo):
    from pyvc.astcheck import loop_consumes_whole_iterable
    from pyvc.extract import Repo
    r = Repo(repo)
    obs = (loop_consumes_whole_iterable(r, "workflows.runtime.control_loop", None, "rebuild_state_from_ticks", "ticks")
           + loop_consumes_whole_iterable(r, "workflows.runtime.control_loop", None, "replay_ticks_stream", "ticks"))
    return {
        "obligations": obs, "native_evaluations": 0,
        "functions": [{"function": "rebuild_state_from_ticks / replay_ticks_stream (tick loops have no early exit)",
                       "backend": "ast"}],
        "assumptions": [
            "a `for` / `async for` loop without return / break visits every element of the iterable in order (Python "
            "semantics); exceptions leave it, and the contract lists which may",
        ],
    }
