"""C13: structural obligation of replay_ticks_stream (decided on the AST): every persisted tick is replayed."""


def run(tier, seed, repo):
    from pyvc.astcheck import loop_consumes_whole_iterable
    from pyvc.extract import Repo
    obs = loop_consumes_whole_iterable(Repo(repo), "workflows.runtime.control_loop", None, "replay_ticks_stream", "ticks")
    return {
        "obligations": obs, "native_evaluations": 0,
        "functions": [{"function": "replay_ticks_stream (the tick loop has no early exit)", "backend": "ast"}],
        "assumptions": [
            "a `for` / `async for` loop without return / break visits every element of the iterable in order (Python "
            "semantics); exceptions leave it, and the contract lists which may",
        ],
    }
