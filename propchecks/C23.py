"""C23: the last step of the `_dfs` contract (specs/validate_dfs.py) - a set that contains the seeds, is closed under the
edges and has only members that every seed-containing edge-closed predicate contains IS the inductively defined
reachable set - checked by Lean 4 + Mathlib (lemmas/lean/Reach.lean).

Quick tier: the lemma is an assumption (listed as such).  Thorough tier: `lean lemmas/lean/Reach.lean` is run and
becomes one more obligation (back end: lean)."""
import os
import shutil
import subprocess
import time

VERIF = os.path.dirname(os.path.dirname(os.path.abspath(__file__)))
LEMMA = os.path.join(VERIF, "lemmas", "lean", "Reach.lean")


def run(tier, seed, repo):
    note = ("the three proved postconditions of _dfs (contains the seeds, closed under the adjacency lists, only members "
            "derivable from the two closure axioms of `reach`) characterise exactly the reachable set: induction "
            "principle of the inductive definition, proved in lemmas/lean/Reach.lean (Lean 4.33 + Mathlib); re-checked "
            "by the thorough tier only")
    if tier != "thorough":
        return {"obligations": [], "native_evaluations": 0, "functions": [], "assumptions": [note]}
    lean = shutil.which("lean")
    if lean is None:
        return {"obligations": [{"id": "lemmas/Reach.lean/dfs_result_is_reach", "status": "error", "backend": "lean",
                                 "detail": "lean not found on PATH"}],
                "native_evaluations": 0, "functions": [], "assumptions": [note]}
    t0 = time.time()
    try:
        p = subprocess.run([lean, LEMMA], capture_output=True, text=True, timeout=1800, cwd=os.path.dirname(LEMMA))
        ok = p.returncode == 0 and "error" not in (p.stdout + p.stderr).lower().replace("deprecated", "")
        detail = (p.stdout + p.stderr)[-600:]
    except subprocess.TimeoutExpired:
        ok, detail = None, "lean did not finish within 1800 s"
    ob = {"id": "lemmas/Reach.lean/dfs_result_is_reach",
          "status": "proved" if ok else ("error" if ok is None else "unknown"), "backend": "lean 4.33 + Mathlib",
          "detail": detail, "time": round(time.time() - t0, 1)}
    return {"obligations": [ob], "native_evaluations": 0,
            "functions": [{"function": "lemmas/lean/Reach.lean (dfs_result_is_reach)", "backend": "lean"}],
            "assumptions": ["the Lean statement (V : Set a, adj : a -> a -> Prop) is the three postconditions of the _dfs "
                            "contract read with adj x y = 'y occurs in adjacency[x]' (transcribed by hand)"],
            "solver_s": round(time.time() - t0, 1)}
