"""C32: generated deployment ids (llama_agents.control_plane.k8s_client.find_deployment_id).

BOUNDED, NOT PROVED.  String functions (lower / re.sub / slicing / random hex digits) outside the verifier's encoding;
moreover the module imports the kubernetes client, which is not installed in the sandbox.  The two functions
`find_deployment_id` and `_append_random_suffix` are therefore EXTRACTED MECHANICALLY from the real source on every run
(their `def` nodes, verbatim) and executed in a namespace that provides `re`, a seeded `random` and a stub for the one
collaborator they call.  Dropped by the extraction: every other definition and import of the module; replaced:
`validate_deployment_id` (the Kubernetes look-up "is this id still free") by a stub that reports the first k candidates
as taken.  The contract - taken from the property statement - is checked on a complete enumeration of a stated finite
domain of display names."""
import ast
import itertools
import os
import random
import re

VERIF = os.path.dirname(os.path.dirname(os.path.abspath(__file__)))
REL = "packages/llama-agents-control-plane/src/llama_agents/control_plane/k8s_client.py"
DNS_1035 = re.compile(r"^[a-z]([a-z0-9-]{0,61}[a-z0-9])?$")
SUFFIX = re.compile(r"(^|-)[0-9a-f]{5}$")
ALPHABET = ["a", "Z", "7", "-", " ", "_", ".", "é", "ß", "İ", "١"]  # e-acute, sharp s, dotted I, arabic 1


_CODE = {}


def _code(repo):
    """the two `def`s of the real file, compiled once per run"""
    if repo not in _CODE:
        src = open(os.path.join(repo, REL), encoding="utf-8").read()
        tree = ast.parse(src)
        wanted = {"find_deployment_id", "_append_random_suffix"}
        defs = [n for n in tree.body if isinstance(n, (ast.FunctionDef, ast.AsyncFunctionDef)) and n.name in wanted]
        if {d.name for d in defs} != wanted:
            raise RuntimeError(f"extraction: expected {sorted(wanted)} in {REL}, found {[d.name for d in defs]}")
        _CODE[repo] = compile(ast.Module(body=defs, type_ignores=[]), REL, "exec")
    return _CODE[repo]


def load(repo, seed, taken):
    """-> find_deployment_id of the real source, with a seeded random and a stub that reports `taken` ids as in use"""
    calls = {"n": 0}

    async def validate_deployment_id(deployment_id):
        calls["n"] += 1
        return calls["n"] > taken

    ns = {"re": re, "random": random.Random(seed), "validate_deployment_id": validate_deployment_id,
          "__name__": "k8s_client_extract"}
    exec(_code(repo), ns)
    return ns["find_deployment_id"]


def drive(coro):
    """run a coroutine that never really suspends (the stub has no awaits)"""
    try:
        coro.send(None)
    except StopIteration as s:
        return s.value
    raise RuntimeError("the extracted function suspended: the stub assumption is wrong")


def names(tier):
    top = 4 if tier != "thorough" else 5
    for k in range(top + 1):
        for t in itertools.product(ALPHABET, repeat=k):
            yield "".join(t)
    for n in range(58, 72):
        yield "a" * n
        yield "ab-" * n
        yield "7" * n
        yield "a" * (n - 1) + "-"
        yield "a" * 56 + "-" * (n - 56)
        yield "-" * n
        yield "é" * n + "abc"
        yield "x" + " " * n + "y"


def alnum(name):
    return "".join(c for c in name.lower() if c in "abcdefghijklmnopqrstuvwxyz0123456789")


def normalised_len(name):
    """length of the hyphenated form the code computes before it decides about a suffix (used only to split the third
    clause of the statement into the class that holds and the class recorded as a known finding)"""
    s = re.sub(r"^-|-$", "", re.sub(r"-+", "-", re.sub(r"[^a-z0-9]", "-", name.lower())))
    if s and not s[0].isalpha():
        s = "d-" + s
    return len(s[:63].rstrip("-"))


def run(tier, seed, repo):
    fails = {"valid": [], "derived": [], "suffix-short": [], "suffix-few-alnum": [], "suffix-forced": []}
    n = 0
    for name in names(tier):
        for force in (False, True):
            for taken in (0, 2):
                n += 1
                try:
                    got = drive(load_cached(repo, seed, taken)(name, force))
                except Exception as e:  # noqa
                    fails["valid"].append((name, force, taken, f"raised {type(e).__name__}: {e}"))
                    continue
                a = alnum(name)
                if not (isinstance(got, str) and len(got) <= 63 and DNS_1035.match(got)):
                    fails["valid"].append((name, force, taken, got))
                if force or taken:
                    if not SUFFIX.search(got):
                        fails["suffix-forced"].append((name, force, taken, got))
                elif len(a) >= 3:
                    want = ("d" if a[0].isdigit() else "") + a
                    flat = got.replace("-", "")
                    if not (want.startswith(flat) and (flat == want or len(got) >= 60)):
                        fails["derived"].append((name, force, taken, got))
                elif normalised_len(name) < 3:
                    if not SUFFIX.search(got):
                        fails["suffix-short"].append((name, force, taken, got))
                else:
                    if not SUFFIX.search(got):
                        fails["suffix-few-alnum"].append((name, force, taken, got))
    what = {
        "valid": "the id is a valid DNS-1035 label of at most 63 characters",
        "derived": "a name with at least three lowercase alphanumerics gives an id made of exactly those (hyphens "
                   "between runs, a leading 'd' when it would start with a digit, cut at 63)",
        "suffix-short": "a name whose normalised form is shorter than three characters gets a random suffix",
        "suffix-few-alnum": "a name with fewer than three alphanumerics whose hyphenated form still has three or more "
                            "characters (e.g. 'a b' -> 'a-b') gets a random suffix",
        "suffix-forced": "a forced suffix / an id that is already taken gives an id with a random suffix",
    }
    obs = []
    for key, text in what.items():
        f = fails[key]
        ob = {"id": f"llama_agents.control_plane.k8s_client.find_deployment_id/{key}",
              "status": "proved" if not f else "refuted", "backend": f"bounded enumeration ({n} calls)",
              "detail": text if not f else f"{text}\nfailing input (name, force_suffix, ids taken, result): {f[0]!r} "
                                           f"({len(f)} failing inputs)"}
        if f:
            rp = os.path.join(os.environ.get("VERIF_OUT") or os.path.join(VERIF, "out"), "replay", f"C32-{key}.py")
            os.makedirs(os.path.dirname(rp), exist_ok=True)
            with open(rp, "w") as fh:
                fh.write("#!/usr/bin/env python3\n# replay of a C32 contract violation (generated)\n"
                         f"import os, sys\nsys.path.insert(0, {VERIF!r})\nfrom propchecks import C32\n"
                         f"name, force, taken = {f[0][0]!r}, {f[0][1]!r}, {f[0][2]!r}\n"
                         f"got = C32.drive(C32.load({repo!r}, {seed!r}, taken)(name, force))\n"
                         f"print('find_deployment_id(%r, force_suffix=%r), first %d candidates taken ->' % (name, force, taken), repr(got))\n"
                         f"print('contract: ' + {text!r})\nsys.exit(1)\n")
            os.chmod(rp, 0o755)
            ob["replay"] = rp
        obs.append(ob)
    return {
        "obligations": obs, "native_evaluations": n, "native_distinct": n,
        "functions": [{"function": "llama_agents.control_plane.k8s_client.find_deployment_id / _append_random_suffix "
                                   "(extracted mechanically, kubernetes look-up stubbed)", "backend": "bounded"}],
        "assumptions": [f"BOUNDED, not proved: every display name of length 0..{4 if tier != 'thorough' else 5} over the "
                        f"{len(ALPHABET)} symbols {ALPHABET!r} plus long names around the 63-character limit, with and "
                        f"without force_suffix, with 0 and 2 candidates already taken ({n} calls); one seed of the "
                        "random suffix per run",
                        "extraction: only the two `def`s are executed; `validate_deployment_id` (Kubernetes look-up) "
                        "is a stub; everything else of k8s_client.py is dropped"],
        "coverage_extra": {"bounded_not_proved": ["all C32 obligations: enumeration bound (see assumptions)"]},
    }


_cache = {}


def load_cached(repo, seed, taken):
    # one extracted function per (taken) setting and call: the stub's counter must start at zero for every call
    return load(repo, seed, taken)
