"""C01: the pigeonhole lemma behind `assume_free_slot` (specs/control_loop.py), checked by Lean 4 + Mathlib.

Quick tier: the lemma is an assumption (listed as such).  Thorough tier: `lean lemmas/lean/FreeSlot.lean` is run and
becomes one more obligation (back end: lean)."""
import os
import shutil
import subprocess
import time

VERIF = os.path.dirname(os.path.dirname(os.path.abspath(__file__)))
LEMMA = os.path.join(VERIF, "lemmas", "lean", "FreeSlot.lean")


def run(tier, seed, repo):
    note = ("assumed lemma instance at _add_or_enqueue_event (fewer than n entries cannot use up n worker ids): "
            "proved in lemmas/lean/FreeSlot.lean (Lean 4.33 + Mathlib); re-checked by the thorough tier only")
    if tier != "thorough":
        return {"obligations": [], "native_evaluations": 0, "functions": [], "assumptions": [note]}
    lean = shutil.which("lean")
    if lean is None:
        return {"obligations": [{"id": "lemmas/FreeSlot.lean/exists_free_slot", "status": "error", "backend": "lean",
                                 "detail": "lean not found on PATH"}],
                "native_evaluations": 0, "functions": [], "assumptions": [note]}
    t0 = time.time()
    try:
        p = subprocess.run([lean, LEMMA], capture_output=True, text=True, timeout=1800, cwd=os.path.dirname(LEMMA))
        ok = p.returncode == 0 and "error" not in (p.stdout + p.stderr).lower().replace("deprecated", "")
        detail = (p.stdout + p.stderr)[-600:]
    except subprocess.TimeoutExpired:
        ok, detail = None, "lean did not finish within 1800 s"
    ob = {"id": "lemmas/FreeSlot.lean/exists_free_slot",
          "status": "proved" if ok else ("error" if ok is None else "unknown"), "backend": "lean 4.33 + Mathlib",
          "detail": detail, "time": round(time.time() - t0, 1)}
    return {"obligations": [ob], "native_evaluations": 0,
            "functions": [{"function": "lemmas/lean/FreeSlot.lean (exists_free_slot)", "backend": "lean"}],
            "assumptions": ["the Lean statement (f : N -> Z, m < n) is the spec clause assume_free_slot read with f j = "
                            "in_progress[j].worker_id (transcribed by hand)"],
            "solver_s": round(time.time() - t0, 1)}
