"""C09: InternalContext.collect_events (the step-side half of collect_events).

BOUNDED, NOT PROVED.  The function works on collections.Counter / defaultdict multisets of event *types*, which the
verifier's encoding does not model; its contract - taken from the property statement - is therefore checked at run time
on the real function over a complete enumeration of a stated finite domain (three event classes; every `expected` list
of length 0..3, every buffer content of length 0..2, every incoming event class: 1560 calls; lengths 0..4 / 0..3 in the
thorough tier).  A failing input is a violation with a replay script.  The reducer-side half (what happens to the
buffer) is under contract in specs/control_loop_d.py and proved."""
import itertools
import os

VERIF = os.path.dirname(os.path.dirname(os.path.abspath(__file__)))


def _call(expected, buf_types, ev_type):
    """-> (result, return_values, buffer events, incoming event) of the real function"""
    from workflows.context.internal_context import InternalContext
    from workflows.runtime.types.results import Returns, StepWorkerContext, StepWorkerState, StepWorkerStateContextVar
    buf = [t() for t in buf_types]
    ev = ev_type()
    ctx = StepWorkerContext(state=StepWorkerState(step_name="s", collected_events={"default": list(buf)},
                                                  collected_waiters=[]), returns=Returns(return_values=[]))
    tok = StepWorkerStateContextVar.set(ctx)
    try:
        res = InternalContext.collect_events(object.__new__(InternalContext), ev, list(expected))
    finally:
        StepWorkerStateContextVar.reset(tok)
    return res, ctx.returns.return_values, buf, ev


def _violations(expected, buf_types, ev_type):
    from collections import Counter
    from workflows.runtime.types.results import AddCollectedEvent, DeleteCollectedEvent
    res, rvs, buf, ev = _call(expected, buf_types, ev_type)
    out = []
    adds = [r for r in rvs if isinstance(r, AddCollectedEvent)]
    dels = [r for r in rvs if isinstance(r, DeleteCollectedEvent)]
    if not expected:
        if res != [] or rvs:
            out.append("nothing is expected: the result is [] and nothing is recorded")
        return out
    have = Counter(type(e) for e in buf + [ev])
    if res is not None:
        if [type(e) for e in res] != list(expected):
            out.append("a returned list holds one event per expected type, ordered as the expected list")
        pool = [id(e) for e in buf + [ev]]
        if len({id(e) for e in res}) != len(res) or any(id(e) not in pool for e in res):
            out.append("every returned event is a received one and appears once")
        if any(have[t] < n for t, n in Counter(expected).items()):
            out.append("a list is returned only when every expected type has been received, with multiplicity")
        if len(dels) != 1 or adds:
            out.append("a completed collection clears its buffer (one DeleteCollectedEvent, no AddCollectedEvent)")
    else:
        still_needed = (Counter(expected) - Counter(type(e) for e in buf))[type(ev)] > 0
        complete = all(have[t] >= n for t, n in Counter(expected).items()) and still_needed \
            and sum((Counter(expected) - Counter(type(e) for e in buf)).values()) == 1
        if complete:
            out.append("the event that completes the set makes the call return the list")
        if still_needed and not (len(adds) == 1 and adds[0].event is ev and not dels):
            out.append("an event that is still needed is recorded exactly once (not lost, not counted twice)")
        if not still_needed and rvs:
            out.append("an event that is not needed any more is not recorded")
    return out


def run(tier, seed, repo):
    from pyvc import native
    native.setup_paths(repo)
    from workflows.events import Event

    class EvA(Event):
        pass

    class EvB(Event):
        pass

    class EvC(Event):
        pass

    T = [EvA, EvB, EvC]
    le, lb = (3, 2) if tier != "thorough" else (4, 3)
    fails, n = [], 0
    for k in range(le + 1):
        for expected in itertools.product(T, repeat=k):
            for kb in range(lb + 1):
                for buf in itertools.product(T, repeat=kb):
                    for et in T:
                        n += 1
                        try:
                            v = _violations(expected, buf, et)
                        except Exception as e:  # noqa
                            v = [f"raised {type(e).__name__}: {e}"]
                        if v:
                            fails.append(([t.__name__ for t in expected], [t.__name__ for t in buf], et.__name__, v))
    what = ("collect_events returns a list only when one event of every expected type (with multiplicity) has been "
            "received, ordered as the expected list, each received event at most once; an event that is still needed is "
            "recorded once, the completing event returns the list and clears the buffer")
    ob = {"id": "workflows.context.internal_context.InternalContext.collect_events/bounded-contract",
          "status": "proved" if not fails else "refuted", "backend": f"bounded enumeration ({n} inputs)",
          "detail": what if not fails else f"{what}\nfailing input (expected, buffer, incoming): {fails[0][:3]}: {fails[0][3]}"}
    if fails:
        rp = os.path.join(os.environ.get("VERIF_OUT") or os.path.join(VERIF, "out"), "replay", "C09-collect_events.py")
        os.makedirs(os.path.dirname(rp), exist_ok=True)
        exp, buf, et, v = fails[0]
        with open(rp, "w") as f:
            f.write("#!/usr/bin/env python3\n# replay of a C09 contract violation of InternalContext.collect_events (generated)\n"
                    f"import os, sys\nsys.path.insert(0, {VERIF!r})\nos.environ.setdefault('VERIF_REPO', {repo!r})\n"
                    "from pyvc import native\nnative.setup_paths()\nfrom propchecks import C09\n"
                    "from workflows.events import Event\n"
                    "class EvA(Event): pass\nclass EvB(Event): pass\nclass EvC(Event): pass\n"
                    "T = {'EvA': EvA, 'EvB': EvB, 'EvC': EvC}\n"
                    f"exp, buf, et = {exp!r}, {buf!r}, {et!r}\n"
                    "try:\n"
                    "    res = C09._call([T[x] for x in exp], [T[x] for x in buf], T[et])[0]\n"
                    "    print('expected', exp, 'buffer', buf, 'incoming', et, '->', None if res is None else [type(e).__name__ for e in res])\n"
                    "    v = C09._violations([T[x] for x in exp], [T[x] for x in buf], T[et])\n"
                    "except Exception as e:\n"
                    "    print('expected', exp, 'buffer', buf, 'incoming', et)\n"
                    "    v = [f'raised {type(e).__name__}: {e}']\n"
                    "for x in v: print('VIOLATED:', x)\nsys.exit(1 if v else 0)\n")
        os.chmod(rp, 0o755)
        ob["replay"] = rp
    return {
        "obligations": [ob], "native_evaluations": n, "native_distinct": n,
        "functions": [{"function": "workflows.context.internal_context.InternalContext.collect_events", "backend": "bounded"}],
        "assumptions": [f"BOUNDED, not proved: InternalContext.collect_events on every expected list of length 0..{le}, every "
                        f"buffer of length 0..{lb} and every incoming event over three event classes ({n} calls); longer "
                        "lists, more classes, subclass relations between collected event classes and named buffers are "
                        "outside the bound"],
        "coverage_extra": {"bounded_not_proved": ["InternalContext.collect_events: enumeration bound (see assumptions)"]},
    }
