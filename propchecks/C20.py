"""C20: lock discipline of the state stores (guarded_by(_lock) contracts, decided on the AST of the real classes)."""
import ast
import os
import subprocess
import sys

VERIF = os.path.dirname(os.path.dirname(os.path.abspath(__file__)))


def run(tier, seed, repo):
    from pyvc.astcheck import guarded_by
    from pyvc.extract import Repo
    r = Repo(repo)

    def mem_write(n):
        if isinstance(n, (ast.Assign, ast.AugAssign)):
            tg = n.targets if isinstance(n, ast.Assign) else [n.target]
            if any(ast.unparse(t) == "self._state" for t in tg):
                return "self._state="
        if isinstance(n, ast.Call) and ast.unparse(n.func) == "set_by_path" and n.args \
                and ast.unparse(n.args[0]) == "self._state":
            return "set_by_path(self._state)"
        return None

    def sql_write(n):
        if isinstance(n, ast.Call) and ast.unparse(n.func) == "self._save_state":
            return "self._save_state()"
        return None

    def sql_read(n):
        if isinstance(n, ast.Call) and ast.unparse(n.func) == "self._load_state":
            return "self._load_state()"
        return None

    def mem_read(n):
        # a read of the shared object that is later written back: `self._state` on the right-hand side / as a value
        if isinstance(n, ast.Attribute) and isinstance(n.ctx, ast.Load) and ast.unparse(n) == "self._state":
            return "self._state"
        return None

    obs = []
    obs += guarded_by(r, "workflows.context.state_store", "InMemoryStateStore", "self._lock", mem_write,
                      yield_methods=("edit_state",), is_read=mem_read)
    obs += guarded_by(r, "llama_agents.server._store.sqlite.sqlite_state_store", "SqliteStateStore", "self._lock",
                      sql_write, exempt=("__init__", "_load_state", "_seed_from_serialized", "_copy_state_from_run",
                              "_write_in_memory_state"),
                      yield_methods=("edit_state",), is_read=sql_read)
    py = os.path.join(VERIF, ".venv", "bin", "python")
    scen = os.path.join(VERIF, "scenarios", "store_scenarios.py")
    evals = 0
    for o in obs:
        if o["status"] != "proved":
            kind_ = "two_edits" if "guarded-read-before-write" in o["id"] else "lost_update"
            which = f"{kind_}_sqlite" if "Sqlite" in o["id"] else f"{kind_}_memory"
            env = dict(os.environ, VERIF_REPO=repo)
            p = subprocess.run([py, scen, which], capture_output=True, text=True, env=env, timeout=120)
            evals += 1
            o["detail"] += f"\nnative scenario `{which}`: exit {p.returncode}: {p.stdout.strip()[-300:]}"
            if p.returncode == 1:
                rp = os.path.join(os.environ.get("VERIF_OUT") or os.path.join(VERIF, "out"), "replay",
                                  f"C20-{which}.sh")
                os.makedirs(os.path.dirname(rp), exist_ok=True)
                with open(rp, "w") as f:
                    f.write(f"#!/bin/sh\n# failed obligation: {o['id']}\n# {o['detail'].splitlines()[0]}\n"
                            f"VERIF_REPO={repo} exec {py} {scen} {which}\n")
                os.chmod(rp, 0o755)
                o["replay"] = rp
    return {
        "obligations": obs,
        "native_evaluations": evals,
        "functions": [{"function": "workflows.context.state_store.InMemoryStateStore (class)", "backend": "ast"},
                      {"function": "llama_agents.server._store.sqlite.sqlite_state_store.SqliteStateStore (class)",
                       "backend": "ast"}],
        "assumptions": [
            "asyncio.Lock gives mutual exclusion between acquire and release; code between two awaits of one task is "
            "atomic (cooperative scheduling); serializability of the final state then follows from the lock "
            "discipline: every write of the guarded state happens while the task holds the store's _lock, and "
            "edit_state holds it while the caller's block runs",
            "what counts as a write site is given syntactically (assignment to self._state / set_by_path(self._state) "
            "for the in-memory store; self._save_state(...) for the SQLite store); _load_state's insertion of the "
            "default row and the seeding helpers are exempt (they run before the store is shared)",
        ],
        "coverage_extra": {"ast_obligations": len(obs)},
    }
