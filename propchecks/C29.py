"""C29 (bounded part; the ordering contract of debounced_sorted_prefix itself is an SMT obligation, specs/iter_utils.py):
merge_generators / debounced_sorted_prefix / Debouncer are async generators over tasks and
`asyncio.wait` - outside the subset pyvc can execute symbolically (no generator protocol, no task model), so the
property's own statement is evaluated as a run-time checked contract on the REAL functions over an exhaustively
enumerated family of arrival timings.  Time is virtual: the event loop's clock jumps to the next timer, so arrivals
that coincide with the window deadlines coincide EXACTLY (the boundary interleavings the statement quantifies over),
deterministically.  Nothing here is proved."""
import asyncio
import importlib.util
import itertools
import os
import sys

VERIF = os.path.dirname(os.path.dirname(os.path.abspath(__file__)))
REL = "packages/llama-agents-core/src/llama_agents/core/iter_utils.py"


class VLoop(asyncio.SelectorEventLoop):
    """event loop with virtual time: when nothing is ready, the clock jumps to the next scheduled timer"""

    def __init__(self):
        super().__init__()
        self._vt = 0.0

    def time(self):
        return self._vt

    def _run_once(self):
        if not self._ready and self._scheduled:
            self._vt = max(self._vt, self._scheduled[0]._when)
        super()._run_once()


def load(repo):
    spec = importlib.util.spec_from_file_location("iter_utils_under_test", os.path.join(repo, REL))
    m = importlib.util.module_from_spec(spec)
    spec.loader.exec_module(m)
    return m


def drive(coro_fn, iu):
    loop = VLoop()
    asyncio.set_event_loop(loop)
    # the Debouncer's default clock (time.monotonic, bound as a default argument) is replaced by the loop's clock
    d = list(iu.Debouncer.__init__.__defaults__)
    d[-1] = loop.time
    iu.Debouncer.__init__.__defaults__ = tuple(d)
    try:
        return loop.run_until_complete(asyncio.wait_for(coro_fn(), 10_000))
    finally:
        try:
            pend = [t for t in asyncio.all_tasks(loop) if not t.done()]
            for t in pend:
                t.cancel()
            if pend:
                loop.run_until_complete(asyncio.gather(*pend, return_exceptions=True))
        finally:
            asyncio.set_event_loop(None)
            loop.close()


class Boom(Exception):
    pass


def source(script):
    """script: [(delay, item | Boom)] - an async generator that sleeps `delay` (virtual) before each item"""
    async def gen():
        for delay, item in script:
            if delay:
                await asyncio.sleep(delay)
            if item is Boom:
                raise Boom("source failed (injected)")
            yield item
    return gen()


# ------------------------------------------------------------------ debounced_sorted_prefix
DEB = 1.0
MAXWS = [2.5, 1.75, 2.25]  # max windows tried: on, and between, the grid points
GRID = [0.0, 0.5, 1.0, 1.5, 3.0]


def window_close(arrivals, MAXW):
    """reference model of the statement's 'initial burst': (latest index that MUST be in the burst, first index that
    MUST be passthrough); an arrival exactly at the closing instant may go either way"""
    complete = DEB
    must, may = 0, 0
    for i, t in enumerate(arrivals):
        close = min(complete, MAXW)
        if t < close:
            complete = t + DEB
            must = may = i + 1
        elif t == close:
            # arrives as the window closes: either side is acceptable; if it is taken into the burst the window is
            # not extended beyond what the implementation decides - accept both readings for the rest
            may = i + 1
            break
        else:
            break
    return must, may


def check_dsp(iu, delays, keys, MAXW=2.5):
    arrivals, t = [], 0.0
    for d in delays:
        t += d
        arrivals.append(t)
    items = [(k, n) for n, k in enumerate(keys)]  # (key, serial): distinct items, possibly equal keys

    async def go():
        out = []
        async for x in iu.debounced_sorted_prefix(source(list(zip(delays, items))), key=lambda v: v[0],
                                                  debounce_seconds=DEB, max_window_seconds=MAXW):
            out.append(x)
        return out
    try:
        out = drive(go, iu)
    except Exception as e:  # noqa
        return f"raised {type(e).__name__}: {e}"
    if sorted(out) != sorted(items):
        return f"items lost or duplicated: yielded {out}"
    # the burst is sorted BY KEY: the order among items with equal keys is not part of the statement
    def shape_ok(k):
        burst, rest = out[:k], out[k:]
        return (sorted(burst) == sorted(items[:k]) and all(a[0] <= b[0] for a, b in zip(burst, burst[1:]))
                and rest == items[k:])

    shapes = [sorted(items[:k], key=lambda v: v[0]) + items[k:] for k in range(len(items) + 1)]
    ks = [k for k in range(len(items) + 1) if shape_ok(k)]
    if not ks:
        return f"not (sorted burst, then arrival order): yielded {out}"
    must, may = window_close(arrivals, MAXW)
    if not any(must <= k for k in ks) and not shape_ok(must):
        return f"an item that arrived inside the window was passed through unsorted: yielded {out}, burst must hold {must}"
    hi = max(may, must)
    if all(k > hi for k in ks) and not shape_ok(hi):
        return (f"an item that arrived after the window closed was sorted into the burst: yielded {out}, "
                f"burst may hold at most {hi} (arrivals {arrivals})")
    return None


# ------------------------------------------------------------------ merge_generators
def check_merge(iu, scripts):
    async def go():
        out, err = [], None
        try:
            async for x in iu.merge_generators(*[source(s) for s in scripts]):
                out.append(x)
        except Boom as e:
            err = e
        return out, err
    try:
        out, err = drive(go, iu)
    except Exception as e:  # noqa
        return f"raised {type(e).__name__}: {e}"
    fails_at = {}
    for si, s in enumerate(scripts):
        t = 0.0
        for d, it in s:
            t += d
            if it is Boom:
                fails_at[si] = t
    if fails_at and err is None:
        return f"a source raised but the merged stream ended normally: yielded {out}"
    if not fails_at and err is not None:
        return "an error was raised although no source failed"
    for si, s in enumerate(scripts):
        mine = [x for x in out if x[0] == si]
        want = [it for _, it in s if it is not Boom]
        if len(set(mine)) != len(mine):
            return f"an item of source {si} was yielded twice: {out}"
        if fails_at:
            if mine != want[:len(mine)]:
                return f"order of source {si} not preserved: {mine} vs {want}"
        elif mine != want:
            return f"source {si}: yielded {mine}, expected {want} (all, in order, once)"
    return None


def run_all(repo, tier):
    iu = load(repo)
    fails = {"dsp": [], "merge": []}
    n = 0
    lens = (1, 2, 3, 4) if tier != "thorough" else (1, 2, 3, 4, 5)
    for ln in lens:
        keysets = [tuple(range(ln, 0, -1))] + ([(2, 1, 2, 1, 2)[:ln], tuple(range(ln))] if ln > 1 else [])
        for delays in itertools.product(GRID, repeat=ln):
            for keys in keysets:
                for mw in MAXWS:
                    n += 1
                    r = check_dsp(iu, delays, keys, mw)
                    if r and len(fails["dsp"]) < 5:
                        fails["dsp"].append((delays, keys, mw, r))
    mgrid = [0.0, 1.0, 2.0]
    shapes = []
    for la in (0, 1, 2, 3):
        for da in itertools.product(mgrid, repeat=la):
            shapes.append(list(da))
    for a in shapes:
        for b in shapes:
            if len(a) + len(b) == 0 or len(a) + len(b) > (5 if tier != "thorough" else 6):
                continue
            variants = [(None, None)] + [(0, i) for i in range(len(a))] + [(1, i) for i in range(len(b))]
            for who, at in variants:
                sa = [(d, (0, i)) for i, d in enumerate(a)]
                sb = [(d, (1, i)) for i, d in enumerate(b)]
                if who == 0:
                    sa[at] = (sa[at][0], Boom)
                    sa = sa[:at + 1]
                elif who == 1:
                    sb[at] = (sb[at][0], Boom)
                    sb = sb[:at + 1]
                for scripts in ([sa, sb], [sb, sa]) if sa != sb else ([sa, sb],):
                    scripts = [[(d, (si, it[1]) if it is not Boom else Boom) for d, it in s] for si, s in enumerate(scripts)]
                    n += 1
                    r = check_merge(iu, scripts)
                    if r and len(fails["merge"]) < 5:
                        fails["merge"].append((scripts, r))
    # three sources, one trailing zero-delay item: simultaneous completions of more than two tasks
    for a, b, c in itertools.product([[1.0], [1.0, 0.0], [2.0]], repeat=3):
        scripts = [[(d, (si, i)) for i, d in enumerate(s)] for si, s in enumerate((a, b, c))]
        n += 1
        r = check_merge(iu, scripts)
        if r and len(fails["merge"]) < 5:
            fails["merge"].append((scripts, r))
    return n, fails


def run(tier, seed, repo):
    n, fails = run_all(repo, tier)
    what = {
        "dsp": ("llama_agents.core.iter_utils.debounced_sorted_prefix/ensures_nothing_overtakes_the_burst",
                "every input item is yielded exactly once: first the items that arrived inside the debounce window, "
                "sorted by key, then the later items in arrival order - no later item before the sorted burst, no item "
                "that arrived after the window closed inside it"),
        "merge": ("llama_agents.core.iter_utils.merge_generators/ensures_every_item_once_in_source_order",
                  "every item of every source is yielded exactly once, each source's order is preserved, and a "
                  "source's error is re-raised"),
    }
    obs = []
    for key, (oid, text) in what.items():
        f = fails[key]
        o = {"id": oid, "status": "proved" if not f else "refuted", "backend": f"bounded enumeration ({n} schedules)",
             "detail": text if not f else f"{text}\nfailing schedule: {f[0]!r}", "line": 0}
        if f:
            rp = os.path.join(os.environ.get("VERIF_OUT") or os.path.join(VERIF, "out"), "replay", f"C29-{key}.py")
            os.makedirs(os.path.dirname(rp), exist_ok=True)
            with open(rp, "w") as fh:
                fh.write("#!/usr/bin/env python3\n# replay of a C29 contract violation (generated)\n"
                         f"import sys\nsys.path.insert(0, {VERIF!r})\nfrom propchecks import C29\n"
                         f"iu = C29.load({repo!r})\n" +
                         (f"r = C29.check_dsp(iu, {f[0][0]!r}, {f[0][1]!r}, {f[0][2]!r})\n" if key == "dsp" else
                          f"Boom = C29.Boom\nr = C29.check_merge(iu, {_src(f[0][0])})\n") +
                         f"print('contract: ' + {text!r})\nprint('real code:', r)\nsys.exit(1 if r else 0)\n")
            os.chmod(rp, 0o755)
            o["replay"] = rp
        obs.append(o)
    return {
        "obligations": obs, "native_evaluations": n, "native_distinct": n,
        "functions": [{"function": "llama_agents.core.iter_utils.debounced_sorted_prefix / Debouncer", "backend": "bounded"},
                      {"function": "llama_agents.core.iter_utils.merge_generators", "backend": "bounded"}],
        "assumptions": [
            f"BOUNDED, not proved: debounced_sorted_prefix on every sequence of 1..{4 if tier != 'thorough' else 5} items "
            f"whose inter-arrival delays are drawn from {GRID} x the debounce interval (window {DEB}, max windows {MAXWS}), "
            "three key patterns (descending, ascending, repeated keys); merge_generators on every pair of sources of up "
            "to 3 items with delays from [0, 1, 2], with and without one failing position, in both argument orders, "
            f"plus 27 three-source cases ({n} schedules in all)",
            "time is virtual (the loop clock jumps to the next timer; the Debouncer's default clock argument is "
            "replaced by the loop clock): arrivals coincide exactly with window deadlines, ties are resolved by the "
            "event loop's deterministic ordering - other tie orders of a real clock are NOT explored",
            "an arrival exactly at the closing instant of the window may be sorted into the burst or passed through: "
            "the statement does not say which, both are accepted",
            "why no contract proof: async generators over tasks and asyncio.wait have no encoding in pyvc (no generator "
            "protocol, no task model); the functions are checked as they are, loaded from the file on every run",
        ],
        "coverage_extra": {"bounded_not_proved": ["the two bounded obligations of C29 (merge_generators, and the timing side of debounced_sorted_prefix): enumeration bound (see assumptions)"]},
    }


def _src(scripts):
    return "[" + ", ".join("[" + ", ".join(f"({d!r}, {'Boom' if it is Boom else repr(it)})" for d, it in s) + "]"
                           for s in scripts) + "]"
