"""C33 (bounded stand-in): create_backup_archive / read_backup_archive are tarfile + yaml + json + AES-GCM code - library
semantics that pyvc has no encoding for, and `cryptography` is not installed here.  The statement is evaluated as a
run-time checked contract on the REAL archive.py and encryption.py (loaded from their files on every run) over an
enumerated family of deployment sets, secret maps, generation maps and passwords; only the three `cryptography`
primitives encryption.py imports (PBKDF2HMAC, AESGCM, hashes.SHA256) come from a stand-in package with their ASSUMED
contracts (deterministic key derivation; authenticated cipher).  Nothing here is proved."""
import hashlib
import importlib.util
import io
import itertools
import os
import sys
import tarfile
import types

VERIF = os.path.dirname(os.path.dirname(os.path.abspath(__file__)))
REL = "packages/llama-agents-control-plane/src/llama_agents/control_plane/backup/archive.py"


ENC_REL = "packages/llama-agents-control-plane/src/llama_agents/control_plane/backup/encryption.py"
STUB = os.path.join(VERIF, "replay_support", "crypto_stub")


def load(repo):
    """archive.py AND encryption.py of the repository, loaded from their files as a two-module package; only the
    third-party `cryptography` primitives they import come from the stand-in package replay_support/crypto_stub"""
    if STUB not in sys.path:
        sys.path.insert(0, STUB)
    pkg = types.ModuleType("c33pkg")
    pkg.__path__ = []
    sys.modules["c33pkg"] = pkg
    for name, rel in (("encryption", ENC_REL), ("archive", REL)):
        spec = importlib.util.spec_from_file_location(f"c33pkg.{name}", os.path.join(repo, rel))
        m = importlib.util.module_from_spec(spec)
        m.__package__ = "c33pkg"
        sys.modules[f"c33pkg.{name}"] = m
        spec.loader.exec_module(m)
    return sys.modules["c33pkg.archive"]


NAMES = ["a", "b1", "web-app", "z" * 63]
SECRETS = [None, {}, {"TOKEN": "abc"}, {"N": "123", "NULL": "null", "EMPTY": "", "YES": "yes"},
           {"MULTI": "line1\nline2: x\n", "UNI": "pässwörd ✓", "COLON": "a: b", "HASH": "#x",
            "ASTRAL": "hello \U0001f600 \U00020000", "K\U0001f511": "v", "TAB": "a\tb", "QUOTE": "it's \"x\""}]
GENS = [None, 0, 7]
PASSWORDS = [None, "pw", "", "pässword ✓"]


def cr_of(name, k):
    return {"apiVersion": "deploy.llamaindex.ai/v1", "kind": "LlamaDeployment",
            "metadata": {"name": name, "namespace": "ns", "labels": {"i": str(k)}},
            "spec": {"repo": f"https://example.com/{name}.git", "replicas": k, "env": [{"name": "A", "value": "1"}]}}


def check(ar, names, secs, gens, pw):
    deployments = [cr_of(n, i) for i, n in enumerate(names)]
    secrets = {n: s for n, s in zip(names, secs) if s is not None}
    generations = {n: g for n, g in zip(names, gens) if g is not None}
    gen_arg = generations if any(g is not None for g in gens) else None
    import copy
    data = ar.create_backup_archive(copy.deepcopy(deployments), copy.deepcopy(secrets), "ns", "2026-01-01T00:00:00Z",
                                    encryption_password=pw, generations=copy.deepcopy(gen_arg))
    out = {}
    try:
        got = ar.read_backup_archive(data, encryption_password=pw)
    except Exception as e:  # noqa
        return {"roundtrip": f"reading back with the same password raised {type(e).__name__}: {e}"}
    if [e.name for e in got.entries] != list(names):
        out["roundtrip"] = f"names {[e.name for e in got.entries]} != {list(names)}"
    else:
        for e, d in zip(got.entries, deployments):
            if e.cr != d:
                out["roundtrip"] = f"deployment resource of {e.name} changed: {e.cr} != {d}"
            if e.secret != secrets.get(e.name):
                out["roundtrip"] = f"secret of {e.name}: {e.secret!r} != {secrets.get(e.name)!r}"
            if e.generation != generations.get(e.name):
                out["roundtrip"] = f"generation of {e.name}: {e.generation!r} != {generations.get(e.name)!r}"
    mf = got.manifest
    if (mf.namespace, mf.timestamp, mf.deployment_count) != ("ns", "2026-01-01T00:00:00Z", len(names)):
        out["roundtrip"] = f"manifest changed: {mf}"
    if pw is not None and secrets:
        # encryption was asked for: no secret may be readable without exactly this password
        with tarfile.open(fileobj=io.BytesIO(data), mode="r:gz") as tar:
            plain = [m.name for m in tar.getmembers() if m.name.endswith(".secret.yaml")]
        if plain:
            out["confidential"] = f"encryption was requested (manifest.encrypted={mf.encrypted}) but {plain} are stored in plaintext"
        for other in ("other-password", None):
            try:
                leaked = ar.read_backup_archive(data, encryption_password=other)
            except Exception:  # noqa
                continue
            if any(e.secret is not None for e in leaked.entries):
                out["confidential"] = (f"secrets written with password {pw!r} were read with password {other!r}: "
                                       f"{[(e.name, e.secret) for e in leaked.entries if e.secret is not None][:1]}")
    if (pw is not None) != bool(mf.encrypted):
        out["roundtrip"] = f"manifest.encrypted={mf.encrypted} for password {pw!r}"
    return out


def run_all(repo, tier):
    ar = load(repo)
    fails = {"roundtrip": [], "confidential": []}
    n = 0
    sizes = (0, 1, 2) if tier != "thorough" else (0, 1, 2, 3)
    for k in sizes:
        for names in itertools.permutations(NAMES, k):
            if tier != "thorough" and k == 2 and names[0] > names[1] and "web-app" not in names:
                continue
            if k == 3 and names not in (("a", "b1", "web-app"), ("web-app", "a", "z" * 63), ("b1", "z" * 63, "a")):
                continue  # thorough tier: three of the 24 orderings of three names (about 80 000 archives)
            for secs in itertools.product(SECRETS, repeat=k):
                for gens in itertools.product(GENS, repeat=k):
                    for pw in PASSWORDS:
                        n += 1
                        r = check(ar, names, secs, gens, pw)
                        for key, msg in r.items():
                            if len(fails[key]) < 5:
                                fails[key].append(((names, secs, gens, pw), msg))
    return n, fails


WHAT = {
    "roundtrip": ("llama_agents.control_plane.backup.archive/ensures_read_of_create_is_identity",
                  "reading a backup archive created from a set of deployments (valid names), secrets and generations "
                  "returns the same deployment resources, secrets and generations under the same names, in order, with "
                  "or without encryption, and a manifest that says what was asked for"),
    "confidential": ("llama_agents.control_plane.backup.archive/ensures_encrypted_secrets_need_the_password",
                     "when an encryption password is given, every secret is stored encrypted: it cannot be read with a "
                     "different password or without one"),
}


def run(tier, seed, repo):
    n, fails = run_all(repo, tier)
    obs = []
    for key, (oid, text) in WHAT.items():
        f = fails[key]
        o = {"id": oid, "status": "proved" if not f else "refuted", "backend": f"bounded enumeration ({n} archives)",
             "detail": text if not f else f"{text}\nfailing input (names, secrets, generations, password): {f[0][0]!r}\n{f[0][1]}",
             "line": 0}
        if f:
            rp = os.path.join(os.environ.get("VERIF_OUT") or os.path.join(VERIF, "out"), "replay", f"C33-{key}.py")
            os.makedirs(os.path.dirname(rp), exist_ok=True)
            with open(rp, "w") as fh:
                fh.write("#!/usr/bin/env python3\n# replay of a C33 contract violation (generated)\n"
                         f"import sys\nsys.path.insert(0, {VERIF!r})\nfrom propchecks import C33\n"
                         f"ar = C33.load({repo!r})\nr = C33.check(ar, *{f[0][0]!r})\n"
                         f"print('contract: ' + {text!r})\nprint('real code:', r.get({key!r}))\n"
                         f"sys.exit(1 if {key!r} in r else 0)\n")
            os.chmod(rp, 0o755)
            o["replay"] = rp
        obs.append(o)
    return {
        "obligations": obs, "native_evaluations": n, "native_distinct": n,
        "functions": [{"function": "llama_agents.control_plane.backup.archive.create_backup_archive / read_backup_archive "
                                   "+ encryption.encrypt / decrypt / _derive_key (real files; the `cryptography` primitives are a "
                                   "stand-in package)", "backend": "bounded"}],
        "assumptions": [
            f"BOUNDED, not proved: every ordered choice of up to 2 {'(and three orderings of 3) ' if tier == 'thorough' else ''}of the deployment names "
            f"{[x if len(x) < 10 else x[:3] + '...(63)' for x in NAMES]} (valid DNS-1035 labels), each with one of "
            f"{len(SECRETS)} secret maps (absent, empty, plain, YAML-ambiguous strings, multi-line / non-ASCII incl. non-BMP / ': ' / '#' / tab / quote "
            f"values and keys) and one of {len(GENS)} generations (absent, 0, 7), under the passwords {PASSWORDS!r} ({n} archives)",
            "ASSUMED: the third-party primitives encryption.py builds on (`cryptography` is not installed in this sandbox) "
            "come from replay_support/crypto_stub with their contracts and none of their strength: PBKDF2HMAC.derive is a "
            "deterministic function of (password, salt, length); AESGCM decrypts what it encrypted under the same key and "
            "nonce and raises InvalidTag otherwise. encryption.py itself (salt / nonce generation, the wire format, the "
            "length check, key derivation per message) IS executed; 'cannot be read with a different password' is decided "
            "up to the cipher's own strength",
            "tarfile, gzip, PyYAML and json are executed as they are (their round-trip behaviour is part of what the "
            "enumeration exercises, within the bound)",
            "secrets / generations given for names that have no deployment are not part of a backup (the functions take "
            "them per deployment) and are not enumerated; duplicate deployment names are not 'a set of deployments'",
        ],
        "coverage_extra": {"bounded_not_proved": ["all C33 obligations: enumeration bound and stand-in `cryptography` primitives (see assumptions)"]},
    }
