"""C34: version conversion and classification (dev_cli.changesets / dev_cli.versioning).

BOUNDED, NOT PROVED.  These are string functions over regular expressions and packaging.version.Version; the verifier's
encoding has no string theory, so the contracts below are checked at run time on the real functions over a complete
enumeration of a stated finite domain (releases with every component in 0..B, pre-release labels a / b / rc with numbers
0..B, B = 2 in the quick tier, 3 in the thorough tier; no epochs, post, dev or local parts).  A failing input is a
violation with a replay script."""
import itertools
import os
import sys

VERIF = os.path.dirname(os.path.dirname(os.path.abspath(__file__)))


def _domain(B):
    rels = [f"{a}.{b}.{c}" for a in range(B + 1) for b in range(B + 1) for c in range(B + 1)]
    pres = [None] + [(lab, n) for lab in ("a", "b", "rc") for n in range(B + 1)]
    return rels, pres


def _key(rel, pre):
    order = {"a": 0, "b": 1, "rc": 2}
    r = tuple(int(x) for x in rel.split("."))
    return (r, (1, 0, 0) if pre is None else (0, order[pre[0]], pre[1]))


def run(tier, seed, repo):
    sys.path.insert(0, os.path.join(repo, "src"))
    for m in [m for m in sys.modules if m == "dev_cli" or m.startswith("dev_cli.")]:
        del sys.modules[m]
    from dev_cli.changesets import pep440_to_semver, semver_to_pep440
    from dev_cli.versioning import detect_change_type

    B = 2 if tier != "thorough" else 3
    rels, pres = _domain(B)
    obs, evals, samples = [], 0, []

    def record(oid, failures, n, what):
        nonlocal evals
        evals += n
        ob = {"id": oid, "status": "proved" if not failures else "refuted", "backend": f"bounded enumeration ({n} inputs)",
              "detail": what if not failures else f"{what}\nfailing input: {failures[0]}"}
        if failures:
            rp = os.path.join(os.environ.get("VERIF_OUT") or os.path.join(VERIF, "out"), "replay",
                              "C34-" + oid.split("/")[-1] + ".py")
            os.makedirs(os.path.dirname(rp), exist_ok=True)
            with open(rp, "w") as f:
                f.write("#!/usr/bin/env python3\n# replay of a C34 contract violation (generated)\nimport sys\n"
                        f"sys.path.insert(0, {os.path.join(repo, 'src')!r})\n"
                        "from dev_cli.changesets import pep440_to_semver, semver_to_pep440\n"
                        "from dev_cli.versioning import detect_change_type\n"
                        f"print({failures[0]!r})\nprint('contract: {what}')\n"
                        f"{failures[0][1]}\nsys.exit(1)\n")
            os.chmod(rp, 0o755)
            ob["replay"] = rp
        obs.append(ob)

    # 1. PEP 440 -> semver -> PEP 440 is the (normalised) original; semver -> PEP 440 -> semver likewise
    f1, f2, n = [], [], 0
    # (the round trips are also run on release tuples of one, two and four components - `1`, `1.2`, `1.2.0.1`: the
    # statement speaks of the normalised original, whatever its length; the classification below stays on three)
    short = [".".join(map(str, t)) for k in (1, 2, 4) for t in itertools.product(range(B + 1), repeat=k)]
    for rel in rels + short:
        for pre in pres:
            pep = rel if pre is None else f"{rel}{pre[0]}{pre[1]}"
            sem = rel if pre is None else f"{rel}-{pre[0]}.{pre[1]}"
            n += 1
            try:
                s = pep440_to_semver(pep)
                back = semver_to_pep440(s)
                if s != sem or back != pep:
                    f1.append((pep, f"print(pep440_to_semver({pep!r}), semver_to_pep440(pep440_to_semver({pep!r})))"))
            except Exception as e:  # noqa
                f1.append((pep, f"print(pep440_to_semver({pep!r}))  # raised {type(e).__name__}: {e}"))
            try:
                p2 = semver_to_pep440(sem)
                back2 = pep440_to_semver(p2)
                if p2 != pep or back2 != sem:
                    f2.append((sem, f"print(semver_to_pep440({sem!r}), pep440_to_semver(semver_to_pep440({sem!r})))"))
            except Exception as e:  # noqa
                f2.append((sem, f"print(semver_to_pep440({sem!r}))  # raised {type(e).__name__}: {e}"))
    record("dev_cli.changesets/roundtrip-pep440-semver-pep440", f1, n,
           "pep440_to_semver(v) is the semver spelling of v and semver_to_pep440 of it is v again")
    record("dev_cli.changesets/roundtrip-semver-pep440-semver", f2, n,
           "semver_to_pep440(v) is the PEP 440 spelling of v and pep440_to_semver of it is v again")
    samples.append(f"{rels[-1]}rc{B} <-> {rels[-1]}-rc.{B}")

    # 2. classification: 'none' exactly when the new version is not greater; otherwise the most significant release
    #    component that grew (when only the pre-release part grew the statement names no component: any of
    #    major / minor / patch is accepted there)
    f3, n3 = [], 0
    vs = [(rel, pre) for rel in rels for pre in pres]
    step = 1 if tier == "thorough" else 3
    for i, (r1, p1) in enumerate(vs):
        for (r2, p2) in vs[(i * 7) % step::step]:
            cur = r1 if p1 is None else f"{r1}{p1[0]}{p1[1]}"
            prev = r2 if p2 is None else f"{r2}{p2[0]}{p2[1]}"
            n3 += 1
            try:
                got = detect_change_type(cur, prev)
            except Exception as e:  # noqa
                f3.append(((cur, prev), f"print(detect_change_type({cur!r}, {prev!r}))  # raised {type(e).__name__}"))
                continue
            k1, k2 = _key(r1, p1), _key(r2, p2)
            if k1 <= k2:
                want = {"none"}
            else:
                a, b = k1[0], k2[0]
                want = {"major"} if a[0] > b[0] else {"minor"} if (a[0] == b[0] and a[1] > b[1]) else \
                    {"patch"} if (a[:2] == b[:2] and a[2] > b[2]) else {"major", "minor", "patch"}
                if a[0] < b[0] or (a[0] == b[0] and a[1] < b[1] and a[2] > b[2]):
                    want = {"major", "minor", "patch"}  # cannot happen when cur > prev on this domain
            if got not in want:
                f3.append(((cur, prev), f"print(detect_change_type({cur!r}, {prev!r}), 'expected one of', {sorted(want)!r})"))
    record("dev_cli.versioning/detect_change_type", f3, n3,
           "'none' iff the new version is not greater, else the most significant release component that grew")
    samples.append(f"detect_change_type('{rels[-1]}', '{rels[0]}a0')")
    return {
        "obligations": obs, "native_evaluations": evals, "native_distinct": evals,  # an enumeration: no repeats
        "functions": [{"function": "dev_cli.changesets.semver_to_pep440 / pep440_to_semver", "backend": "bounded"},
                      {"function": "dev_cli.versioning.detect_change_type", "backend": "bounded"}],
        "assumptions": [f"BOUNDED, not proved: complete enumeration of releases with components 0..{B} and pre-releases "
                        f"a/b/rc 0..{B} ({len(rels) * len(pres)} versions; pairs sampled 1 in {step} for the "
                        "classification in the quick tier; the two round trips additionally on every release tuple of "
                        "one, two and four components over the same range); versions with epochs, post/dev/local "
                        "parts, more than four release components or multi-digit components are outside the bound",
                        "packaging.version.Version's ordering is the reference for 'greater'"],
        "coverage_extra": {"bounded_not_proved": [f"all three contracts: enumeration bound B={B}"], "exhaustive": tier == "thorough"},
    }
