"""C31 (runner side, decided on the AST of the real _ControlLoopRunner.run; the reducer side is SMT): a completed
worker's result is not overtaken by a timer that came due in the same wake-up - scheduled ticks (the run's timeout
among them) are promoted only on a wake-up in which no task completed.  Replay / cross-check:
scenarios/runner_timer_order.py (the finishing step and the elapsed timeout become visible to the loop together)."""
import ast

from propchecks.C04 import CLS, MOD, attach


def timers_only_on_timeout(repo):
    from pyvc.astcheck import ob, parents
    from pyvc.extract import Repo
    run = Repo(repo).module(MOD).classes[CLS].methods["run"].node
    par = parents(run)
    out = []
    calls = [n for n in ast.walk(run) if isinstance(n, ast.Call) and ast.unparse(n.func) == "self.pop_due_ticks"]
    out.append(ob(f"{MOD}.{CLS}.run/promotes-due-ticks", bool(calls), f"{len(calls)} call(s) of self.pop_due_ticks in run()"))
    for c in calls:
        cur, ok = c, False
        while cur in par:
            prev, cur = cur, par[cur]
            if isinstance(cur, ast.If) and ast.unparse(cur.test) == "completed_task is None" and any(
                    prev is b or prev in ast.walk(b) for b in cur.body):
                ok = True
        out.append(ob(f"{MOD}.{CLS}.run/due-ticks-only-when-nothing-completed@L{c.lineno}", ok,
                      "scheduled ticks are promoted only under `if completed_task is None` (a wake-up by timeout)"
                      if ok else f"self.pop_due_ticks at line {c.lineno} also runs on a wake-up in which a task completed: "
                                 f"a due timer (the run's timeout) is buffered ahead of the completed result", c.lineno))
    return out


def run(tier, seed, repo):
    obs = timers_only_on_timeout(repo)
    n = attach(obs, "", "C31", "runner_timer_order.py", repo)
    return {
        "obligations": obs, "native_evaluations": n,
        "functions": [{"function": f"{MOD}.{CLS}.run (due scheduled ticks are promoted only when no task completed)",
                       "backend": "ast"}],
        "assumptions": [
            "runner side of C31, structural: within one wake-up of run() a completed task's tick reaches the tick buffer "
            "and no scheduled tick does; the buffer is reduced in order, so a run whose StopEvent result is visible is "
            "completed before its timeout tick can be reduced; that adapter.wait_for_next_task reports a completed task "
            "in preference to a timeout is the adapter's contract (assumed)",
        ],
    }
