"""C21: connection ownership in the SQLite state store (close() requires ownership), decided on the AST."""
import os
import subprocess

VERIF = os.path.dirname(os.path.dirname(os.path.abspath(__file__)))


def run(tier, seed, repo):
    from pyvc.astcheck import close_requires_ownership
    from pyvc.extract import Repo
    r = Repo(repo)
    obs = close_requires_ownership(r, "llama_agents.server._store.sqlite.sqlite_state_store", "SqliteStateStore",
                                   "self._connect", "_shared_conn")
    py = os.path.join(VERIF, ".venv", "bin", "python")
    scen = os.path.join(VERIF, "scenarios", "store_scenarios.py")
    env = dict(os.environ, VERIF_REPO=repo)
    p = subprocess.run([py, scen, "single_connection"], capture_output=True, text=True, env=env, timeout=120)
    native_ok = p.returncode == 0
    if not obs:
        obs = [{"id": "sqlite_state_store.SqliteStateStore/no-close-sites", "status": "proved", "backend": "ast",
                "detail": "no close() on a connection obtained from _connect()"}]
    for o in obs:
        if o["status"] != "proved":
            o["detail"] += f"\nnative scenario single_connection: exit {p.returncode}: {p.stdout.strip()[-300:]}"
            if p.returncode == 1:
                rp = os.path.join(os.environ.get("VERIF_OUT") or os.path.join(VERIF, "out"), "replay",
                                  "C21-single_connection.sh")
                os.makedirs(os.path.dirname(rp), exist_ok=True)
                with open(rp, "w") as f:
                    f.write(f"#!/bin/sh\n# failed obligation: {o['id']}\nVERIF_REPO={repo} exec {py} {scen} single_connection\n")
                os.chmod(rp, 0o755)
                o["replay"] = rp
    if all(o["status"] == "proved" for o in obs) and not native_ok:
        obs.append({"id": "sqlite_state_store.SqliteStateStore/native-cross-check", "status": "error", "backend": "native",
                    "detail": f"all ownership obligations hold but the native single-connection scenario fails: "
                              f"{p.stdout[-300:]} {p.stderr[-300:]}"})
    return {
        "obligations": obs,
        "native_evaluations": 1,
        "functions": [{"function": "llama_agents.server._store.sqlite.sqlite_state_store.SqliteStateStore (class)",
                       "backend": "ast"}],
        "assumptions": [
            "ownership contract: self._connect() returns a connection the caller owns iff self._shared_conn is None; "
            "sqlite3.Connection.close() on the shared connection makes every later operation of the store fail",
            "equality of query results between the two connection modes beyond 'keeps working' is SQL semantics "
            "(trusted)",
        ],
    }
