"""C16: structural obligation of MemoryWorkflowStore.append_event (decided on the AST): every waiting subscriber is woken."""


def run(tier, seed, repo):
    from pyvc.astcheck import call_present_under_with
    from pyvc.extract import Repo
    obs = call_present_under_with(Repo(repo), "llama_agents.server._store.memory_workflow_store", "MemoryWorkflowStore",
                                  "append_event", ".notify_all", "condition")
    return {
        "obligations": obs, "native_evaluations": 0,
        "functions": [{"function": "MemoryWorkflowStore.append_event (wake-up of subscribers)", "backend": "ast"}],
        "assumptions": [
            "subscribe_events waits on the run's condition variable without polling: a record reaches every live "
            "subscriber only if append_event wakes ALL waiters (asyncio.Condition.notify_all, assumed library contract)",
        ],
    }
