"""C16: structural obligations of the event log (decided on the AST): every waiting subscriber is woken; a subscription
ends right after the first terminal event, wherever it sits in a batch (both stores)."""


def run(tier, seed, repo):
    from pyvc.astcheck import call_present_under_with, yields_checked_for_terminal
    from pyvc.extract import Repo
    r = Repo(repo)
    obs = call_present_under_with(r, "llama_agents.server._store.memory_workflow_store", "MemoryWorkflowStore",
                                  "append_event", ".notify_all", "condition")
    obs += yields_checked_for_terminal(r, "llama_agents.server._store.memory_workflow_store", "MemoryWorkflowStore",
                                       "subscribe_events", "_is_terminal_event")
    obs += yields_checked_for_terminal(r, "llama_agents.server._store.sqlite.sqlite_workflow_store",
                                       "SqliteWorkflowStore", "subscribe_events", "_is_terminal_event")
    # native scenarios against the real stores: replay of a failed terminal-test obligation, cross-check otherwise
    import os
    import subprocess
    verif = os.path.dirname(os.path.dirname(os.path.abspath(__file__)))
    py = os.path.join(verif, ".venv", "bin", "python")
    scen = os.path.join(verif, "scenarios", "store_scenarios.py")
    n_native = 0
    for kind, tag in (("memory", "MemoryWorkflowStore"), ("sqlite", "SqliteWorkflowStore")):
        p = subprocess.run([py, scen, f"terminal_mid_batch_{kind}"], capture_output=True, text=True,
                           env=dict(os.environ, VERIF_REPO=repo), timeout=120)
        n_native += 1
        mine = [o for o in obs if "terminal-test-per-yield" in o["id"] and tag in o["id"]]
        for o in mine:
            if o["status"] != "proved":
                o["detail"] += f"\nnative scenario terminal_mid_batch_{kind}: exit {p.returncode}: {p.stdout.strip()[-300:]}"
                if p.returncode == 1:
                    rp = os.path.join(os.environ.get("VERIF_OUT") or os.path.join(verif, "out"), "replay",
                                      f"C16-terminal_mid_batch_{kind}.sh")
                    os.makedirs(os.path.dirname(rp), exist_ok=True)
                    with open(rp, "w") as f:
                        f.write(f"#!/bin/sh\n# failed obligation: {o['id']}\nVERIF_REPO={repo} exec {py} {scen} "
                                f"terminal_mid_batch_{kind}\n")
                    os.chmod(rp, 0o755)
                    o["replay"] = rp
        if mine and all(o["status"] == "proved" for o in mine) and p.returncode != 0:
            obs.append({"id": f"{tag}.subscribe_events/native-cross-check", "status": "error", "backend": "native",
                        "detail": f"the terminal-test obligation holds but the native scenario fails: "
                                  f"{p.stdout[-300:]} {p.stderr[-300:]}"})
    return {
        "obligations": obs, "native_evaluations": n_native,
        "functions": [{"function": "MemoryWorkflowStore.append_event (wake-up of subscribers)", "backend": "ast"},
                      {"function": "MemoryWorkflowStore.subscribe_events / SqliteWorkflowStore.subscribe_events "
                                   "(terminal test after every yield)", "backend": "ast"}],
        "assumptions": [
            "subscribe_events waits on the run's condition variable without polling: a record reaches every live "
            "subscriber only if append_event wakes ALL waiters (asyncio.Condition.notify_all, assumed library contract)",
            "a generator that tests each element right after yielding it and returns on the first terminal one yields "
            "nothing after that element (Python generator semantics); cursoring of subscribe_events is not covered",
        ],
    }
