"""C04 (runner side, decided on the AST of the real _ControlLoopRunner; the reducer side is SMT, specs/control_loop*.py):
nothing is published after the terminal event - a worker result that carries the StopEvent drains its sibling
workers (cancel AND wait for them) BEFORE its tick is handed on.  Replay / cross-check: scenarios/runner_stop_drain.py
(two concurrent steps, the sibling writes to the stream when it is cancelled)."""
import ast
import os
import subprocess

MOD, CLS = "workflows.runtime.control_loop", "_ControlLoopRunner"


def _scenario(name, repo):
    verif = os.path.dirname(os.path.dirname(os.path.abspath(__file__)))
    py = os.path.join(verif, ".venv", "bin", "python")
    scen = os.path.join(verif, "scenarios", name)
    try:
        p = subprocess.run([py, scen], capture_output=True, text=True, env=dict(os.environ, VERIF_REPO=repo), timeout=120)
        return p.returncode, (p.stdout.strip()[-400:] + " " + p.stderr.strip()[-200:]).strip(), py, scen
    except subprocess.TimeoutExpired:
        return 1, "the scenario did not finish (120 s)", py, scen


def attach(obs, tag, prop, name, repo):
    """native scenario: replay of failed structural obligations, cross-check of accepted ones"""
    rc, tail, py, scen = _scenario(name, repo)
    verif = os.path.dirname(os.path.dirname(os.path.abspath(__file__)))
    failed = [o for o in obs if o["status"] != "proved" and tag in o["id"]]
    tries = 1
    while not failed and rc != 0 and tries < 3:
        # the scenarios use real (short) time-outs: on a loaded machine a stall can fail one run; a cross-check failure
        # is only reported when it persists
        rc, tail, py, scen = _scenario(name, repo)
        tries += 1
    if failed and rc == 1:
        rp = os.path.join(os.environ.get("VERIF_OUT") or os.path.join(verif, "out"), "replay", f"{prop}-{name[:-3]}.sh")
        os.makedirs(os.path.dirname(rp), exist_ok=True)
        with open(rp, "w") as f:
            f.write("#!/bin/sh\n# failed obligation(s): " + "; ".join(o["id"] for o in failed) +
                    f"\nVERIF_REPO={repo} exec {py} {scen}\n")
        os.chmod(rp, 0o755)
        for o in failed:
            o["replay"] = rp
            o["detail"] += f"\nnative scenario {name}: {tail}"
    elif failed:
        for o in failed:
            o["detail"] += f"\nnative scenario {name} does not fail on this tree (exit {rc}): {tail}"
    elif rc != 0:
        obs.append({"id": f"{MOD}.{CLS}.run/native-cross-check:{name}", "status": "error", "backend": "native",
                    "detail": f"the structural obligations hold but the scenario fails (exit {rc}): {tail}"})
    return 1


def stop_drains_siblings(repo):
    from pyvc.astcheck import ob, parents
    from pyvc.extract import Repo
    ci = Repo(repo).module(MOD).classes[CLS]
    out = []
    run = ci.methods["run"].node
    par = parents(run)
    src = ast.unparse
    appends = [n for n in ast.walk(run) if isinstance(n, ast.Expr) and isinstance(n.value, ast.Call)
               and src(n.value.func) == "self.tick_buffer.append" and n.value.args and src(n.value.args[0]) == "tick_result"]
    out.append(ob(f"{MOD}.{CLS}.run/worker-result-is-buffered", bool(appends),
                  f"{len(appends)} statement(s) `self.tick_buffer.append(tick_result)` in run()"))
    for a in appends:
        p = par.get(a)
        blk = next((getattr(p, f) for f in ("body", "orelse", "finalbody") if a in getattr(p, f, [])), [])
        before = blk[: blk.index(a)] if a in blk else []
        ok = False
        for st in before:
            for n in ast.walk(st):
                if isinstance(n, ast.If) and "StopEvent" in src(n.test) and "isinstance" in src(n.test):
                    if any(isinstance(x, ast.Await) and src(x.value) == "self.cleanup_tasks()" for b in n.body for x in ast.walk(b)):
                        ok = True
        out.append(ob(f"{MOD}.{CLS}.run/stop-drains-siblings-before-buffering@L{a.lineno}", ok,
                      "a worker result carrying a StopEvent awaits self.cleanup_tasks() before its tick is buffered"
                      if ok else "no `await self.cleanup_tasks()` under a StopEvent test precedes the buffering of a "
                                 "worker's result: siblings may still publish after the terminal event", a.lineno))
    ct = ci.methods.get("cleanup_tasks")
    ok_cancel = ok_wait = False
    order = False
    if ct is not None:
        stmts = list(ct.node.body)
        pos = {}
        for i, st in enumerate(stmts):
            for n in ast.walk(st):
                if isinstance(n, ast.For) and src(n.iter) == "self.worker_tasks" and any(
                        isinstance(x, ast.Call) and src(x.func).endswith(".cancel") for x in ast.walk(n)):
                    ok_cancel = True
                    pos.setdefault("cancel", i)
                if isinstance(n, ast.Await) and "self.worker_tasks" in src(n.value) and (
                        "gather(" in src(n.value) or "asyncio.wait(" in src(n.value)):
                    ok_wait = True
                    pos.setdefault("wait", i)
                if isinstance(n, ast.Call) and src(n.func) == "self.worker_tasks.clear":
                    pos.setdefault("clear", i)
        order = "cancel" in pos and "wait" in pos and pos["cancel"] < pos["wait"] and pos.get("clear", 10 ** 6) > pos["wait"]
    out.append(ob(f"{MOD}.{CLS}.cleanup_tasks/cancels-then-waits", ok_cancel and ok_wait and order,
                  "cleanup_tasks cancels every worker task and then awaits their termination (gather / wait) before it "
                  "forgets them" if ok_cancel and ok_wait and order else
                  f"cleanup_tasks: cancel loop {ok_cancel}, awaited termination {ok_wait}, in that order before clear() {order}"))
    return out


def run(tier, seed, repo):
    obs = stop_drains_siblings(repo)
    n = attach(obs, "", "C04", "runner_stop_drain.py", repo)
    return {
        "obligations": obs, "native_evaluations": n,
        "functions": [{"function": f"{MOD}.{CLS}.run / cleanup_tasks (a StopEvent result drains the sibling workers before "
                                   f"it is buffered)", "backend": "ast"}],
        "assumptions": [
            "runner side of C04, structural: the worker whose result carries the StopEvent is processed by run(), which "
            "awaits cleanup_tasks() - cancel every worker task, then wait for all of them - before the result's tick is "
            "buffered and reduced; a cancelled task that has finished cannot publish any more (asyncio task semantics, "
            "assumed); the 0.5 s bound of the wait in cleanup_tasks and everything else in run() (scheduling, queues) is "
            "not covered",
        ],
    }
