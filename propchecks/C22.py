"""C22: who may be inside a dependency resolution (decided on the AST of the real ResourceManager and of the step-level
call site), replayed / cross-checked by randomly interleaved, cancelled and failing resolutions on the real classes
(scenarios/resource_scenario.py, bounded).  The sequential contracts (`_get`, `set`, `get#with1`,
`resolution_scope#enter/#exit`, `_resolution_lock`) are SMT obligations (specs/resource.py)."""
import os
import subprocess


def run(tier, seed, repo):
    from pyvc.astcheck import exclusive_resolution_structure
    from pyvc.extract import Repo
    obs = exclusive_resolution_structure(Repo(repo))
    verif = os.path.dirname(os.path.dirname(os.path.abspath(__file__)))
    py = os.path.join(verif, ".venv", "bin", "python")
    scen = os.path.join(verif, "scenarios", "resource_scenario.py")
    n = 400 if tier == "quick" else 20000
    try:
        p = subprocess.run([py, scen, str(n), str(seed)], capture_output=True, text=True,
                           env=dict(os.environ, VERIF_REPO=repo), timeout=1800)
        rc, tail = p.returncode, (p.stdout.strip()[-700:] + (" " + p.stderr.strip()[-300:] if p.returncode not in (0, 1) else ""))
    except subprocess.TimeoutExpired:
        rc, tail = 1, "the scenario did not finish within its time limit (a resolution never returned: deadlock)"
    failed = [o for o in obs if o["status"] != "proved"]
    rp = None
    if rc == 1:
        rp = os.path.join(os.environ.get("VERIF_OUT") or os.path.join(verif, "out"), "replay", "C22-resource_scenario.sh")
        os.makedirs(os.path.dirname(rp), exist_ok=True)
        with open(rp, "w") as f:
            f.write("#!/bin/sh\n# failed obligation(s): " + "; ".join(o["id"] for o in failed) +
                    " workflows.resource.ResourceManager/bounded:interleaved-resolutions" +
                    f"\nVERIF_REPO={repo} exec {py} {scen} {n} {seed}\n")
        os.chmod(rp, 0o755)
    for o in failed:
        if rp:
            o["replay"] = rp
            o["detail"] += f"\nnative scenario: {tail}"
        else:
            o["detail"] += f"\nnative scenario ({n} schedules) found no failing schedule: {tail}"
    # the bounded stand-in for the composition: the property's own observations (identity of injected objects,
    # factory completions, no cycle error without a cycle, nothing left behind) on the real classes under random
    # schedules.  A failing schedule is a counterexample against the real code, whatever the structure says.
    sc = {"id": "workflows.resource.ResourceManager/bounded:interleaved-resolutions",
          "status": "proved" if rc == 0 else ("refuted" if rc == 1 else "error"), "backend": "native-bounded",
          "detail": f"{n} random schedules of concurrently resolving, cancelled and failing steps: {tail}", "line": 0}
    if rp:
        sc["replay"] = rp
    obs.append(sc)
    return {
        "obligations": obs, "native_evaluations": n,
        "coverage_extra": {"bounded_not_proved": [
            "workflows.resource.ResourceManager/bounded:interleaved-resolutions: %d random schedules of 2-4 concurrently "
            "resolving steps (cancellations, one failing factory) on the real classes - the composition of the proved "
            "pieces under concurrency is checked on these schedules only" % n]},
        "functions": [{"function": "workflows.resource.ResourceManager.exclusive_resolution / get / class body "
                                   "(lock discipline, re-entrancy by task identity, confinement of the bookkeeping)",
                       "backend": "ast"},
                      {"function": "workflows.runtime.types.step_function.partial (one exclusive resolution per step)",
                       "backend": "ast"}],
        "assumptions": [
            "asyncio.Lock gives mutual exclusion between acquire and release; `async with lock` releases exactly what "
            "it acquired, also on cancellation; code between two awaits of one task is atomic; "
            "asyncio.current_task() identifies the running task (assumed library contracts)",
            "composition (NOT machine-checked, a rely/guarantee argument over the proved pieces): every access to "
            "_resolving / _resolution_cache / _resolution_depth is in _get or resolution_scope (AST); those run only "
            "inside exclusive_resolution (AST: get, partial, scope entered only there), i.e. either while the task "
            "holds the manager lock or while it is the recorded owner, which is recorded and cleared under the lock "
            "(AST); so at most one task is inside at any time, the fields are its private state, and the sequential "
            "contracts of _get / resolution_scope (z3) describe every resolution: a cycle error only for a name on "
            "this resolution's own chain, a cached resource created at most once, a non-cached value dropped when "
            "the outermost scope of that step ends (before the lock is released)",
            "BOUNDED, not proved: the interleaving scenarios (random schedules of 2-4 concurrently resolving steps "
            "with cancellations and a failing factory on the real classes) are a bounded native cross-check of this "
            "composition, not a proof; three sequential cases run with them (a genuine cycle closed through fresh "
            "descriptor objects is reported as a cycle; cached resources are per manager, also as dependencies, when "
            "descriptors are shared by several managers; a failed nested factory followed by the same graph again)",
            "a factory that starts ANOTHER task which resolves through the same manager and waits for it is outside "
            "the contract (it would wait for its own lock); user-written ResourceDescriptor classes are assumed to "
            "keep the resolution guarantee (specs/resource.py: DescriptorResolve)",
        ],
    }
