"""Import helper for the llama_agents.* packages of a source tree (no starlette / sqlalchemy needed).

usage (at the top of a demo):
    import la_shim; la_shim.setup("/tmp/wt/C24")      # the worktree root
    from llama_agents.server._store.memory_workflow_store import MemoryWorkflowStore
"""
import os, sys, types


def setup(tree: str):
    tree = os.environ.get("SEEDED_TREE", tree)  # lets a stored demo run against any copy of the repository
    for d in ("packages/llama-index-workflows/src", "packages/llama-agents-core/src", "packages/llama-agents-client/src"):
        p = os.path.join(tree, d)
        if p not in sys.path:
            sys.path.insert(0, p)
    pkg = types.ModuleType("llama_agents")
    pkg.__path__ = [os.path.join(tree, d, "llama_agents") for d in (
        "packages/llama-agents-server/src", "packages/llama-agents-core/src", "packages/llama-agents-client/src",
        "packages/llama-agents-control-plane/src", "packages/llama-agents-dbos/src", "packages/llamactl/src",
        "packages/llama-agents-agentcore/src") if os.path.isdir(os.path.join(tree, d, "llama_agents"))]
    sys.modules["llama_agents"] = pkg
    m = types.ModuleType("llama_agents.server")
    m.__path__ = [os.path.join(tree, "packages/llama-agents-server/src", "llama_agents", "server")]
    sys.modules["llama_agents.server"] = m
