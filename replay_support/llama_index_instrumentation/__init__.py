"""No-op stand-in for llama_index_instrumentation (absent from this sandbox).
Used only to import the real `workflows` package for native replay / cross-checking."""
from .dispatcher import Dispatcher, get_dispatcher  # noqa
