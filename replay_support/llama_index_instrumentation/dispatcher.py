from contextlib import contextmanager
from contextvars import ContextVar

active_instrument_tags: ContextVar[dict] = ContextVar("active_instrument_tags", default={})


@contextmanager
def instrument_tags(tags):
    tok = active_instrument_tags.set(dict(tags))
    try:
        yield
    finally:
        active_instrument_tags.reset(tok)


class Dispatcher:
    def span(self, fn):
        return fn

    def event(self, *a, **k):
        pass

    def span_enter(self, *a, **k):
        pass

    def span_exit(self, *a, **k):
        pass

    def span_drop(self, *a, **k):
        pass

    def capture_propagation_context(self, *a, **k):
        return {}

    def restore_propagation_context(self, *a, **k):
        pass

    def add_event_handler(self, *a, **k):
        pass

    def add_span_handler(self, *a, **k):
        pass


_D = Dispatcher()


def get_dispatcher(name=None):
    return _D
