class SHA256:
    name = "sha256"
