import hashlib
import hmac

from cryptography.exceptions import InvalidTag


class AESGCM:
    def __init__(self, key: bytes):
        self._key = key

    def _stream(self, nonce, n):
        out, i = b"", 0
        while len(out) < n:
            out += hashlib.sha256(self._key + nonce + i.to_bytes(4, "big")).digest()
            i += 1
        return out[:n]

    def encrypt(self, nonce, data, associated_data):
        ct = bytes(a ^ b for a, b in zip(data, self._stream(nonce, len(data))))
        tag = hmac.new(self._key, nonce + ct + (associated_data or b""), hashlib.sha256).digest()[:16]
        return ct + tag

    def decrypt(self, nonce, data, associated_data):
        if len(data) < 16:
            raise InvalidTag()
        ct, tag = data[:-16], data[-16:]
        want = hmac.new(self._key, nonce + ct + (associated_data or b""), hashlib.sha256).digest()[:16]
        if not hmac.compare_digest(tag, want):
            raise InvalidTag()
        return bytes(a ^ b for a, b in zip(ct, self._stream(nonce, len(ct))))
