import hashlib


class PBKDF2HMAC:
    def __init__(self, algorithm, length, salt, iterations):
        self._length, self._salt = length, salt

    def derive(self, key_material: bytes) -> bytes:
        # deterministic in (password, salt); the iteration count (cost) is not reproduced
        return hashlib.pbkdf2_hmac("sha256", key_material, self._salt, 1, self._length)
