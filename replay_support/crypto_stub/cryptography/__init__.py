"""STAND-IN for the `cryptography` package (absent from this sandbox), used only by the bounded C33 check.

It has the ASSUMED contracts of the three primitives encryption.py uses - PBKDF2HMAC.derive is a deterministic function
of (password, salt, length), AESGCM is an authenticated cipher (decrypt(nonce, encrypt(nonce, p)) == p under the same
key, InvalidTag under any other key / nonce or for tampered data) - and none of their cryptographic strength."""
