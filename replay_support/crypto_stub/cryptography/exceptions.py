class InvalidTag(Exception):
    pass
