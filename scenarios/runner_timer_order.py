"""C31 / m1 demo: a run whose StopEvent-producing step finished well before the
timeout must not be timed out, even if the event loop is busy (another step
hogging the thread) at the moment the control loop gets to look at the result.

Scenario (single event loop, real package, default BasicRuntime):
  * workflow timeout = 0.4s
  * StartEvent fans out to two steps that both park on an asyncio.Event `go`
      - `finisher` returns StopEvent("done") as soon as `go` is set
      - `hog`      does 0.8s of blocking (CPU-style) work as soon as `go` is set,
                   then parks forever
  * `finisher` is registered as a waiter on `go` before `hog`, so when the test
    sets `go` the event loop runs: finisher (returns StopEvent, t ~ 0.0x s),
    then hog (blocks the thread until t ~ 0.8s), and only then the control loop
    wakes up.  At that point the finished worker AND the elapsed timeout are both
    visible to the control loop.

Expected (property C31): result "done", no WorkflowTimeoutError, no
WorkflowTimedOutEvent on the stream.
"""

from __future__ import annotations
# Native scenario of /verif (replay / cross-check of a structural obligation on _ControlLoopRunner.run).
# Origin: the demonstration a sub-agent wrote for seeded change C31-m1 (it saw only the property text); kept here
# because it is a deterministic observation of the property on the real package.  exit 0 holds / 1 violated
import os as _os, sys as _sys
_VERIF = _os.path.dirname(_os.path.dirname(_os.path.abspath(__file__)))
_sys.path[:0] = [_os.path.join(_VERIF, "replay_support"),
                 _os.path.join(_os.environ.get("VERIF_REPO", "/repo"), "packages/llama-index-workflows/src")]

import asyncio
import sys
import time

from workflows import Context, Workflow, step
from workflows.errors import WorkflowTimeoutError
from workflows.events import Event, StartEvent, StopEvent, WorkflowTimedOutEvent

TIMEOUT = 0.4
HOG_SECONDS = 0.8


async def scenario() -> tuple[str, str]:
    go = asyncio.Event()
    finisher_parked = asyncio.Event()
    hog_parked = asyncio.Event()
    marks: dict[str, float] = {}

    class W(Workflow):
        @step
        async def finisher(self, ev: StartEvent) -> StopEvent:
            finisher_parked.set()
            await go.wait()  # registered on `go` first
            marks["finisher_returned"] = time.monotonic()
            return StopEvent(result="done")

        @step
        async def hog(self, ev: StartEvent) -> None:
            await finisher_parked.wait()  # guarantees we queue on `go` second
            hog_parked.set()
            await go.wait()
            marks["hog_started"] = time.monotonic()
            time.sleep(HOG_SECONDS)  # blocking work, event loop is stuck
            marks["hog_released"] = time.monotonic()
            await asyncio.sleep(30)
            return None

    wf = W(timeout=TIMEOUT)
    t0 = time.monotonic()
    handler = wf.run()

    streamed: list[Event] = []

    async def collect() -> None:
        async for ev in handler.stream_events():
            streamed.append(ev)

    collector = asyncio.create_task(collect())

    await asyncio.wait_for(hog_parked.wait(), timeout=5)
    go.set()

    outcome: str
    try:
        result = await handler
        outcome = f"result={result!r}"
    except WorkflowTimeoutError as e:
        outcome = f"WorkflowTimeoutError: {e}"
    try:
        await asyncio.wait_for(collector, timeout=2)
    except Exception:
        collector.cancel()

    fin = marks.get("finisher_returned")
    if fin is None or fin - t0 >= TIMEOUT * 0.75:
        return "INCONCLUSIVE", (
            f"precondition not met: finisher returned at {None if fin is None else fin - t0:.3f}s"
        )
    if "hog_started" in marks and marks["hog_started"] < fin:
        return "INCONCLUSIVE", "hog ran before finisher; ordering precondition not met"

    timed_out_events = [e for e in streamed if isinstance(e, WorkflowTimedOutEvent)]
    detail = (
        f"finisher returned StopEvent at t={fin - t0:.3f}s (timeout {TIMEOUT}s); "
        f"hog blocked loop until t={marks.get('hog_released', float('nan')) - t0:.3f}s; "
        f"outcome: {outcome}; WorkflowTimedOutEvent on stream: {timed_out_events}"
    )
    ok = outcome == "result='done'" and not timed_out_events
    return ("PASS" if ok else "FAIL"), detail


def main() -> int:
    verdict, detail = asyncio.run(scenario())
    print(detail)
    print(verdict)
    return 0 if verdict == "PASS" else (2 if verdict == "INCONCLUSIVE" else 1)


if __name__ == "__main__":
    sys.exit(main())
