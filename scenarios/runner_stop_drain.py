"""C04 / m1 demo: nothing may be published after the terminal StopEvent.

Workflow: two steps consume the StartEvent concurrently.
  * `finisher` returns the StopEvent after a short delay.
  * `side_job` is a long running step that reports progress on the stream and,
    when it is cancelled (because the run is over), reports that too from its
    `except CancelledError` / cleanup block - a perfectly ordinary pattern.

Property checked (C04): the sequence of events published for the run ends with
exactly one terminal event, and nothing is published after it.

Exit code 0 / "PASS" when the property holds, 1 / "FAIL" otherwise.
"""

from __future__ import annotations
# Native scenario of /verif (replay / cross-check of a structural obligation on _ControlLoopRunner.run).
# Origin: the demonstration a sub-agent wrote for seeded change C04-m1 (it saw only the property text); kept here
# because it is a deterministic observation of the property on the real package.  exit 0 holds / 1 violated
import os as _os, sys as _sys
_VERIF = _os.path.dirname(_os.path.dirname(_os.path.abspath(__file__)))
_sys.path[:0] = [_os.path.join(_VERIF, "replay_support"),
                 _os.path.join(_os.environ.get("VERIF_REPO", "/repo"), "packages/llama-index-workflows/src")]

import asyncio
import sys

from workflows import Context, Workflow, step
from workflows.events import Event, StartEvent, StopEvent


class Progress(Event):
    msg: str


class Done(StopEvent):
    """a custom stop event: terminal like StopEvent itself (added to the scenario after an independent seeded change
    that recognised only the plain class)"""


class _Race(Workflow):
    @step
    async def side_job(self, ctx: Context, ev: StartEvent) -> None:
        ctx.write_event_to_stream(Progress(msg="side_job started"))
        try:
            await asyncio.sleep(30)
        except asyncio.CancelledError:
            # tell stream consumers that the side job was interrupted
            ctx.write_event_to_stream(Progress(msg="side_job interrupted"))
            raise
        return None


class RaceWorkflow(_Race):
    @step
    async def finisher(self, ctx: Context, ev: StartEvent) -> StopEvent:
        await asyncio.sleep(0.05)
        return StopEvent(result="done")


class RaceWorkflowCustomStop(_Race):
    @step
    async def finisher(self, ctx: Context, ev: StartEvent) -> Done:
        await asyncio.sleep(0.05)
        return Done(result="done")

async def main(cls=None) -> int:
    wf = (cls or RaceWorkflow)(timeout=10)
    handler = wf.run()

    seen: list[Event] = []

    async def consume() -> None:
        async for ev in handler.stream_events():
            seen.append(ev)

    await asyncio.wait_for(consume(), timeout=10)
    result = await asyncio.wait_for(handler, timeout=10)
    # let any straggling fire-and-forget writers run
    await asyncio.sleep(0.2)

    # Whatever is still sitting in the run's publish queue was published AFTER
    # the terminal event that closed the consumer's stream.
    queue = handler._external_adapter._queues.publish_queue  # type: ignore[attr-defined]
    late: list[Event] = []
    while not queue.empty():
        late.append(queue.get_nowait())

    published = seen + late
    terminal_idx = [i for i, e in enumerate(published) if isinstance(e, StopEvent)]

    print("result:", result)
    print("consumer saw :", [_fmt(e) for e in seen])
    print("published after the stream closed:", [_fmt(e) for e in late])

    ok = True
    if getattr(result, "result", result) != "done":
        print("unexpected result")
        ok = False
    if len(terminal_idx) != 1:
        print(f"expected exactly one terminal event, got {len(terminal_idx)}")
        ok = False
    elif terminal_idx[0] != len(published) - 1:
        print(
            "terminal StopEvent is NOT the last published event: "
            f"{len(published) - 1 - terminal_idx[0]} event(s) were published after it"
        )
        ok = False
    if not any(isinstance(e, Progress) and "interrupted" in e.msg for e in published):
        print("demo precondition not met: side_job never reported its interruption")
        ok = False

    print("PASS" if ok else "FAIL")
    return 0 if ok else 1


def _fmt(e: Event) -> str:
    if isinstance(e, Progress):
        return f"Progress({e.msg})"
    return type(e).__name__


if __name__ == "__main__":
    rc = asyncio.run(main(RaceWorkflow))
    rc2 = asyncio.run(main(RaceWorkflowCustomStop))
    sys.exit(1 if (rc or rc2) else 0)
