"""Native scenarios for C22 on the REAL ResourceManager, `_Resource` and step-level call site (`partial`):
randomly interleaved, cancelled and failing step resolutions (bounded; the replay of the structural obligations of
propchecks/C22.py and their cross-check).   usage: resource_scenario.py <n_schedules> [seed]   exit 0 ok / 1 violated"""
import asyncio
import os
import random
import sys
from types import SimpleNamespace
from typing import Annotated

VERIF = os.path.dirname(os.path.dirname(os.path.abspath(__file__)))
REPO = os.environ.get("VERIF_REPO", "/repo")
sys.path[:0] = [os.path.join(VERIF, "replay_support"), os.path.join(REPO, "packages/llama-index-workflows/src")]

from workflows.resource import Resource, ResourceDefinition, ResourceManager  # noqa: E402
from workflows.runtime.types.step_function import partial  # noqa: E402


class Obj:
    n = 0

    def __init__(self, kind, parts=()):
        Obj.n += 1
        self.kind, self.parts, self.serial = kind, parts, Obj.n

    def __repr__(self):
        return f"{self.kind}#{self.serial}"


async def run_schedule(seed: int):
    rng = random.Random(seed)
    completed = {"cached": 0, "fresh": 0, "combo": 0}
    fail_fresh_once = [rng.random() < 0.3]

    async def pause():
        for _ in range(rng.randrange(0, 4)):
            await asyncio.sleep(0)

    async def cached():
        await pause()
        completed["cached"] += 1
        return Obj("cached")

    async def fresh():
        await pause()
        if fail_fresh_once[0]:
            fail_fresh_once[0] = False
            raise RuntimeError("fresh factory failed (injected)")
        completed["fresh"] += 1
        return Obj("fresh")

    r_cached = Resource(cached, cache=True)
    r_fresh = Resource(fresh, cache=False)

    async def combo(c: Annotated[Obj, r_cached], f: Annotated[Obj, r_fresh]):
        await pause()
        completed["combo"] += 1
        return Obj("combo", (c, f))

    r_combo = Resource(combo, cache=False)
    manager = ResourceManager()
    wf = SimpleNamespace(_resource_manager=manager)
    menus = [[("f", r_fresh), ("k", r_combo)], [("k", r_combo), ("c", r_cached), ("f", r_fresh)],
             [("c", r_cached)], [("f", r_fresh), ("c", r_cached)]]

    async def step(i):
        await pause()
        cfg = SimpleNamespace(event_name="ev", context_parameter=None,
                              resources=[ResourceDefinition(name=n, resource=r) for n, r in menus[rng.randrange(len(menus))]])
        p = await partial(lambda **kw: None, cfg, object(), None, wf)
        return dict(p.keywords)

    n_steps = rng.choice([2, 3, 3, 4])
    tasks = [asyncio.ensure_future(step(i)) for i in range(n_steps)]
    for t in tasks:
        if rng.random() < 0.25:
            async def killer(t=t):
                for _ in range(rng.randrange(0, 8)):
                    await asyncio.sleep(0)
                t.cancel()
            asyncio.ensure_future(killer())
    results = await asyncio.gather(*tasks, return_exceptions=True)
    await asyncio.sleep(0)
    problems = []
    ok = [r for r in results if isinstance(r, dict)]
    for r in results:
        if isinstance(r, BaseException) and not isinstance(r, asyncio.CancelledError) \
                and "fresh factory failed (injected)" not in str(r):
            problems.append(f"a step failed with {type(r).__name__}: {r} (no dependency cycle exists)")
    cached_seen = {id(o): o for r in ok for o in ([r["c"]] if "c" in r else []) + ([r["k"].parts[0]] if "k" in r else [])}
    if len(cached_seen) > 1:
        problems.append(f"steps were handed different objects for the cached resource: {list(cached_seen.values())}")
    if completed["cached"] > 1:
        problems.append(f"the cached factory completed {completed['cached']} times on one manager")
    fresh_by_step = []
    for r in ok:
        mine = ([r["f"]] if "f" in r else []) + ([r["k"].parts[1]] if "k" in r else [])
        if len({id(o) for o in mine}) > 1:
            problems.append(f"one dependency resolution saw two different non-cached objects: {mine}")
        fresh_by_step.append({id(o): o for o in mine})
    for i in range(len(fresh_by_step)):
        for j in range(i + 1, len(fresh_by_step)):
            both = set(fresh_by_step[i]) & set(fresh_by_step[j])
            if both:
                problems.append(f"two step invocations share the non-cached object {fresh_by_step[i][both.pop()]}")
    combos = [r["k"] for r in ok if "k" in r]
    if len({id(k) for k in combos}) != len(combos):
        problems.append("two step invocations share one non-cached composite resource")
    if manager._resolving or manager._resolution_cache or manager._resolution_depth or getattr(manager, "_owner", None) is not None \
            or (getattr(manager, "_lock", None) is not None and manager._lock.locked()):
        problems.append(f"bookkeeping left behind: chain={manager._resolving} scope={manager._resolution_cache} "
                        f"depth={manager._resolution_depth} owner={getattr(manager, '_owner', None)}")
    # one more, sequential, resolution on the same manager must still work (no stale chain, no held lock)
    fail_fresh_once[0] = False
    try:
        cfg = SimpleNamespace(event_name="ev", context_parameter=None,
                              resources=[ResourceDefinition(name="k", resource=r_combo)])
        await asyncio.wait_for(partial(lambda **kw: None, cfg, object(), None, wf), 2)
    except Exception as e:  # noqa
        problems.append(f"a later resolution on the same manager failed: {type(e).__name__}: {e}")
    return problems


CYCLE_SRC = """
from __future__ import annotations
from typing import Annotated
from workflows.resource import Resource

def make_x(y: Annotated[object, Resource(make_y)]):
    return object()

def make_y(x: Annotated[object, Resource(make_x)]):
    return object()
"""


async def sequential_cases():
    """graph shapes and multi-step sequences that need no interleaving (run once per invocation)"""
    problems = []
    # (1) a genuine cycle whose descriptors are fresh objects at every level (deferred annotations: typing evaluates
    #     `Resource(make_y)` anew on each inspection): it must be REPORTED, as a cycle error
    ns = {"__name__": "c22_cycle_module"}
    exec(compile(CYCLE_SRC, "<c22_cycle_module>", "exec"), ns)
    mgr = ResourceManager()
    try:
        await asyncio.wait_for(mgr.get(Resource(ns["make_x"])), 5)
        problems.append("a genuine dependency cycle (make_x -> make_y -> make_x) returned a value")
    except ValueError as e:
        if "ircular" not in str(e):
            problems.append(f"a genuine cycle raised ValueError without naming a cycle: {e}")
    except BaseException as e:  # noqa
        problems.append(f"a genuine dependency cycle was not reported as such: {type(e).__name__}: {str(e)[:80]}")
    if mgr._resolving or mgr._resolution_depth or mgr._resolution_cache:
        problems.append(f"bookkeeping left behind by a reported cycle: chain={mgr._resolving} depth={mgr._resolution_depth}")
    # (2) descriptors are shared by all instances of a workflow class, managers are per instance: a cached resource is
    #     created once PER MANAGER, also when it is reached only as a dependency of another resource
    made = []

    def make_db():
        made.append("db")
        return Obj("db")

    r_db = Resource(make_db, cache=True)

    def make_repo(db: Annotated[Obj, r_db]):
        return Obj("repo", (db,))

    r_repo = Resource(make_repo, cache=False)
    seen = []
    for _ in range(3):
        m = ResourceManager()
        wf = SimpleNamespace(_resource_manager=m)
        cfg = SimpleNamespace(event_name="ev", context_parameter=None,
                              resources=[ResourceDefinition(name="repo", resource=r_repo),
                                         ResourceDefinition(name="db", resource=r_db)])
        kw = (await partial(lambda **kw: None, cfg, object(), None, wf)).keywords
        if kw["repo"].parts[0] is not kw["db"]:
            problems.append("a step was handed a cached resource that differs from the one its other resource was built on")
        seen.append(kw["db"])
        cfg2 = SimpleNamespace(event_name="ev", context_parameter=None,
                               resources=[ResourceDefinition(name="repo", resource=r_repo)])
        kw2 = (await partial(lambda **kw: None, cfg2, object(), None, wf)).keywords
        if kw2["repo"] is kw["repo"]:
            problems.append("a non-cached resource was reused by a later step invocation")
        if kw2["repo"].parts[0] is not kw["db"]:
            problems.append("a later step's non-cached resource was not built on the manager's cached resource")
    if len({id(o) for o in seen}) != 3 or len(made) != 3:
        problems.append(f"cached resources are not per manager: {len(made)} factory calls, objects {seen} for 3 managers")
    # (3) a failing factory half-way through a nested graph, then the same graph again on the same manager
    state = {"fail": True}

    def leaf():
        if state["fail"]:
            state["fail"] = False
            raise RuntimeError("leaf failed (injected)")
        return Obj("leaf")

    r_leaf = Resource(leaf, cache=True)

    def mid(x: Annotated[Obj, r_leaf]):
        return Obj("mid", (x,))

    r_mid = Resource(mid, cache=True)
    m = ResourceManager()
    try:
        await m.get(r_mid)
        problems.append("the injected factory failure was swallowed")
    except RuntimeError:
        pass
    try:
        v = await m.get(r_mid)
        if v.parts[0] is not await m.get(r_leaf):
            problems.append("after a failed resolution the cached dependency and the injected one differ")
    except Exception as e:  # noqa
        problems.append(f"a resolution after a failed one failed: {type(e).__name__}: {e}")
    return problems


def main():
    n = int(sys.argv[1]) if len(sys.argv) > 1 else 300
    seed = int(sys.argv[2]) if len(sys.argv) > 2 else 1
    bad = 0
    seq = asyncio.run(sequential_cases())
    if seq:
        bad += 1
        print("sequential cases: " + " | ".join(seq[:3]))
    for k in range(n):
        problems = asyncio.run(run_schedule(seed * 100003 + k))
        if problems:
            bad += 1
            if bad <= 3:
                print(f"schedule {seed * 100003 + k}: " + " | ".join(problems[:3]))
    print(f"{n} schedules, {bad} violating")
    return 1 if bad else 0


if __name__ == "__main__":
    sys.exit(main())
