"""Native scenarios against the REAL state stores (used as replay when a lock / ownership obligation fails)."""
import asyncio
import os
import sys
import tempfile

VERIF = os.path.dirname(os.path.dirname(os.path.abspath(__file__)))
sys.path.insert(0, VERIF)
from pyvc import native  # noqa: E402

native.setup_paths()


def _sqlite_store(single_connection=False):
    from llama_agents.server._store.sqlite.sqlite_workflow_store import SqliteWorkflowStore
    d = tempfile.mkdtemp(prefix="verif_sq_")
    ws = SqliteWorkflowStore(os.path.join(d, "db.sqlite"), single_connection=single_connection)
    return ws, ws.create_state_store("run-1")


def _mem_store():
    from workflows.context.state_store import DictState, InMemoryStateStore
    return InMemoryStateStore(DictState())


async def lost_update(store):
    """C20: an edit_state block that started before a completed set_state must not silently overwrite it."""
    from workflows.context.state_store import DictState

    async def t1():
        async with store.edit_state() as s:
            await asyncio.sleep(0.05)
            s["a"] = 1

    async def t2():
        await asyncio.sleep(0.01)
        await store.set_state(DictState(b=2))

    await asyncio.gather(t1(), t2())
    final = (await store.get_state()).to_dict()
    serial = [{"b": 2}, {"a": 1, "b": 2}]  # t1;t2  or  t2;t1
    return final in serial, final


async def two_edits(store):
    """C20: two concurrent read-modify-write blocks on one store must both take effect (n ends at 2)."""
    await store.set("n", 0)

    async def bump(delay):
        await asyncio.sleep(delay)
        async with store.edit_state() as s:
            await asyncio.sleep(0.03)
            s["n"] = s["n"] + 1

    await asyncio.gather(bump(0.0), bump(0.01))
    final = (await store.get_state()).to_dict()
    return final.get("n") == 2, final


def single_connection_survives():
    """C21: a single-connection store keeps working after the state store has been used."""
    async def go():
        ws, st = _sqlite_store(single_connection=True)
        await st.set("k", 1)
        v1 = await st.get("k")
        await st.set("j", 2)
        st2 = ws.create_state_store("run-2")
        await st2.set("x", 3)
        ok = v1 == 1 and (await st.get("j")) == 2 and (await st2.get("x")) == 3
        # a third run seeded from the first run's stored state (what a re-run from a previous context does), then
        # every store keeps answering
        from workflows.context.serializers import JsonSerializer
        st3 = ws.create_state_store("run-3", None, {"store_type": "sqlite", "run_id": st.run_id}, JsonSerializer())
        await st3.set("y", 4)
        return ok and (await st3.get("y")) == 4 and (await st.get("k")) == 1 and (await st2.get("x")) == 3

    try:
        return asyncio.run(go()), "ok"
    except Exception as e:  # sqlite3.ProgrammingError: Cannot operate on a closed database.
        return False, f"{type(e).__name__}: {e}"


def terminal_mid_batch(kind):
    """C16: a subscription ends right after the FIRST terminal event even when later records are already stored
    (a second adapter of the same run, a late publisher): nothing numbered above the terminal event is delivered."""
    from llama_agents.client.protocol.serializable_events import EventEnvelopeWithMetadata
    from llama_agents.server._store.memory_workflow_store import MemoryWorkflowStore
    from llama_agents.server._store.sqlite.sqlite_workflow_store import SqliteWorkflowStore
    from workflows.events import Event, StopEvent

    async def go():
        if kind == "sqlite":
            d = tempfile.mkdtemp(prefix="verif_sq_")
            store = SqliteWorkflowStore(os.path.join(d, "db.sqlite"), poll_interval=0.05)
        else:
            store = MemoryWorkflowStore()
        for ev in (Event(n=0), Event(n=1), StopEvent(result="done"), Event(n=3)):
            await store.append_event("run-1", EventEnvelopeWithMetadata.from_event(ev))
        seen = []

        async def drain():
            async for rec in store.subscribe_events("run-1", after_sequence=-1):
                seen.append(rec.sequence)

        try:
            await asyncio.wait_for(drain(), timeout=2.0)
            finished = True
        except asyncio.TimeoutError:
            finished = False
        return finished and seen == [0, 1, 2], f"delivered {seen}, finished={finished}"

    try:
        return asyncio.run(go())
    except Exception as e:  # noqa
        return False, f"{type(e).__name__}: {e}"


def main(argv):
    which = argv[0]
    if which == "lost_update_sqlite":
        ok, final = asyncio.run(lost_update(_sqlite_store()[1]))
    elif which == "lost_update_memory":
        ok, final = asyncio.run(lost_update(_mem_store()))
    elif which == "two_edits_sqlite":
        ok, final = asyncio.run(two_edits(_sqlite_store()[1]))
    elif which == "two_edits_memory":
        ok, final = asyncio.run(two_edits(_mem_store()))
    elif which == "single_connection":
        ok, final = single_connection_survives()
    elif which in ("terminal_mid_batch_sqlite", "terminal_mid_batch_memory"):
        ok, final = terminal_mid_batch(which.rsplit("_", 1)[1])
    else:
        print("unknown scenario")
        return 3
    print(f"scenario {which}: {'PASS' if ok else 'FAIL'} ({final})")
    return 0 if ok else 1


if __name__ == "__main__":
    sys.exit(main(sys.argv[1:]))
