"""C05 scenario: a step that fails twice under retry_policy(stop=stop_after_delay(30)) must be retried (the retry window
is measured on one clock).  exit 0 = retried and completed, 1 = the run failed without using its retry window."""
import asyncio
import os
import sys

VERIF = os.path.dirname(os.path.dirname(os.path.abspath(__file__)))
sys.path.insert(0, VERIF)
from pyvc import native  # noqa: E402

native.setup_paths(os.environ.get("VERIF_REPO", "/repo"))

from workflows import Workflow, step  # noqa: E402
from workflows.events import StartEvent, StopEvent  # noqa: E402
from workflows.retry_policy import retry_policy, stop_after_delay, wait_fixed  # noqa: E402

calls = {"n": 0}


class W(Workflow):
    @step(retry_policy=retry_policy(wait=wait_fixed(0.01), stop=stop_after_delay(30)))
    async def s(self, ev: StartEvent) -> StopEvent:
        calls["n"] += 1
        if calls["n"] < 3:
            raise RuntimeError("flaky")
        return StopEvent(result=calls["n"])


async def main():
    try:
        r = await W(timeout=20).run()
        return r == 3, f"result={r} after {calls['n']} attempts"
    except Exception as e:  # noqa
        return False, f"{type(e).__name__}: {e} after {calls['n']} attempt(s)"


if __name__ == "__main__":
    ok, what = asyncio.run(main())
    print(f"scenario retry_window_clock: {'PASS' if ok else 'FAIL'} ({what})")
    sys.exit(0 if ok else 1)
