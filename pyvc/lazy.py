"""Comprehensions, generator expressions, quantified builtins (mixin of Engine)."""
from __future__ import annotations

import ast
import itertools
from contextlib import contextmanager

import z3

from . import ty as T
from .sorts import Unsupported
from .values import SV, DictView, EnumerateV, LazySeq, PyTuple, RangeV, Ref

_lc = itertools.count(1)


class LazyMixin:
    # ----------------------------------------------------------- binders
    @contextmanager
    def binder(self, vars_, guards):
        old_facts = self.facts
        self.facts = []
        self.binders.append({"vars": list(vars_), "guards": list(guards)})
        try:
            yield self.facts
        finally:
            self.binders.pop()
            self.facts = old_facts

    @contextmanager
    def scope(self, bindings: dict, env: dict | None = None):
        old = self.st.env
        self.st.env = dict(env if env is not None else old)
        self.st.env.update(bindings)
        try:
            yield
        finally:
            self.st.env = old

    def in_pure_mode(self) -> bool:
        return bool(self.spec_mode or self.binders)

    # ------------------------------------------------------------ domains
    def domain(self, src, hint="v"):
        """-> (var, in_domain, element value, position term or None, size term or None)"""
        n = next(_lc)
        if isinstance(src, LazySeq):
            src = self.materialize(src)
        if isinstance(src, PyTuple):
            src = self.coerce(src, T.List(self._join_all([x.ty for x in src.items])))
        if isinstance(src, RangeV):
            i = z3.Const(f"{hint}${len(self.binders)}",z3.IntSort())
            return i, z3.And(src.lo <= i, i < src.hi), SV(i, T.INT), i, z3.If(src.hi > src.lo, src.hi - src.lo, 0)
        if isinstance(src, EnumerateV):
            i, dom, el, pos, size = self.domain(src.seq, hint)
            return i, dom, PyTuple([SV(pos, T.INT), el]), pos, size
        if isinstance(src, DictView):
            d = src.d
            if d.term is None:
                k = z3.Const(f"{hint}${len(self.binders)}",z3.IntSort())
                return k, z3.BoolVal(False), SV(None, T.NONE), k, z3.IntVal(0)
            kt, vt = d.ty.args
            k = z3.Const(f"{hint}${len(self.binders)}",self.w.sort(kt))
            _, has, val = self.dct(d)
            size, order, posf = self.dict_order(d, src.sorted_)
            ksv = SV(k, kt)
            vsv = SV(z3.Select(val(d.term), k), vt, ref=d.ref.ext(("k", k)) if d.ref else None)
            el = {"items": PyTuple([ksv, vsv]), "keys": ksv, "values": vsv}[src.kind]
            return k, z3.Select(has(d.term), k), el, posf(d.term, k), size
        if isinstance(src, SV) and src.ty.kind == "list":
            i = z3.Const(f"{hint}${len(self.binders)}",z3.IntSort())
            if src.term is None:
                return i, z3.BoolVal(False), SV(None, T.NONE), i, z3.IntVal(0)
            ln = self.list_len(src)
            el = SV(self.list_get(src, i), src.ty.args[0], ref=src.ref.ext(("i", i)) if src.ref else None)
            return i, z3.And(0 <= i, i < ln), el, i, ln
        if isinstance(src, SV) and src.ty.kind == "dict":
            return self.domain(DictView("keys", src), hint)
        if isinstance(src, SV) and src.ty.kind == "set":
            k = z3.Const(f"{hint}${len(self.binders)}",self.w.sort(src.ty.args[0]))
            if src.term is None:
                return k, z3.BoolVal(False), SV(k, src.ty.args[0]), None, None
            # a set is iterated in an arbitrary order that is a function of its members only
            size, _, posf = self._keyset_order(src.term, self.w.sort(src.ty.args[0]), "set")
            return k, z3.Select(src.term, k), SV(k, src.ty.args[0]), posf(None, k), size
        raise Unsupported(f"iteration over {src.ty if isinstance(src, SV) else type(src).__name__}")

    def _join_all(self, tys):
        t = tys[0]
        for x in tys[1:]:
            t = self.join(t, x)
        return t

    def bind_target(self, target, value) -> dict:
        if isinstance(target, ast.Name):
            return {target.id: self._bindable(value)}
        if isinstance(target, (ast.Tuple, ast.List)):
            if isinstance(value, PyTuple):
                items = value.items
            elif isinstance(value, SV) and value.ty.kind == "tuple":
                s = self.w.sort(value.ty)
                items = [SV(s.accessor(0, i)(value.term), t) for i, t in enumerate(value.ty.args)]
            else:
                raise Unsupported("tuple unpacking of a non-tuple")
            if len(items) != len(target.elts):
                raise Unsupported("tuple unpack arity")
            out = {}
            for t, v in zip(target.elts, items):
                out.update(self.bind_target(t, v))
            return out
        raise Unsupported(f"binding target {type(target).__name__}")

    def _bindable(self, v):
        """what goes into env for a value: Ref for tracked mutable places, else the value itself"""
        if isinstance(v, SV) and v.ref is not None and T.is_mutable(v.ty):
            return v.ref
        return v

    # -------------------------------------------------------- lazy seqs
    def make_lazy(self, node, kind: str):
        if len(node.generators) != 1:
            raise Unsupported(f"comprehension with {len(node.generators)} generators (line {node.lineno})")
        g = node.generators[0]
        if g.is_async:
            raise Unsupported("async comprehension")
        src = self.iter_source(g.iter)
        return LazySeq(src, g.target, list(g.ifs), node.elt if not isinstance(node, ast.DictComp) else node,
                       dict(self.st.env), kind, self.frames[-1].module)

    def iter_source(self, node):
        v = self.ev(node)
        if isinstance(v, (RangeV, DictView, EnumerateV, LazySeq, PyTuple)):
            return v
        if isinstance(v, SV) and v.ty.kind in ("list", "dict", "set"):
            return v
        if isinstance(v, SV) and v.ty.kind == "opt" and v.ty.args[0].kind in ("list", "dict"):
            return self.coerce(v, v.ty.args[0], getattr(node, "lineno", 0))
        raise Unsupported(f"cannot iterate {v.ty if isinstance(v, SV) else type(v).__name__} (line {getattr(node, 'lineno', 0)})")

    def lazy_at(self, lz: LazySeq):
        """-> (var, dom, cond, elt_value, pos, facts)  evaluated under a binder"""
        var, dom, el, pos, size = self.domain(lz.source)
        with self.binder([var], [dom]) as facts:
            with self.scope(self.bind_target(lz.target, el), lz.env):
                conds = []
                for c in lz.conds:
                    cv = self.truthy(self.ev(c))
                    conds.append(cv)
                    self.binders[-1]["guards"].append(cv)
                elt = self.ev(lz.elt)
                if isinstance(elt, LazySeq):
                    elt = self.materialize(elt)
            facts = list(facts)
        cond = z3.And(*conds) if conds else z3.BoolVal(True)
        return var, dom, cond, elt, pos, facts, size

    def hoist_facts(self, var, dom, facts):
        """type facts about terms under a binder are asserted on their own (valid for every element of the
        domain), never used as antecedents / conjuncts of the quantified formula itself"""
        from .spec import auto_patterns
        if not facts:
            return
        fq = z3.Implies(dom, z3.And(*facts))
        fp = auto_patterns([var], fq)
        from .spec import mk_quant
        self.side_fact(mk_quant("forall", [var], fq, fp, "type-facts"))

    def _q(self, kind, var, body):
        from .spec import auto_patterns
        pats = auto_patterns([var], body)
        from .spec import mk_quant
        return mk_quant(kind, [var], body, pats, f"code:{getattr(self, 'cur_line', 0)}")

    def lazy_exists(self, lz: LazySeq, eq_item=None, truthy_elt=False):
        var, dom, cond, elt, pos, facts, _ = self.lazy_at(lz)
        self.hoist_facts(var, dom, facts)
        body = [dom, cond]
        if eq_item is not None:
            body.append(self.py_eq(elt, eq_item))
        if truthy_elt:
            body.append(self.truthy(elt))
        return self._q("exists", var, z3.And(*body))

    def lazy_forall(self, lz: LazySeq):
        var, dom, cond, elt, pos, facts, _ = self.lazy_at(lz)
        self.hoist_facts(var, dom, facts)
        return self._q("forall", var, z3.Implies(z3.And(dom, cond), self.truthy(elt)))

    def lazy_first(self, lz: LazySeq, line: int):
        """first element of an ordered filtered sequence: (value, found)"""
        var, dom, cond, elt, pos, facts, _ = self.lazy_at(lz)
        if pos is None:
            raise Unsupported("first element of an unordered source")
        self.hoist_facts(var, dom, facts)
        # the same filtered sequence (up to the name of the bound variable) always denotes the same first
        # element: code and contract may both write `[... for ... if ...][0]` and get the *same* term
        ph = z3.Const(f"__ph<{var.sort()}>", var.sort())
        canon = (z3.substitute(z3.And(dom, cond), (var, ph)), z3.substitute(pos, (var, ph)))
        key = ("first", canon[0].get_id(), canon[1].get_id())
        memo = self.st.__dict__.setdefault("first_memo", {})
        if key in memo and not self.binders:
            m, found, _keep = memo[key]
            return self._subst_value(elt, var, m), found
        found = self._q("exists", var, z3.And(dom, cond))
        m = self.w.fresh_sort(var.sort(), "first")
        if not self.binders:
            memo[key] = (m, found, canon)  # canon kept alive so that its ast ids stay unique
        sub = lambda f: z3.substitute(f, (var, m))
        least = self._q("forall", var, z3.Implies(z3.And(dom, cond), pos >= sub(pos)))
        self.side_fact(z3.Implies(found, z3.And(sub(dom), sub(cond), least)))
        return self._subst_value(elt, var, m), found

    def _subst_value(self, v, var, m):
        if isinstance(v, PyTuple):
            return PyTuple([self._subst_value(x, var, m) for x in v.items])
        if isinstance(v, SV):
            ref = None
            if v.ref is not None:
                ref = Ref(v.ref.cell, tuple(
                    (st[0], z3.substitute(st[1], (var, m))) if st[0] in ("i", "k") else st for st in v.ref.path))
            return SV(z3.substitute(v.term, (var, m)) if v.term is not None else None, v.ty, ref=ref)
        return v

    def lazy_len(self, lz: LazySeq):
        var, dom, cond, elt, pos, facts, size = self.lazy_at(lz)
        if not lz.conds and size is not None:
            return size
        n = self.w.fresh(T.INT, "count")
        ex = z3.Exists([var], z3.And(dom, *facts, cond))
        self.side_fact(n >= 0)
        self.side_fact((n > 0) == ex)
        if size is not None:
            self.side_fact(n <= size)
        if not self.binders and var.sort() == z3.IntSort() and not facts:
            # `len(xs) > 1`: more than one element passes the filter iff two different source positions do
            v2 = z3.Const(f"cnt2${next(_lc)}", var.sort())
            both = z3.And(dom, cond, z3.substitute(dom, (var, v2)), z3.substitute(cond, (var, v2)), var < v2)
            self.side_fact((n > 1) == z3.Exists([var, v2], both))
        return n

    def materialize(self, lz: LazySeq) -> SV:
        cached = getattr(lz, "_mat", None)
        if cached is not None:
            return cached  # (only ever set outside binders: the cached term is closed)
        out = self._materialize(lz)
        if not self.binders:
            lz._mat = out
        return out

    def _materialize(self, lz: LazySeq) -> SV:
        var, dom, cond, elt, pos, facts, size = self.lazy_at(lz)
        if not isinstance(elt, SV):
            if isinstance(elt, PyTuple):
                elt = self.coerce(elt, T.Tuple(*[x.ty for x in elt.items]))
            else:
                raise Unsupported("comprehension element is not a value")
        for f in facts:
            self.side_fact(z3.ForAll([var], z3.Implies(dom, f)))
        if lz.kind == "set":
            if z3.eq(elt.term, var):
                # {x for x in S if c(x)}: the element is the bound variable itself - no existential needed
                return SV(z3.Lambda([var], z3.And(dom, cond)), T.Set(elt.ty), fresh=True)
            v = z3.Const(f"sv${len(self.binders)}", self.w.sort(elt.ty))
            body = z3.Exists([var], z3.And(dom, cond, elt.term == v))
            return SV(z3.Lambda([v], body), T.Set(elt.ty), fresh=True)
        if not lz.conds:
            src = lz.source
            if isinstance(src, SV) and src.ty.kind == "list":
                body = elt.term
                if self.w.sort(elt.ty) == self.w.sort(src.ty.args[0]):
                    # representation choice outside [0,len): keep the source's (unobservable) cells, so that a
                    # copying comprehension denotes the very same value as its source
                    body = z3.If(dom, elt.term, self.list_get(src, var))
                return self.mk_list(elt.ty, size, z3.Lambda([var], body))
            if isinstance(src, RangeV):
                j = z3.Const(f"mj{next(_lc)}", z3.IntSort())
                return self.mk_list(elt.ty, size, z3.Lambda([j], z3.substitute(elt.term, (var, j + src.lo))))
            if isinstance(src, DictView):
                _, order, _ = self.dict_order(src.d, src.sorted_)
                j = z3.Const(f"mj{next(_lc)}", z3.IntSort())
                return self.mk_list(elt.ty, size, z3.Lambda([j], z3.substitute(elt.term, (var, z3.Select(order, j)))))
        if pos is None or size is None:
            raise Unsupported("materialising a filtered comprehension over an unordered source")
        # general filter: fresh list L with a strictly increasing index map idx and its inverse inv
        out_t = T.List(elt.ty)
        L = self.w.fresh(out_t, "filt")
        Lsv = SV(L, out_t, fresh=True)
        n = self.list_len(Lsv)
        tag = next(_lc)
        psort = var.sort()
        idx = z3.Function(f"fidx{tag}", z3.IntSort(), psort)
        inv = z3.Function(f"finv{tag}", psort, z3.IntSort())
        i = z3.Const(f"fi{tag}", z3.IntSort())
        j = z3.Const(f"fj{tag}", z3.IntSort())
        sub = lambda f, m: z3.substitute(f, (var, m))
        self.side_fact(z3.ForAll([i], z3.Implies(z3.And(0 <= i, i < n),
                                                 z3.And(sub(dom, idx(i)), sub(cond, idx(i)),
                                                        self.list_get(Lsv, i) == sub(elt.term, idx(i)),
                                                        inv(idx(i)) == i)),
                                 patterns=[idx(i), self.list_get(Lsv, i)]))
        self.side_fact(z3.ForAll([i, j], z3.Implies(z3.And(0 <= i, i < j, j < n),
                                                    sub(pos, idx(i)) < sub(pos, idx(j))),
                                 patterns=[z3.MultiPattern(idx(i), idx(j))]))
        from .spec import auto_patterns
        extra = auto_patterns([var], z3.And(dom, cond)) or []
        extra = [p for p in extra if not isinstance(p, z3.PatternRef)][:1]
        if not extra and isinstance(lz.source, SV) and lz.source.ty.kind == "list" and lz.source.term is not None \
                and var.sort() == z3.IntSort():
            # "every qualifying source element is in the result": triggered by a mention of that source element
            cand = self.list_get(lz.source, var)
            if not self._pattern_safe(cand) and not self.binders:
                # an ite / store term cannot occur in a trigger: name the source list (matching is modulo equality)
                named = self.w.fresh(lz.source.ty, "src")
                self.side_fact(named == lz.source.term)
                cand = self.list_get(SV(named, lz.source.ty), var)
            if self._pattern_safe(cand):
                extra = [cand]
        self.side_fact(z3.ForAll([var], z3.Implies(z3.And(dom, cond),
                                                   z3.And(0 <= inv(var), inv(var) < n, idx(inv(var)) == var)),
                                 patterns=[inv(var)] + extra))
        self.side_fact(n <= size)
        # ground instances for the first two elements (no term idx(0) / idx(1) exists to trigger the axioms above):
        # what `xs[0]`, `if xs:` and `len(xs) > 1` on a filtered list rely on
        for g0 in (0, 1):
            gi = z3.IntVal(g0)
            self.side_fact(z3.Implies(gi < n, z3.And(sub(dom, idx(gi)), sub(cond, idx(gi)),
                                                     self.list_get(Lsv, gi) == sub(elt.term, idx(gi)),
                                                     inv(idx(gi)) == gi)))
        self.side_fact(z3.Implies(z3.IntVal(1) < n, sub(pos, idx(z3.IntVal(0))) < sub(pos, idx(z3.IntVal(1)))))
        return Lsv

    # ------------------------------------------------------ comprehensions
    def ev_GeneratorExp(self, node):
        return self.make_lazy(node, "gen")

    def ev_ListComp(self, node):
        lz = self.make_lazy(node, "list")
        return lz

    def ev_SetComp(self, node):
        return self.materialize(self.make_lazy(node, "set"))

    def ev_DictComp(self, node):
        if len(node.generators) != 1:
            raise Unsupported("dict comprehension with several generators")
        g = node.generators[0]
        src = self.iter_source(g.iter)
        if isinstance(src, SV) and src.ty.kind == "dict":
            src = DictView("keys", src)
        if isinstance(src, DictView) and not g.ifs:
            var, dom, el, pos, size = self.domain(src)
            with self.binder([var], [dom]) as facts:
                with self.scope(self.bind_target(g.target, el)):
                    kv = self.evv(node.key)
                    vv = self.evv(node.value)
                facts = list(facts)
            if not z3.eq(z3.simplify(kv.term), var):
                raise Unsupported(f"dict comprehension whose key is not the source key (line {node.lineno})")
            for f in facts:
                self.side_fact(z3.ForAll([var], z3.Implies(dom, f)))
            d = src.d
            mk, has, val = self.dct(d)
            t = T.Dict(d.ty.args[0], vv.ty)
            s = self.w.sort(t)
            body = vv.term
            if self.w.sort(vv.ty) == self.w.sort(d.ty.args[1]):
                # representation choice for absent keys: keep the source's (unobservable) cells
                body = z3.If(dom, vv.term, z3.Select(val(d.term), var))
            return SV(s.constructor(0)(has(d.term), z3.Lambda([var], body)), t, fresh=True)
        # list / range source: {key(x): val(x) for x in xs}
        var, dom, el, pos, size = self.domain(src)
        with self.binder([var], [dom]) as facts:
            with self.scope(self.bind_target(g.target, el)):
                conds = [self.truthy(self.ev(c)) for c in g.ifs]
                kv = self.evv(node.key)
                vv = self.evv(node.value)
            facts = list(facts)
        for f in facts:
            self.side_fact(z3.ForAll([var], z3.Implies(dom, f)))
        cond = z3.And(*conds) if conds else z3.BoolVal(True)
        t = T.Dict(kv.ty, vv.ty)
        s = self.w.sort(t)
        k = z3.Const(f"dk{next(_lc)}", self.w.sort(kv.ty))
        hasl = z3.Lambda([k], z3.Exists([var], z3.And(dom, cond, kv.term == k)))
        # value: the one from the LAST source position with that key (python semantics)
        D = self.w.fresh(t, "dcomp")
        self.side_fact(s.accessor(0, 0)(D) == hasl)
        if pos is not None:
            wit = z3.Function(f"dwit{next(_lc)}", self.w.sort(kv.ty), var.sort())
            sub = lambda f, m: z3.substitute(f, (var, m))
            self.side_fact(z3.ForAll([k], z3.Implies(
                z3.Select(hasl, k),
                z3.And(sub(dom, wit(k)), sub(cond, wit(k)), sub(kv.term, wit(k)) == k,
                       z3.Select(s.accessor(0, 1)(D), k) == sub(vv.term, wit(k)),
                       z3.ForAll([var], z3.Implies(z3.And(dom, cond, kv.term == k), pos <= sub(pos, wit(k)))))),
                patterns=[wit(k), z3.Select(s.accessor(0, 1)(D), k), z3.Select(s.accessor(0, 0)(D), k)]))
        return SV(D, t, fresh=True)
