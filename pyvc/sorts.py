"""Types -> z3 sorts; annotation resolution; the uninterpreted vocabulary."""
from __future__ import annotations

import ast
import itertools

import z3

from . import ty as T
from .extract import ClassInfo, ExtractError, Repo


class Unsupported(Exception):
    """Construct outside the supported subset (checker exit code 3, never a verdict)."""


_counter = itertools.count()
_ENUMS: dict = {}


class World:
    def __init__(self, repo: Repo, field_types: dict | None = None, plain_classes: dict | None = None,
                 extra_subclass: dict | None = None):
        self.repo = repo
        # (class, field) -> Ty override
        self.field_types: dict[tuple[str, str], T.Ty] = dict(field_types or {})
        # plain (non-dataclass) classes given structurally by the spec: name -> [(field, Ty)]
        self.plain_classes: dict[str, list[tuple[str, T.Ty]]] = dict(plain_classes or {})
        self._sorts: dict[T.Ty, z3.SortRef] = {}
        self._obj: dict[str, tuple] = {}
        self._obj_fields: dict[str, list[tuple[str, T.Ty]]] = {}
        self.str_lits: dict[str, z3.ExprRef] = {}
        self.type_consts: dict[str, z3.ExprRef] = {}
        self.funcs: dict[str, z3.FuncDeclRef] = {}
        self.axioms: list[z3.BoolRef] = []
        self.extra_subclass = dict(extra_subclass or {})  # name -> [bases] for classes not in repo
        self._hier_done: set[str] = set()
        self.StrSort = z3.DeclareSort("Str")
        self.opaque_sorts: dict[str, z3.SortRef] = {}
        self.enum_sorts: dict[str, tuple] = {}

    # ------------------------------------------------------------------ sorts
    def opaque(self, name: str) -> z3.SortRef:
        if name not in self.opaque_sorts:
            self.opaque_sorts[name] = z3.DeclareSort(name)
        return self.opaque_sorts[name]

    def sort(self, t: T.Ty) -> z3.SortRef:
        if t in self._sorts:
            return self._sorts[t]
        k = t.kind
        if k == "int":
            s = z3.IntSort()
        elif k == "real":
            s = z3.RealSort()
        elif k == "bool":
            s = z3.BoolSort()
        elif k == "str":
            s = self.StrSort
        elif k == "none":
            s = self.opaque("NoneT")
        elif k == "opaque":
            s = self.opaque(t.name)
        elif k == "enum":
            s = self.enum(t.name)[0]
        elif k == "opt":
            inner = self.sort(t.args[0])
            dt = z3.Datatype(f"Opt<{inner}>")
            dt.declare(f"none<{inner}>")
            dt.declare(f"some<{inner}>", (f"oval<{inner}>", inner))
            s = dt.create()
        elif k == "list":
            inner = self.sort(t.args[0])
            dt = z3.Datatype(f"List<{inner}>")
            dt.declare(f"mkL<{inner}>", (f"len<{inner}>", z3.IntSort()), (f"arr<{inner}>", z3.ArraySort(z3.IntSort(), inner)))
            s = dt.create()
        elif k == "dict":
            ks, vs = self.sort(t.args[0]), self.sort(t.args[1])
            dt = z3.Datatype(f"Dict<{ks},{vs}>")
            dt.declare(f"mkD<{ks},{vs}>", (f"has<{ks},{vs}>", z3.ArraySort(ks, z3.BoolSort())), (f"val<{ks},{vs}>", z3.ArraySort(ks, vs)))
            s = dt.create()
        elif k == "set":
            s = z3.ArraySort(self.sort(t.args[0]), z3.BoolSort())
        elif k == "tuple":
            tn = "Tup<" + ",".join(str(self.sort(a)) for a in t.args) + ">"
            dt = z3.Datatype(tn)
            dt.declare("mk" + tn, *[(f"f{i}{tn}", self.sort(a)) for i, a in enumerate(t.args)])
            s = dt.create()
        elif k == "obj":
            s = self.obj(t.name)[0]
        elif k == "union":
            dt = z3.Datatype("U<" + t.name + ">")
            for a in t.args:
                dt.declare(f"inj_{a}", (f"prj_{a}", self.obj(a)[0]))
            s = dt.create()
        else:
            raise Unsupported(f"no sort for type {t}")
        self._sorts[t] = s
        return s

    def enum(self, name: str):
        if name not in self.enum_sorts:
            ci = self.repo.find_class(name)
            if ci is None or ci.kind != "enum":
                raise Unsupported(f"enum {name} not found")
            key = (name, tuple(ci.enum_members))
            if key not in _ENUMS:  # z3 enumeration sorts are global to the process
                _ENUMS[key] = z3.EnumSort(name if not any(k[0] == name for k in _ENUMS) else f"{name}#{len(_ENUMS)}",
                                          ci.enum_members)
            s, consts = _ENUMS[key]
            self.enum_sorts[name] = (s, dict(zip(ci.enum_members, consts)))
        return self.enum_sorts[name]

    def obj_fields(self, name: str) -> list[tuple[str, T.Ty]]:
        if name in self._obj_fields:
            return self._obj_fields[name]
        if name in self.plain_classes:
            fs = list(self.plain_classes[name])
        else:
            ci = self.repo.find_class(name)
            if ci is None:
                raise Unsupported(f"class {name} not found in loaded modules")
            fs = []
            for f in self.repo.class_fields(ci):
                if f.name.startswith("_") and ci.kind == "pydantic":
                    continue
                if (name, f.name) in self.field_types:
                    ft = self.field_types[(name, f.name)]
                else:
                    ft = self.resolve_ann(f.ann, ci.module)
                fs.append((f.name, ft))
        self._obj_fields[name] = fs
        return fs

    def obj(self, name: str):
        """-> (sort, ctor, {field: accessor})"""
        if name in self._obj:
            return self._obj[name]
        fs = self.obj_fields(name)
        dt = z3.Datatype(name)
        if fs:
            dt.declare(f"mk_{name}", *[(f"{name}.{f}", self.sort(ft)) for f, ft in fs])
        else:
            dt.declare(f"mk_{name}")
        s = dt.create()
        ctor = s.constructor(0)
        accs = {f: s.accessor(0, i) for i, (f, _) in enumerate(fs)}
        self._obj[name] = (s, ctor, accs)
        return self._obj[name]

    def field_ty(self, cls: str, fld: str) -> T.Ty | None:
        for f, ft in self.obj_fields(cls):
            if f == fld:
                return ft
        return None

    # --------------------------------------------------------------- helpers
    def fresh(self, t: T.Ty, hint: str = "v") -> z3.ExprRef:
        return z3.Const(f"{hint}!{next(_counter)}", self.sort(t))

    def fresh_sort(self, s: z3.SortRef, hint: str = "v") -> z3.ExprRef:
        return z3.Const(f"{hint}!{next(_counter)}", s)

    def strlit(self, s: str) -> z3.ExprRef:
        if s not in self.str_lits:
            self.str_lits[s] = z3.Const(f"str:{s!r}", self.StrSort)
        return self.str_lits[s]

    def func(self, name: str, *sorts) -> z3.FuncDeclRef:
        if name not in self.funcs:
            self.funcs[name] = z3.Function(name, *sorts)
        return self.funcs[name]

    def type_const(self, clsname: str) -> z3.ExprRef:
        if clsname not in self.type_consts:
            self.type_consts[clsname] = z3.Const(f"T:{clsname}", self.sort(T.TYPE))
            self._add_hierarchy(clsname)
        return self.type_consts[clsname]

    def subclass_fn(self):
        ts = self.sort(T.TYPE)
        return self.func("subclass", ts, ts, z3.BoolSort())

    def _bases_of(self, clsname: str) -> list[str]:
        if clsname in self.extra_subclass:
            out = [clsname]
            for b in self.extra_subclass[clsname]:
                for n in self._bases_of(b):
                    if n not in out:
                        out.append(n)
            return out
        ci = self.repo.find_class(clsname)
        if ci is None:
            return [clsname]
        return self.repo.mro_names(ci)

    def _add_hierarchy(self, clsname: str):
        if clsname in self._hier_done:
            return
        self._hier_done.add(clsname)
        sub = self.subclass_fn()
        me = self.type_consts[clsname]
        mro = self._bases_of(clsname)
        for b in mro:
            if b != clsname and b not in ("BaseModel", "object", "Generic", "Exception", "BaseException", "DictLikeModel"):
                self.type_const(b)
        # ground facts against every other known class
        for other, oc in list(self.type_consts.items()):
            omro = self._bases_of(other)
            self.axioms.append(sub(me, oc) == z3.BoolVal(other in mro))
            if other != clsname:
                self.axioms.append(sub(oc, me) == z3.BoolVal(clsname in omro))
        # upward closure: anything below me is below my bases
        t = z3.Const("t", self.sort(T.TYPE))
        for b in mro[1:]:
            if b in self.type_consts:
                self.axioms.append(z3.ForAll([t], z3.Implies(sub(t, me), sub(t, self.type_consts[b])),
                                             patterns=[sub(t, me)]))

    def global_axioms(self) -> list[z3.BoolRef]:
        ax = list(self.axioms)
        lits = list(self.str_lits.values())
        if len(lits) > 1:
            ax.append(z3.Distinct(*lits))
        tcs = list(self.type_consts.values())
        if len(tcs) > 1:
            ax.append(z3.Distinct(*tcs))
        if "subclass" in self.funcs:
            t = z3.Const("t", self.sort(T.TYPE))
            sub = self.funcs["subclass"]
            ax.append(z3.ForAll([t], sub(t, t), patterns=[sub(t, t)]))
        # every value of the Event sort is an instance of workflows.events.Event (pydantic validates the fields
        # that are declared as events)
        if "type_of<Event>" in self.funcs and "Event" in self.type_consts and "subclass" in self.funcs:
            e = z3.Const("ev", self.sort(T.EVENT))
            tf = self.funcs["type_of<Event>"]
            ax.append(z3.ForAll([e], self.funcs["subclass"](tf(e), self.type_consts["Event"]), patterns=[tf(e)]))
        return ax

    # ------------------------------------------------- annotation resolution
    EVENT_ROOTS = ("Event", "DictLikeModel")

    def is_event_class(self, name: str, module: str | None) -> bool:
        ci = self.repo.find_class(name, module)
        if ci is None:
            return name in self.extra_subclass and "Event" in self._bases_of(name)
        return "Event" in self.repo.mro_names(ci)

    def is_exc_class(self, name: str, module: str | None) -> bool:
        if name in ("Exception", "BaseException", "ValueError", "TypeError", "RuntimeError", "KeyError",
                    "IndexError", "TimeoutError", "OverflowError", "StopIteration", "AttributeError",
                    "NotImplementedError", "ZeroDivisionError"):
            return True
        ci = self.repo.find_class(name, module)
        if ci is None:
            return False
        m = self.repo.mro_names(ci)
        return any(b in ("Exception", "BaseException", "ValueError", "RuntimeError", "TimeoutError") for b in m)

    def resolve_ann(self, node: ast.AST | None, module: str | None, depth: int = 0) -> T.Ty:
        if node is None or depth > 12:
            return T.ANY
        if isinstance(node, ast.Constant):
            if node.value is None:
                return T.NONE
            if isinstance(node.value, str):
                try:
                    return self.resolve_ann(ast.parse(node.value, mode="eval").body, module, depth + 1)
                except SyntaxError:
                    return T.ANY
            return T.ANY
        if isinstance(node, ast.Name):
            return self._resolve_name(node.id, module, depth)
        if isinstance(node, ast.Attribute):
            return self._resolve_name(node.attr, module, depth)
        if isinstance(node, ast.BinOp) and isinstance(node.op, ast.BitOr):
            alts = []

            def flat(n):
                if isinstance(n, ast.BinOp) and isinstance(n.op, ast.BitOr):
                    flat(n.left)
                    flat(n.right)
                else:
                    alts.append(self.resolve_ann(n, module, depth + 1))

            flat(node)
            return self._join_alts(alts)
        if isinstance(node, ast.Subscript):
            base = ast.unparse(node.value).split(".")[-1]
            sl = node.slice
            elts = list(sl.elts) if isinstance(sl, ast.Tuple) else [sl]
            if base in ("list", "List", "Sequence", "Iterable"):
                return T.List(self.resolve_ann(elts[0], module, depth + 1))
            if base in ("dict", "Dict", "Mapping"):
                return T.Dict(self.resolve_ann(elts[0], module, depth + 1), self.resolve_ann(elts[1], module, depth + 1))
            if base in ("set", "Set", "frozenset"):
                return T.Set(self.resolve_ann(elts[0], module, depth + 1))
            if base in ("tuple", "Tuple"):
                if len(elts) == 2 and isinstance(elts[1], ast.Constant) and elts[1].value is Ellipsis:
                    return T.List(self.resolve_ann(elts[0], module, depth + 1))
                return T.Tuple(*[self.resolve_ann(e, module, depth + 1) for e in elts])
            if base == "Optional":
                return T.Opt(self.resolve_ann(elts[0], module, depth + 1))
            if base == "Union":
                return self._join_alts([self.resolve_ann(e, module, depth + 1) for e in elts])
            if base == "Annotated":
                return self.resolve_ann(elts[0], module, depth + 1)
            if base in ("type", "Type"):
                return T.TYPE
            if base == "Literal":
                return T.STR
            if base in ("Callable", "Awaitable", "Coroutine"):
                return T.Opaque("Callable")
            # generic user class, e.g. AddWaiter[Event]
            return self._resolve_name(base, module, depth)
        return T.ANY

    def _join_alts(self, alts: list[T.Ty]) -> T.Ty:
        has_none = any(a.kind == "none" for a in alts)
        rest = []
        for a in alts:
            if a.kind == "none":
                continue
            if a.kind == "opt":
                has_none = True
                a = a.args[0]
            if a.kind == "union":
                for n in a.args:
                    if T.Obj(n) not in rest:
                        rest.append(T.Obj(n))
                continue
            if a not in rest:
                rest.append(a)
        if not rest:
            return T.NONE
        if len(rest) == 1:
            r = rest[0]
        elif all(a.kind in ("int", "real") for a in rest):
            r = T.REAL
        elif all(a.kind == "obj" for a in rest):
            names = tuple(a.name for a in rest)
            r = T.Union("|".join(names), names)
        elif all(a == rest[0] for a in rest):
            r = rest[0]
        else:
            r = T.ANY
        return T.Opt(r) if has_none else r

    def _resolve_name(self, name: str, module: str | None, depth: int) -> T.Ty:
        prim = {"int": T.INT, "float": T.REAL, "bool": T.BOOL, "str": T.STR, "None": T.NONE,
                "Any": T.ANY, "object": T.ANY, "bytes": T.STR, "datetime": T.Opaque("datetime"), "type": T.TYPE,
                "timedelta": T.Opaque("timedelta")}
        if name in prim:
            return prim[name]
        if name.startswith("Opaque__"):
            return T.Opaque(name[8:])  # spec type strings: "dict[str, opaque:X]" is rewritten to Opaque__X
        if name in self.plain_classes:
            return T.Obj(name)
        if self.is_exc_class(name, module):
            return T.EXC
        ci = self.repo.find_class(name, module)
        if ci is not None:
            if "Event" in self.repo.mro_names(ci) or ci.name == "DictLikeModel":
                return T.EVENT
            if ci.kind == "enum":
                return T.Ty("enum", (), ci.name)
            if ci.kind in ("dataclass", "pydantic"):
                return T.Obj(ci.name)
            if ci.kind == "protocol":
                return T.Opaque(ci.name)
            return T.Opaque(ci.name)
        # module-level alias?
        if module:
            try:
                m = self.repo.module(module)
            except ExtractError:
                m = None
            if m is not None:
                if name in m.aliases:
                    v = m.aliases[name]
                    if isinstance(v, ast.Call) and ast.unparse(v.func) in ("TypeVar", "typing.TypeVar"):
                        for kw in v.keywords:
                            if kw.arg == "bound":
                                return self.resolve_ann(kw.value, module, depth + 1)
                        return T.ANY
                    return self.resolve_ann(v, module, depth + 1)
                if name in m.imports:
                    fq = m.imports[name]
                    modname, _, cname = fq.rpartition(".")
                    try:
                        self.repo.module(modname)
                        return self._resolve_name(cname, modname, depth + 1)
                    except ExtractError:
                        return T.ANY
        return T.ANY
