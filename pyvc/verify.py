"""Driver: verify one function against its contract."""
from __future__ import annotations

import ast
import time
import traceback
from dataclasses import dataclass, field

import z3

from . import ty as T
from .calls import CallMixin
from .expr import ExprMixin
from .extract import Repo
from .lazy import LazyMixin
from .solve import discharge_all, satisfiable
from .sorts import Unsupported, World
from .spec import DslMixin, SpecSet
from .stmt import StmtMixin
from .symex import Engine, Frame, State
from .values import (
    SV, BreakSignal, ContinueSignal, Namespace, PathEnd, PyTuple, RaiseSignal, Ref, ReturnSignal,
)


class FullEngine(Engine, ExprMixin, LazyMixin, CallMixin, StmtMixin, DslMixin):
    pass


@dataclass
class FnReport:
    fq: str
    sha256: str = ""
    paths: int = 0
    terminal_paths: int = 0
    obligations: list = field(default_factory=list)  # dicts
    error: str | None = None  # tool error (exit 3)
    requires_sat: str = "n/a"
    canary: str = "n/a"
    solver_s: float = 0.0
    wall_s: float = 0.0


def number_loops(fnode) -> dict:
    loops = [n for n in ast.walk(fnode) if isinstance(n, (ast.For, ast.While, ast.AsyncFor))]
    loops.sort(key=lambda n: (n.lineno, n.col_offset))
    return {id(n): i + 1 for i, n in enumerate(loops)}


def generator_as_ghost_list(fnode):
    """A generator function is verified as the function that builds the sequence it yields: mechanically, on a copy of
    the real AST, every statement `yield e` becomes `_yielded.append(e)` and `_yielded: list[Any] = []` is put
    in front; contracts see the final sequence as `yielded`.  Not covered by this reading: values sent into the
    generator (`x = yield e` stays unsupported), `yield from`, and what the consumer does between two items."""
    import copy
    if not any(isinstance(n, (ast.Yield, ast.YieldFrom)) for n in ast.walk(fnode)):
        return fnode, False
    node = copy.deepcopy(fnode)

    class R(ast.NodeTransformer):
        def visit_FunctionDef(self, n):
            return n

        visit_AsyncFunctionDef = visit_FunctionDef
        visit_Lambda = visit_FunctionDef

        def visit_Expr(self, st):
            if isinstance(st.value, ast.Yield):
                val = st.value.value if st.value.value is not None else ast.Constant(value=None)
                new = ast.Expr(value=ast.Call(func=ast.Attribute(value=ast.Name(id="_yielded", ctx=ast.Load()),
                                                                 attr="append", ctx=ast.Load()), args=[val], keywords=[]))
                return ast.fix_missing_locations(ast.copy_location(new, st))
            return st

    r = R()
    node.body = [r.visit(s) if not isinstance(s, (ast.FunctionDef, ast.AsyncFunctionDef)) else s for s in node.body]
    init = ast.AnnAssign(target=ast.Name(id="_yielded", ctx=ast.Store()),
                         annotation=ast.Subscript(value=ast.Name(id="list", ctx=ast.Load()),
                                                  slice=ast.Name(id="Any", ctx=ast.Load()), ctx=ast.Load()),
                         value=ast.List(elts=[], ctx=ast.Load()), simple=1)
    first = node.body[0]
    ast.copy_location(init, first)
    ast.fix_missing_locations(init)
    node.body.insert(0, init)
    return node, True


def make_world(specs: SpecSet, repo_root: str | None = None) -> World:
    repo = Repo(repo_root)
    w = World(repo)
    specs.bind_world(w)
    return w


def verify_function(w: World, specs: SpecSet, fq: str, timeout_ms: int = 10000, seed: int = 0,
                    max_paths: int = 3000, jobs: int = 8, single_attempt=()) -> FnReport:
    t0 = time.time()
    rep = FnReport(fq)
    try:
        fi = w.repo.function(fq)
    except Exception as e:
        rep.error = f"function not found: {fq} ({e})"
        return rep
    rep.sha256 = fi.sha256
    c = specs.contract(fq)
    if c is None:
        rep.error = f"no contract for {fq}"
        return rep
    eng = FullEngine(w, specs)
    eng.func_fq = fq
    eng.cur_contract = c
    vnode, is_gen = generator_as_ghost_list(fi.node)
    loop_ids = number_loops(vnode)
    for k in c.loop_inv:
        if k > len(loop_ids):
            rep.error = f"contract names loop #{k} but {fq} has {len(loop_ids)} loops (code changed shape)"
            return rep
    queue: list[list[int]] = [[]]
    first = True
    try:
        while queue:
            decisions = queue.pop()
            rep.paths += 1
            if rep.paths > max_paths:
                raise Unsupported(f"path budget exceeded ({max_paths})")
            eng.decisions = list(decisions)
            eng.dpos = 0
            eng.pending = []
            eng.st = State()
            eng.binders = []
            eng.facts = None
            eng.spec_mode = 0
            fr = Frame(fi.module, fi.qualname)
            fr.loop_ids = loop_ids
            fr.local_types = c.local_types
            eng.frames = [fr]
            ptypes = eng.param_types(fi, c)
            param_refs = {}
            for p, t in ptypes.items():
                v = SV(w.fresh(t, p), t)
                eng.assign_name(p, v, fi.lineno)
                b = eng.st.env[p]
                if isinstance(b, Ref):
                    param_refs[p] = b
                    eng.st.param_cells.add(b.cell)
            fr.old_env = dict(eng.st.env)
            fr.old_cells = dict(eng.st.cells)
            pre_vals = {p: eng.snapshot(eng.lookup(p)) for p in ptypes}
            if c.requires is not None:
                eng.st.pc.append(eng.eval_spec(c.requires, pre_vals, c))
            for an, afn in c.assumes.items():
                eng.st.pc.append(eng.eval_spec(afn, pre_vals, c))
            if first:
                first = False
                rep.requires_sat = satisfiable(eng.st.pc, w.global_axioms(), 5000)
            outcome = None
            try:
                eng.exec_block(vnode.body)
                outcome = ("return", SV(None, T.NONE))
            except ReturnSignal as r:
                outcome = ("return", r.value)
            except RaiseSignal as r:
                outcome = ("raise", r)
            except PathEnd:
                outcome = None
            except (BreakSignal, ContinueSignal):
                raise Unsupported("break/continue outside loop")
            if outcome is not None:
                rep.terminal_paths += 1
                _post(eng, c, fi, outcome, ptypes, param_refs, pre_vals)
            queue.extend(eng.pending)
    except Unsupported as e:
        rep.error = f"unsupported: {e}"
        rep.wall_s = time.time() - t0
        return rep
    except z3.Z3Exception as e:
        rep.error = f"z3 error while generating VCs: {e}\n{traceback.format_exc()[-1500:]}"
        rep.wall_s = time.time() - t0
        return rep
    # discharge
    ax = w.global_axioms()
    obs = list(eng.obligations.values())
    if c.only_kinds:
        # a variant contract re-uses the function's code but is only about its own clauses: safety / raises / frame
        # obligations of the same program points are discharged under the function's plain contract (whose
        # precondition is weaker), and are assumed here
        obs = [ob for ob in obs if ob.kind in c.only_kinds]
    res = discharge_all(obs, ax, timeout_ms, seed, jobs, single_attempt=set(single_attempt))
    for ob in obs:
        r = res[ob.oid]
        rep.solver_s += r["time"]
        d = {"id": ob.oid, "func": ob.func, "kind": ob.kind, "clause": ob.clause, "line": ob.line,
             "status": r["status"], "time": round(r["time"], 3), "backend": r["backend"],
             "trivial": bool(z3.is_true(z3.simplify(ob.goal)))}
        if r["status"] != "proved":
            d["reason"] = r.get("reason")
            d["failed_part"] = r.get("failed_part")
            if r.get("model"):
                d["model"] = r["model"][:6000]
        rep.obligations.append(d)
    rep.wall_s = time.time() - t0
    return rep


def _model_text(m, limit=6000):
    try:
        out = []
        for d in m.decls():
            n = d.name()
            if "!" in n and not n.split("!")[0] in ("",):
                pass
            out.append(f"{n} = {m[d]}")
        s = "\n".join(sorted(out))
        return s[:limit]
    except Exception as e:  # pragma: no cover
        return f"<model unavailable: {e}>"


def _post(eng, c, fi, outcome, ptypes, param_refs, pre_vals):
    kind, val = outcome
    line = fi.node.end_lineno or fi.lineno
    post_vals = {}
    for p in ptypes:
        if p in param_refs:
            post_vals[p] = eng.snapshot(eng.read_ref(param_refs[p]))
        else:
            post_vals[p] = pre_vals[p]
    old = Namespace(pre_vals)
    if "_yielded" in eng.st.env:
        post_vals["yielded"] = eng.snapshot(eng.lookup("_yielded"))  # the sequence a generator function has yielded
    if kind == "raise":
        r = val
        cls = r.cls
        allowed = None
        if cls is not None:
            from .stmt import BUILTIN_EXC_MRO
            mro = BUILTIN_EXC_MRO.get(cls, [cls])
            for m_ in mro:
                if m_ in c.raises:
                    allowed = m_
                    break
        elif "*user" in c.raises:
            allowed = "*user"
        if allowed is None:
            eng.oblige("raises", f"unexpected-{cls or 'user-exception'}", z3.BoolVal(False), r.line)
        else:
            cond = c.raises[allowed]
            if cond is not None:
                eng.oblige("raises", allowed, eng.eval_spec(cond, {**pre_vals, "old": old}, c), r.line)
        # postconditions of this exceptional exit:  raised_<Exc>(old, <params>, exc); raised_any_* for every exit
        from .stmt import BUILTIN_EXC_MRO as _MRO
        for m_ in (list(_MRO.get(cls, [cls])) if cls is not None else []) + ["any"]:
            for cname, efn in c.raised.get(m_, {}).items():
                vals = {**post_vals, "old": old}
                if "exc" in [a_.arg for a_ in efn.node.args.args]:
                    vals["exc"] = r.exc
                f = eng.eval_spec(efn, vals, c)
                eng.oblige("raised", cname, f, r.line)
        # frame on exceptional exit too
        for p, ref in param_refs.items():
            if p not in c.modifies and p not in c.frame_exempt:
                eng.oblige("frame", f"{p}-unmodified-on-raise", post_vals[p].term == pre_vals[p].term, r.line)
        return
    rt = c.ret_type if c.ret_type is not None else eng.ret_type(fi)
    result = val
    try:
        if isinstance(result, PyTuple) and rt.kind == "tuple":
            result = PyTuple([eng.snapshot(eng.coerce(x, t, line)) for x, t in zip(result.items, rt.args)])
        elif rt.kind not in ("none", "unknown") and rt != T.ANY:
            result = eng.snapshot(eng.coerce(result, rt, line))
    except Unsupported:
        pass
    for p, ref in param_refs.items():
        if p not in c.modifies and p not in c.frame_exempt:
            eng.oblige("frame", f"{p}-unmodified", post_vals[p].term == pre_vals[p].term, line)
    for cname, efn in c.ensures.items():
        f = eng.eval_spec(efn, {**post_vals, "old": old, "result": result}, c)
        eng.oblige("ensures", cname, f, line)
