"""Property-level check: `vcheck <Cnn> [--tier quick|thorough]`.

Exit codes: 0 held (known findings printed) / 1 violation / 2 undecided / 3 checker error.
"""
from __future__ import annotations

import dataclasses
import glob
import hashlib
import importlib
import json
import os
import sys
import time
import traceback

VERIF = os.path.dirname(os.path.dirname(os.path.abspath(__file__)))
REPO = os.environ.get("VERIF_REPO", "/repo")
OUT = os.environ.get("VERIF_OUT") or os.path.join(VERIF, "out")
EVID = os.environ.get("VERIF_EVID") or os.path.join(VERIF, "evidence")  # (overridden only by tools/mutant_sweep)

COMMON_ASSUMPTIONS = [
    "Python semantics as encoded by pyvc (DESIGN.md 2.2): int = mathematical integers; float = mathematical reals "
    "with explicit range obligations at float '**'; dataclass == is structural; dict iteration order is a fixed but "
    "arbitrary function of the dict's content",
    "partial correctness only: termination of loops is not proved",
    "value semantics for mutable objects justified by the alias-hazard check of the executor (a value embedded in "
    "another object must not be used again); Event / Exception objects are treated as immutable",
    "user-supplied callables (retry policies, predicates, step bodies) are uninterpreted; when they raise, the "
    "exception is assumed to be an Exception (not KeyboardInterrupt / CancelledError)",
    "collaborator objects (stores, adapters, connections, library objects) are opaque: an effectful call on one has no "
    "effect the verifier sees other than its entry in the ghost call log, a pure call / attribute read is a function "
    "of the object and the arguments; a value that is both stored in a field and returned (`self.f = x; return x`) is "
    "returned as a plain value - aliasing between a result and the receiver is not tracked for callers",
    "logger.* calls are dropped by the extraction (their arguments are not evaluated)",
    "exceptions raised while evaluating the element expression of a comprehension are not modelled",
    "z3 is trusted for 'unsat'",
    "soundness of pyvc itself, mitigated on every run by the native cross-check of every contract clause on random "
    "valid inputs against the real functions under CPython, and by the canary obligation per function",
]


def load_specs():
    from .spec import SpecSet
    specs = SpecSet()
    for p in sorted(glob.glob(os.path.join(VERIF, "specs", "*.py"))):
        if os.path.basename(p).startswith("_"):
            continue
        specs.load(p)
    return specs


def _sha(path: str) -> str:
    with open(path, "rb") as f:
        return hashlib.sha256(f.read()).hexdigest()


def _tool_key(fq: str, timeout_ms: int, seed: int) -> str:
    """identity of everything on the /verif side that influences a function's verdict"""
    h = hashlib.sha256()
    for p in sorted(glob.glob(os.path.join(VERIF, "specs", "*.py")) + glob.glob(os.path.join(VERIF, "pyvc", "*.py"))
                    + glob.glob(os.path.join(VERIF, "KNOWN_FINDINGS.jsonl"))):
        h.update(p.encode())
        h.update(_sha(p).encode())
    h.update(f"{fq}|{timeout_ms}|{seed}".encode())
    return h.hexdigest()[:32]


def _cache_lookup(fq, timeout_ms, seed):
    """Content-addressed reuse *within and across* runs: a function's result is reused only if the contracts, the
    verifier and every /repo source file the VC generation read are byte-identical (sha256).  Several property checks
    share the same functions; this keeps a full `vcheck` sweep from re-proving them for each property."""
    if os.environ.get("VERIF_NO_CACHE"):
        return None
    path = os.path.join(OUT, "cache", _tool_key(fq, timeout_ms, seed) + ".json")
    if not os.path.exists(path):
        return None
    try:
        ent = json.load(open(path))
        for p, sha in ent["deps"].items():
            if not os.path.exists(p) or _sha(p) != sha:
                return None
        rep = ent["report"]
        rep["cached"] = True
        return rep
    except Exception:
        return None


def _cache_store(fq, timeout_ms, seed, rep: dict, deps: dict):
    try:
        os.makedirs(os.path.join(OUT, "cache"), exist_ok=True)
        path = os.path.join(OUT, "cache", _tool_key(fq, timeout_ms, seed) + ".json")
        tmp = path + f".{os.getpid()}.tmp"
        with open(tmp, "w") as f:
            json.dump({"deps": deps, "report": rep}, f)
        os.replace(tmp, path)
    except Exception:
        pass


def _verify_worker(fq: str, timeout_ms: int, seed: int, jobs: int = 8):
    try:
        hit = _cache_lookup(fq, timeout_ms, seed)
        if hit is not None:
            return hit
        from .verify import make_world, verify_function
        specs = load_specs()
        w = make_world(specs, REPO)
        single = {(k.get("obligation_kind", "ensures"), k["clause"]) for k in load_known()
                  if k.get("kind") == "finding" and k.get("function") == fq and k.get("clause")}
        rep = verify_function(w, specs, fq, timeout_ms=timeout_ms, seed=seed, jobs=jobs, single_attempt=single)
        d = dataclasses.asdict(rep)
        d["cached"] = False
        # budgets are deterministic resource limits, so a verdict is a function of the inputs hashed below
        if not rep.error and rep.obligations and all(
                o["status"] in ("proved", "unknown", "refuted") and "hard timeout" not in str(o.get("reason"))
                for o in rep.obligations):
            deps = {m.path: _sha(m.path) for m in w.repo.modules.values()}
            _cache_store(fq, timeout_ms, seed, d, deps)
        return d
    except Exception as e:  # tool crash
        return {"fq": fq, "error": f"checker crash: {e!r}\n{traceback.format_exc()[-2000:]}", "obligations": [],
                "paths": 0, "terminal_paths": 0, "sha256": "", "requires_sat": "n/a", "solver_s": 0.0, "wall_s": 0.0}


def _native_worker(spec_module: str, cname: str, n: int, seed: int):
    try:
        import logging
        import warnings
        logging.disable(logging.CRITICAL)  # the real code logs expected failures (e.g. a raising user policy)
        # (pending worker coroutines of a stand-in runner are never started: no "never awaited" noise on stderr)
        warnings.filterwarnings("ignore", category=RuntimeWarning)
        from . import native
        try:
            return native.search(spec_module, cname, n, seed, stop_at=5)
        finally:
            import gc
            gc.collect()  # never-started coroutines of stand-ins are finalised now, not at interpreter shutdown
    except Exception as e:
        return {"error": f"{e!r}\n{traceback.format_exc()[-1500:]}", "evaluations": 0, "failures": [], "skipped": 0,
                "distinct": 0}


def _custom_worker(prop: str, tier: str, seed: int):
    try:
        sys.path.insert(0, VERIF)
        mod = importlib.import_module(f"propchecks.{prop}")
        return mod.run(tier=tier, seed=seed, repo=REPO)
    except ModuleNotFoundError as e:
        if f"propchecks.{prop}" in str(e) or "propchecks" == getattr(e, "name", ""):
            return None
        return {"error": f"{e!r}\n{traceback.format_exc()[-1500:]}"}
    except Exception as e:
        return {"error": f"{e!r}\n{traceback.format_exc()[-1500:]}"}


def load_known():
    path = os.path.join(VERIF, "KNOWN_FINDINGS.jsonl")
    out = []
    if os.path.exists(path):
        for ln in open(path):
            ln = ln.strip()
            if ln and not ln.startswith("#"):
                out.append(json.loads(ln))
    return out


def has_native_gen(spec_module: str, cname: str) -> bool:
    p = os.path.join(VERIF, "natives", f"{spec_module}_gen.py")
    if not os.path.exists(p):
        return False
    return f"def gen_{cname}(" in open(p).read()


def clause_in_property(c, clause: str, kind: str, prop: str) -> bool:
    cp = c.clause_props.get(clause)
    if cp is None:
        return True
    return prop in cp


def _task_entry(conn, fn, args):
    try:
        conn.send(("ok", fn(*args)))
    except BaseException as e:  # noqa
        import traceback
        try:
            conn.send(("exc", f"{e!r}\n{traceback.format_exc()[-1500:]}"))
        except Exception:
            pass
    finally:
        conn.close()


def _run_tasks(tasks, par):
    """[(key, fn, args)] -> {key: ("ok", result) | ("exc", text) | ("died", exit code)}; one spawned interpreter per
    task, at most `par` at a time."""
    import multiprocessing
    from multiprocessing.connection import wait
    ctx = multiprocessing.get_context("spawn")
    pending = list(tasks)
    running = {}
    out = {}
    while pending or running:
        while pending and len(running) < par:
            key, fn, args = pending.pop(0)
            rd, wr = ctx.Pipe(duplex=False)
            p = ctx.Process(target=_task_entry, args=(wr, fn, args))
            p.start()
            wr.close()
            running[key] = (p, rd)
        wait([rd for _, rd in running.values()] + [p.sentinel for p, _ in running.values()], timeout=5)
        for key, (p, rd) in list(running.items()):
            got = None
            if rd.poll():
                try:
                    got = rd.recv()
                except (EOFError, OSError):
                    got = ("died", p.exitcode)
            elif not p.is_alive():
                got = ("died", p.exitcode)
            if got is not None:
                out[key] = got
                rd.close()
                p.join(5)
                if p.is_alive():
                    p.kill()
                del running[key]
    return out


def main(argv=None):
    argv = list(sys.argv[1:] if argv is None else argv)
    tier = os.environ.get("VERIF_TIER", "quick")
    if "--tier" in argv:
        i = argv.index("--tier")
        tier = argv[i + 1]
        del argv[i:i + 2]
    if not argv:
        print("usage: vcheck <Cnn> [--tier quick|thorough]")
        return 3
    prop = argv[0]
    seed = int(os.environ.get("VERIF_SEED", "0") or 0)
    t0 = time.time()
    os.makedirs(OUT, exist_ok=True)
    os.makedirs(EVID, exist_ok=True)
    os.makedirs(os.path.join(OUT, "replay"), exist_ok=True)
    specs = load_specs()
    contracts = [c for c in specs.contracts.values() if prop in c.properties]
    timeout_ms = 20000 if tier == "quick" else 60000  # nominal seconds per split part (an rlimit, see solve.py)
    n_native = 300 if tier == "quick" else 4000
    known = [k for k in load_known() if k.get("kind") == "finding" and k.get("property") == prop]
    results, natives = {}, {}
    custom = None
    # at most ~16 solver processes in total: few functions at a time, each with its share of solver workers
    par = max(1, min(4, len(contracts)))
    jobs = max(2, 16 // par)
    # big functions first (longest-processing-time order keeps the tail short)
    contracts.sort(key=lambda c_: -len(c_.ensures) - 3 * len(c_.loop_inv))
    # every task in a fresh interpreter (z3's context, counters and enum sorts are process-global).  Own process
    # management instead of ProcessPoolExecutor(max_tasks_per_child=1): that combination can deadlock in CPython
    # 3.12.1 (a finished worker is not replaced while tasks are pending) - seen once as a check that never returned
    tasks = []
    for c in contracts:
        if c.trusted:
            continue  # assumed, never verified: listed under assumptions and in the function table
        tasks.append((("v", c.fq), _verify_worker, (c.fq, timeout_ms, seed, jobs)))
        if has_native_gen(c.spec_module, c.name):
            tasks.append((("n", c.fq), _native_worker, (c.spec_module, c.name, n_native, seed)))
    tasks.append((("c", None), _custom_worker, (prop, tier, seed)))
    done = _run_tasks(tasks, par + 1)
    redo = [t for t in tasks if done[t[0]][0] != "ok"]
    if redo:
        # one more attempt, one task at a time (a worker may have been killed for memory while other jobs ran)
        second = _run_tasks([(k, f, (a[:3] + (8,) if k[0] == "v" else a)) for k, f, a in redo], 1)
        done.update(second)
    for (kind, fq_), (st_, val_) in done.items():
        if st_ != "ok":
            val_ = {"error": f"{ {'v': 'verification', 'n': 'native', 'c': 'custom'}[kind] } worker died twice: {val_}"}
            if kind == "v":
                val_["obligations"] = []
        if kind == "v":
            results[fq_] = val_
        elif kind == "n":
            natives[fq_] = val_
        else:
            custom = val_

    exit_code = 0
    lines = []
    violations = 0
    known_hit = []
    tool_errors = []
    undecided = []
    bounded_clauses = set()
    n_obl = n_dis = 0
    solver_s = 0.0
    samples = []
    fn_table = []
    native_evals = 0
    native_distinct = 0
    used_known = set()

    def match_known(fq, kind, clause, detail=""):
        for i, k in enumerate(known):
            if k.get("function") == fq and k.get("clause") == clause and k.get("obligation_kind", kind) == kind:
                return i
        return None

    for c in contracts:
        if c.trusted:
            fn_table.append({"function": c.fq, "trusted": True, "obligations": 0,
                             "note": "contract assumed at call sites, body not verified"})
            continue
        rep = results.get(c.fq, {"error": "no result", "obligations": []})
        nat = natives.get(c.fq)
        fn_table.append({"function": c.fq, "sha256": rep.get("sha256", "")[:16], "paths": rep.get("paths"),
                         "terminal_paths": rep.get("terminal_paths"), "requires_satisfiable": rep.get("requires_sat"),
                         "obligations": len(rep.get("obligations", [])),
                         "native_evaluations": (nat or {}).get("evaluations", 0), "trusted": c.trusted,
                         "reused_identical_result": bool(rep.get("cached"))})
        if rep.get("error"):
            tool_errors.append(f"{c.fq}: {rep['error']}")
            # the symbolic side cannot decide this function (changed code outside the supported subset / of another
            # shape).  For contracts declared `public_io_only` (the generator hands in only public inputs of the real
            # function, the clauses read only its public result - nothing depends on a representation the change may
            # have altered) an input on which a clause fails natively is a counterexample against the real code: it is
            # reported as a violation with its replay, next to the checker error.  Without one: undecided (exit 3).
            if getattr(c, "public_io_only", False) and nat and not nat.get("error"):
                native_evals += nat.get("evaluations", 0)
                seen_cl = set()
                for fl in nat.get("failures", []):
                    for cl, detail in fl["clauses"]:
                        if cl in seen_cl or not cl.startswith("ensures") or "clause raised" in str(detail):
                            continue
                        if match_known(c.fq, "ensures", cl) is not None or not clause_in_property(c, cl, "ensures", prop):
                            continue
                        seen_cl.add(cl)
                        from . import native
                        violations += 1
                        rpath = os.path.join(OUT, "replay", f"{prop}-{hashlib.sha1((c.fq + cl).encode()).hexdigest()[:10]}.py")
                        native.write_replay(rpath, prop, f"{c.fq}/native-contract:{cl} (symbolic side undecided: "
                                                         f"{str(rep['error'])[:120]})", c.fq, c.spec_module, c.name, seed,
                                            fl["index"], [cl])
                        lines.append(f"VIOLATION property={prop} replay={rpath}")
            continue
        if rep.get("requires_sat") == "unsat":
            tool_errors.append(f"{c.fq}: vacuous contract (requires unsatisfiable)")
        if rep.get("terminal_paths", 0) == 0:
            tool_errors.append(f"{c.fq}: no feasible terminal path (vacuous)")
        if not rep["obligations"]:
            tool_errors.append(f"{c.fq}: zero obligations generated")
        solver_s += rep.get("solver_s", 0.0)
        nat_fail_clauses = {}
        if nat:
            if nat.get("error"):
                tool_errors.append(f"native harness for {c.fq}: {nat['error']}")
            native_evals += nat.get("evaluations", 0)
            native_distinct += nat.get("distinct", 0)
            bounded_clauses.update(f"{c.fq}:{n_} ({nat.get('evaluations', 0)} inputs)"
                                   for n_ in nat.get("native_only_clauses", []))
            for fl in nat.get("failures", []):
                for cl, detail in fl["clauses"]:
                    nat_fail_clauses.setdefault(cl, []).append((fl["index"], detail, fl["input"]))
        failing_clauses = {}
        for o in rep["obligations"]:
            if not clause_in_property(c, o["clause"], o["kind"], prop):
                continue
            n_obl += 1
            if len(samples) < 6:
                samples.append({"obligation": o["id"], "status": o["status"], "solver_s": o["time"]})
            if o["status"] == "proved":
                n_dis += 1
            elif o["status"] == "skipped":
                # not attempted any further because other obligations of the function had already failed every
                # round: undecided, not a violation
                undecided.append(f"{o['id']}: {o.get('reason')}")
            else:
                failing_clauses.setdefault((o["kind"], o["clause"]), []).append(o)
        # verdicts for failing obligations
        for (kind, clause), obs in failing_clauses.items():
            ki = match_known(c.fq, kind, clause)
            nat_hits = nat_fail_clauses.get(clause, []) if kind in ("ensures", "raised") else (
                nat_fail_clauses.get("raises", []) if kind == "raises" else [])
            nat_clause = clause if kind in ("ensures", "raised") else None
            if not nat_hits and kind in ("inv-step", "inv-entry", "safe", "requires@call", "frame", "loop-source-stable"):
                # an intermediate obligation fails: any native violation of this function's contract is the
                # concrete witness (the postconditions are only proved *from* the invariants)
                for cl_, hits_ in nat_fail_clauses.items():
                    if cl_ != "requires-raised" and match_known(c.fq, "ensures", cl_) is None:
                        nat_hits, nat_clause = hits_, (cl_ if cl_ != "raises" else None)
                        break
            o = obs[0]
            if ki is not None:
                used_known.add(ki)
                known_hit.append(f"KNOWN-FINDING: property={prop} {known[ki]['what']} "
                                 f"[{c.fq} {kind}:{clause}]")
                continue
            violations += 1
            rpath = os.path.join(OUT, "replay", f"{prop}-{hashlib.sha1(o['id'].encode()).hexdigest()[:10]}")
            if nat_hits:
                from . import native
                idx = nat_hits[0][0]
                rpath += ".py"
                native.write_replay(rpath, prop, o["id"], c.fq, c.spec_module, c.name, seed, idx,
                                    [nat_clause] if nat_clause else None)
                lines.append(f"VIOLATION property={prop} replay={rpath}")
            else:
                rpath += ".txt"
                with open(rpath, "w") as f:
                    f.write(f"property: {prop}\nfailed obligation: {o['id']}\nfunction: {c.fq}\nkind: {kind}\n"
                            f"clause: {clause}\nsolver status: {o['status']}\nsolver reason: {o.get('reason')}\n"
                            f"undischarged part:\n{o.get('failed_part')}\n\nsolver model (if any):\n{o.get('model', '')}\n"
                            f"\nnative search: {'no generator' if nat is None else str(nat.get('evaluations')) + ' valid inputs, no failing input'}\n")
                lines.append(f"VIOLATION property={prop} replay={rpath} no-failing-input-found")
        # native failures on clauses whose obligations were all proved: the encoding is unsound (or the generator
        # violates an unstated assumption) -> checker error, never a pass
        for cl, hits in nat_fail_clauses.items():
            if cl in ("requires-raised",):
                continue
            if not clause_in_property(c, cl, "ensures", prop):
                continue
            if cl.startswith("native_"):
                # a clause about object identity / sharing, which the value-semantics encoding cannot state: it is
                # checked on the native inputs only (a bounded check, reported as such in the evidence) - a failing
                # input is a violation with a replay like any other
                bounded_clauses.add(f"{c.fq}:{cl}")
                if match_known(c.fq, "native", cl) is None:
                    from . import native
                    violations += 1
                    rpath = os.path.join(OUT, "replay", f"{prop}-{hashlib.sha1((c.fq + cl).encode()).hexdigest()[:10]}.py")
                    native.write_replay(rpath, prop, f"{c.fq}/native:{cl}", c.fq, c.spec_module, c.name, seed,
                                        hits[0][0], [cl])
                    lines.append(f"VIOLATION property={prop} replay={rpath}")
                continue
            # verification is modular: a caller is proved against its callees' CONTRACTS, so when some function of
            # this run fails its own contract, native failures of its callers are expected consequences, not a
            # disagreement between the encoding and CPython
            sym_failed = any(o_["status"] != "proved" and match_known(c2.fq, o_["kind"], o_["clause"]) is None
                             for c2 in contracts for o_ in results.get(c2.fq, {}).get("obligations", []))
            if not sym_failed and match_known(c.fq, "ensures", cl) is None:
                tool_errors.append(f"cross-check mismatch: {c.fq} clause {cl} fails natively (input #{hits[0][0]}: "
                                   f"{hits[0][1][:200]}) although every obligation of it was discharged")

    # custom (non-SMT) obligations of this property
    if custom is not None:
        if custom.get("error"):
            tool_errors.append(f"propchecks.{prop}: {custom['error']}")
        else:
            for o in custom.get("obligations", []):
                n_obl += 1
                if len(samples) < 10:
                    samples.append({"obligation": o["id"], "status": o["status"], "backend": o.get("backend")})
                if o["status"] == "proved":
                    n_dis += 1
                    continue
                ki = None
                for i, k in enumerate(known):
                    if k.get("obligation") == o["id"]:
                        ki = i
                if ki is not None:
                    used_known.add(ki)
                    known_hit.append(f"KNOWN-FINDING: property={prop} {known[ki]['what']} [{o['id']}]")
                    continue
                if o["status"] == "error":
                    tool_errors.append(f"{o['id']}: {o.get('detail')}")
                    continue
                violations += 1
                rp = o.get("replay")
                if rp:
                    lines.append(f"VIOLATION property={prop} replay={rp}")
                else:
                    rp = os.path.join(OUT, "replay", f"{prop}-{hashlib.sha1(o['id'].encode()).hexdigest()[:10]}.txt")
                    with open(rp, "w") as f:
                        f.write(f"property: {prop}\nfailed obligation: {o['id']}\n{o.get('detail', '')}\n")
                    lines.append(f"VIOLATION property={prop} replay={rp} no-failing-input-found")
            solver_s += custom.get("solver_s", 0.0)
            native_evals += custom.get("native_evaluations", 0)
            native_distinct += custom.get("native_distinct", 0)
            fn_table.extend(custom.get("functions", []))

    if not contracts and custom is None:
        tool_errors.append(f"no contract and no custom check serves {prop}")
    if n_obl == 0:
        tool_errors.append("zero obligations (vacuous run)")

    for ln in known_hit:
        print(ln)
    for ln in lines:
        print(ln)
    if tool_errors:
        for e in tool_errors:
            print("CHECKER-ERROR:", e[:1500])
    for u in undecided[:5]:
        print("UNDECIDED:", u[:400])
    if len(undecided) > 5:
        print(f"UNDECIDED: ... and {len(undecided) - 5} more obligations")
    if violations:
        exit_code = 1
    elif tool_errors:
        exit_code = 3
    elif undecided:
        exit_code = 2
    wall = time.time() - t0
    assumptions = list(COMMON_ASSUMPTIONS)
    for c in contracts:
        if c.trusted:
            assumptions.append(f"trusted (unverified) contract: {c.fq}")
        for an in c.assumes:
            assumptions.append(f"assumed lemma instance at entry of {c.fq}: {an}")
        if c.notes:
            assumptions.append(f"{c.fq}: {c.notes}")
    for bc in sorted(bounded_clauses):
        assumptions.append(f"BOUNDED, not proved: clause {bc} is stated for the native side only (object identity / "
                           f"sharing of mutable parts, duplicate-freeness of a list: facts the value-semantics encoding "
                           f"does not express); it is checked on random native inputs, not discharged by the solver")
    if custom and not custom.get("error"):
        assumptions.extend(custom.get("assumptions", []))
    assumptions.extend(f"spec scan: {s}" for s in specs.assumption_scan if any(
        s.startswith(c.spec_module + ".py") for c in contracts))
    all_ok = (n_dis == n_obl and not tool_errors)
    # the evidence is a record for the level claimed in MANIFEST.json; a proof-level record needs every obligation
    # discharged - a run that falls short of that (a violation, or a recorded known finding) is recorded as `other`
    level = "proof" if all_ok else "other"
    try:
        with open(os.path.join(VERIF, "MANIFEST.json")) as mf:
            for ch in json.load(mf).get("checks", []):
                if ch.get("property_id") == prop:
                    claimed = ch["level_claimed"]["category"]
                    level = claimed if (claimed != "proof" or all_ok) else "other"
    except Exception:
        pass
    distinct_obls = len({(o_.get("id")) for c2 in contracts for o_ in results.get(c2.fq, {}).get("obligations", [])
                         if clause_in_property(c2, o_["clause"], o_["kind"], prop) and not o_.get("trivial")})
    if custom and not custom.get("error"):
        distinct_obls += len({o_["id"] for o_ in custom.get("obligations", [])})
    cov = {
        "obligations": n_obl, "discharged": n_dis,
        "checker_cmd": f"./vcheck {prop} --tier {tier}",
        "trusted_base": ["z3 5.1 (unsat answers)", "pyvc symbolic executor (this repository)",
                         "CPython ast module", "replay_support/llama_index_instrumentation (native side only)"],
        "functions_under_contract": fn_table,
        "solver_seconds": round(solver_s, 2),
        "backend": "z3-5.1 python API" + (" + custom AST obligations" if custom else ""),
        "known_finding_obligations": len(known_hit),
        "bounded_not_proved": sorted(bounded_clauses),
        "native_cross_check_evaluations": native_evals,
        "evaluations": n_obl + native_evals,
        "distinct_nontrivial": distinct_obls + native_distinct,
        "rule": "a case is either a proof obligation (function, clause kind, clause, path signature) generated from "
                "the current source and handed to the solver - distinct by its id, counted as non-trivial unless its "
                "goal simplifies to the constant true - or a native cross-check input (random argument "
                "tuple satisfying the contract's precondition, run through the real function) - distinct by repr",
        "samples": samples or [{"note": "none"}],
        "explanation": (f"{n_dis}/{n_obl} obligations discharged; {len(known_hit)} obligation groups fail as recorded "
                        f"known findings; see KNOWN_FINDINGS.jsonl" if not all_ok else
                        f"all {n_obl} obligations discharged"),
    }
    if custom and not custom.get("error"):
        cov.update(custom.get("coverage_extra", {}))
    ev = {"property_id": prop, "tier": tier, "seed": seed, "level": level, "coverage": cov,
          "assumptions": assumptions, "wall_s": round(wall, 2), "violations": violations}
    with open(os.path.join(EVID, f"{prop}.json"), "w") as f:
        json.dump(ev, f, indent=1)
    print(f"{prop}: obligations={n_obl} discharged={n_dis} known-findings={len(known_hit)} violations={violations} "
          f"errors={len(tool_errors)} native-evals={native_evals} wall={wall:.1f}s exit={exit_code}")
    return exit_code


if __name__ == "__main__":
    sys.exit(main())
