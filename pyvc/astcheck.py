"""Contract obligations that are decided on the AST of the real class (no SMT): lock discipline (`guarded_by`),
resource ownership (who may close a connection), call-site existence.  Each helper returns a list of obligation
dicts  {id, status: proved|refuted, detail, backend: 'ast'}  for pyvc.check's custom channel (propchecks/<Cnn>.py)."""
from __future__ import annotations

import ast

from .extract import Repo


def parents(tree):
    par = {}
    for n in ast.walk(tree):
        for ch in ast.iter_child_nodes(n):
            par[ch] = n
    return par


def under_lock(node, par, lock_expr: str) -> bool:
    """is `node` lexically inside `async with <lock_expr>:` / `with <lock_expr>:`"""
    cur = node
    while cur in par:
        cur = par[cur]
        if isinstance(cur, (ast.AsyncWith, ast.With)):
            for it in cur.items:
                if ast.unparse(it.context_expr) == lock_expr:
                    return True
        if isinstance(cur, (ast.FunctionDef, ast.AsyncFunctionDef)):
            return False
    return False


def ob(oid, ok, detail="", line=0):
    return {"id": oid, "status": "proved" if ok else "refuted", "detail": detail, "backend": "ast", "line": line}


def guarded_by(repo: Repo, module: str, cls: str, lock_expr: str, is_write, delegates=(), exempt=("__init__",),
               yield_methods=(), is_read=None):
    """Lock-discipline contract of a class:  guarded_by(lock) on its state.

    * every write site (is_write(node) -> description | None) in a method outside `exempt` is inside
      `async with <lock_expr>` of that method, unless the statement is a call to a method in `delegates`
      (which is itself checked);
    * in each method of `yield_methods` (transactional context managers) every `yield` is inside the lock;
    * read-modify-write atomicity: in a method that writes, every read site (is_read(node) -> description | None) is
      inside the lock as well (a value read before the lock is taken may be stale when it is written back).
    """
    m = repo.module(module)
    ci = m.classes[cls]
    out = []
    for name, fi in ci.methods.items():
        if name in exempt:
            continue
        par = parents(fi.node)
        for n in ast.walk(fi.node):
            desc = is_write(n)
            if desc:
                ok = under_lock(n, par, lock_expr)
                out.append(ob(f"{module}.{cls}.{name}/guarded-write:{desc}@L{n.lineno}", ok,
                              f"write `{ast.unparse(n)[:90]}` at line {n.lineno} of {cls}.{name} is "
                              f"{'inside' if ok else 'NOT inside'} `async with {lock_expr}`", n.lineno))
        if is_read is not None and any(is_write(n) for n in ast.walk(fi.node)):
            for n in ast.walk(fi.node):
                desc = is_read(n)
                if desc:
                    ok = under_lock(n, par, lock_expr)
                    out.append(ob(f"{module}.{cls}.{name}/guarded-read-before-write:{desc}@L{n.lineno}", ok,
                                  f"{cls}.{name} writes the shared state; its read `{ast.unparse(n)[:90]}` at line "
                                  f"{n.lineno} is {'inside' if ok else 'NOT inside'} `async with {lock_expr}` (a value "
                                  f"read outside the lock may be stale when written back)", n.lineno))
        if name in yield_methods:
            for n in ast.walk(fi.node):
                if isinstance(n, (ast.Yield, ast.YieldFrom)):
                    ok = under_lock(n, par, lock_expr)
                    out.append(ob(f"{module}.{cls}.{name}/yield-under-lock@L{n.lineno}", ok,
                                  f"the transactional block of {cls}.{name} {'holds' if ok else 'does NOT hold'} "
                                  f"{lock_expr} while the caller's code runs", n.lineno))
    return out


def close_requires_ownership(repo: Repo, module: str, cls: str, connect_call: str, shared_attr: str):
    """Ownership contract:  <connect_call>() returns a connection the caller OWNS iff self.<shared_attr> is None.
    `x.close()` on a connection obtained from <connect_call>() requires ownership: it must be guarded by a test that
    excludes the shared connection (or go through a helper method whose body contains such a guarded close)."""
    m = repo.module(module)
    ci = m.classes[cls]
    out = []
    shared = f"self.{shared_attr}"

    def guard_ok(node, par, var):
        cur = node
        while cur in par:
            p = par[cur]
            if isinstance(p, ast.If) and cur in p.body:
                t = ast.unparse(p.test)
                if t in (f"{shared} is None", f"{var} is not {shared}", f"{shared} is not {var}", f"not {shared}"):
                    return True
                # a boolean set from one of these tests
                if isinstance(p.test, ast.Name):
                    fn = cur
                    while fn in par and not isinstance(fn, (ast.FunctionDef, ast.AsyncFunctionDef)):
                        fn = par[fn]
                    for s in ast.walk(fn):
                        if isinstance(s, ast.Assign) and any(isinstance(t2, ast.Name) and t2.id == p.test.id
                                                             for t2 in s.targets):
                            src = ast.unparse(s.value)
                            if src in (f"{shared} is None", f"{var} is not {shared}"):
                                return True
            cur = p
        return False

    helper_ok = set()
    for name, fi in ci.methods.items():
        par = parents(fi.node)
        for n in ast.walk(fi.node):
            if isinstance(n, ast.Call) and isinstance(n.func, ast.Attribute) and n.func.attr == "close" \
                    and isinstance(n.func.value, ast.Name) and fi.node.args.args[1:] \
                    and n.func.value.id == fi.node.args.args[1].arg and guard_ok(n, par, n.func.value.id):
                helper_ok.add(name)  # def _release(self, conn): if conn is not self._shared_conn: conn.close()
    for name, fi in ci.methods.items():
        par = parents(fi.node)
        conn_vars = set()
        for n in ast.walk(fi.node):
            if isinstance(n, ast.Assign) and isinstance(n.value, ast.Call) and ast.unparse(n.value.func) == connect_call:
                for t in n.targets:
                    if isinstance(t, ast.Name):
                        conn_vars.add(t.id)
        for n in ast.walk(fi.node):
            if isinstance(n, ast.Call) and isinstance(n.func, ast.Attribute) and n.func.attr == "close" \
                    and isinstance(n.func.value, ast.Name) and n.func.value.id in conn_vars:
                var = n.func.value.id
                ok = guard_ok(n, par, var)
                out.append(ob(f"{module}.{cls}.{name}/close-requires-ownership@L{n.lineno}", ok,
                              f"`{var}.close()` at line {n.lineno} of {cls}.{name}: `{var}` comes from {connect_call}() "
                              f"and may be the shared connection {shared}; the close is "
                              f"{'guarded' if ok else 'NOT guarded'} by an ownership test", n.lineno))
        # contextlib.closing(X) closes X when the with-block ends; `with X:` on a sqlite connection does not close it
        for n in ast.walk(fi.node):
            if isinstance(n, (ast.With, ast.AsyncWith)):
                for item in n.items:
                    ce = item.context_expr
                    if isinstance(ce, ast.Call) and ast.unparse(ce.func).split(".")[-1] == "closing" and ce.args:
                        a0 = ce.args[0]
                        from_connect = (isinstance(a0, ast.Call) and ast.unparse(a0.func) == connect_call) or \
                                       (isinstance(a0, ast.Name) and a0.id in conn_vars)
                        if from_connect:
                            var = ast.unparse(a0)
                            ok = guard_ok(n, par, var)
                            out.append(ob(f"{module}.{cls}.{name}/close-requires-ownership@L{n.lineno}", ok,
                                          f"`closing({var})` at line {n.lineno} of {cls}.{name} closes a connection "
                                          f"obtained from {connect_call}(), which may be the shared connection "
                                          f"{shared}; it is {'guarded' if ok else 'NOT guarded'} by an ownership test",
                                          n.lineno))
    return out
