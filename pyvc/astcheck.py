"""Contract obligations that are decided on the AST of the real class (no SMT): lock discipline (`guarded_by`),
resource ownership (who may close a connection), call-site existence.  Each helper returns a list of obligation
dicts  {id, status: proved|refuted, detail, backend: 'ast'}  for pyvc.check's custom channel (propchecks/<Cnn>.py)."""
from __future__ import annotations

import ast

from .extract import Repo


def parents(tree):
    par = {}
    for n in ast.walk(tree):
        for ch in ast.iter_child_nodes(n):
            par[ch] = n
    return par


def under_lock(node, par, lock_expr: str) -> bool:
    """is `node` lexically inside `async with <lock_expr>:` / `with <lock_expr>:`"""
    cur = node
    while cur in par:
        cur = par[cur]
        if isinstance(cur, (ast.AsyncWith, ast.With)):
            for it in cur.items:
                if ast.unparse(it.context_expr) == lock_expr:
                    return True
        if isinstance(cur, (ast.FunctionDef, ast.AsyncFunctionDef)):
            return False
    return False


def ob(oid, ok, detail="", line=0):
    return {"id": oid, "status": "proved" if ok else "refuted", "detail": detail, "backend": "ast", "line": line}


def guarded_by(repo: Repo, module: str, cls: str, lock_expr: str, is_write, delegates=(), exempt=("__init__",),
               yield_methods=(), is_read=None):
    """Lock-discipline contract of a class:  guarded_by(lock) on its state.

    * every write site (is_write(node) -> description | None) in a method outside `exempt` is inside
      `async with <lock_expr>` of that method, unless the statement is a call to a method in `delegates`
      (which is itself checked);
    * in each method of `yield_methods` (transactional context managers) every `yield` is inside the lock;
    * read-modify-write atomicity: in a method that writes, every read site (is_read(node) -> description | None) is
      inside the lock as well (a value read before the lock is taken may be stale when it is written back).
    """
    m = repo.module(module)
    ci = m.classes[cls]
    out = []
    for name, fi in ci.methods.items():
        if name in exempt:
            continue
        par = parents(fi.node)
        for n in ast.walk(fi.node):
            desc = is_write(n)
            if desc:
                ok = under_lock(n, par, lock_expr)
                out.append(ob(f"{module}.{cls}.{name}/guarded-write:{desc}@L{n.lineno}", ok,
                              f"write `{ast.unparse(n)[:90]}` at line {n.lineno} of {cls}.{name} is "
                              f"{'inside' if ok else 'NOT inside'} `async with {lock_expr}`", n.lineno))
        if is_read is not None and any(is_write(n) for n in ast.walk(fi.node)):
            for n in ast.walk(fi.node):
                desc = is_read(n)
                if desc:
                    ok = under_lock(n, par, lock_expr)
                    out.append(ob(f"{module}.{cls}.{name}/guarded-read-before-write:{desc}@L{n.lineno}", ok,
                                  f"{cls}.{name} writes the shared state; its read `{ast.unparse(n)[:90]}` at line "
                                  f"{n.lineno} is {'inside' if ok else 'NOT inside'} `async with {lock_expr}` (a value "
                                  f"read outside the lock may be stale when written back)", n.lineno))
        if name in yield_methods:
            for n in ast.walk(fi.node):
                if isinstance(n, (ast.Yield, ast.YieldFrom)):
                    ok = under_lock(n, par, lock_expr)
                    out.append(ob(f"{module}.{cls}.{name}/yield-under-lock@L{n.lineno}", ok,
                                  f"the transactional block of {cls}.{name} {'holds' if ok else 'does NOT hold'} "
                                  f"{lock_expr} while the caller's code runs", n.lineno))
    return out


def close_requires_ownership(repo: Repo, module: str, cls: str, connect_call: str, shared_attr: str):
    """Ownership contract:  <connect_call>() returns a connection the caller OWNS iff self.<shared_attr> is None.
    `x.close()` on a connection obtained from <connect_call>() requires ownership: it must be guarded by a test that
    excludes the shared connection (or go through a helper method whose body contains such a guarded close)."""
    m = repo.module(module)
    ci = m.classes[cls]
    out = []
    shared = f"self.{shared_attr}"

    def guard_ok(node, par, var):
        cur = node
        while cur in par:
            p = par[cur]
            if isinstance(p, ast.If) and cur in p.body:
                t = ast.unparse(p.test)
                if t in (f"{shared} is None", f"{var} is not {shared}", f"{shared} is not {var}", f"not {shared}"):
                    return True
                # a boolean set from one of these tests
                if isinstance(p.test, ast.Name):
                    fn = cur
                    while fn in par and not isinstance(fn, (ast.FunctionDef, ast.AsyncFunctionDef)):
                        fn = par[fn]
                    for s in ast.walk(fn):
                        if isinstance(s, ast.Assign) and any(isinstance(t2, ast.Name) and t2.id == p.test.id
                                                             for t2 in s.targets):
                            src = ast.unparse(s.value)
                            if src in (f"{shared} is None", f"{var} is not {shared}"):
                                return True
            cur = p
        return False

    helper_ok = set()
    for name, fi in ci.methods.items():
        par = parents(fi.node)
        for n in ast.walk(fi.node):
            if isinstance(n, ast.Call) and isinstance(n.func, ast.Attribute) and n.func.attr == "close" \
                    and isinstance(n.func.value, ast.Name) and fi.node.args.args[1:] \
                    and n.func.value.id == fi.node.args.args[1].arg and guard_ok(n, par, n.func.value.id):
                helper_ok.add(name)  # def _release(self, conn): if conn is not self._shared_conn: conn.close()
    for name, fi in ci.methods.items():
        par = parents(fi.node)
        conn_vars = set()
        for n in ast.walk(fi.node):
            if isinstance(n, ast.Assign) and isinstance(n.value, ast.Call) and ast.unparse(n.value.func) == connect_call:
                for t in n.targets:
                    if isinstance(t, ast.Name):
                        conn_vars.add(t.id)
        for n in ast.walk(fi.node):
            if isinstance(n, ast.Call) and isinstance(n.func, ast.Attribute) and n.func.attr == "close" \
                    and isinstance(n.func.value, ast.Name) and n.func.value.id in conn_vars:
                var = n.func.value.id
                ok = guard_ok(n, par, var)
                out.append(ob(f"{module}.{cls}.{name}/close-requires-ownership@L{n.lineno}", ok,
                              f"`{var}.close()` at line {n.lineno} of {cls}.{name}: `{var}` comes from {connect_call}() "
                              f"and may be the shared connection {shared}; the close is "
                              f"{'guarded' if ok else 'NOT guarded'} by an ownership test", n.lineno))
        # contextlib.closing(X) closes X when the with-block ends; `with X:` on a sqlite connection does not close it
        for n in ast.walk(fi.node):
            if isinstance(n, (ast.With, ast.AsyncWith)):
                for item in n.items:
                    ce = item.context_expr
                    if isinstance(ce, ast.Call) and ast.unparse(ce.func).split(".")[-1] == "closing" and ce.args:
                        a0 = ce.args[0]
                        from_connect = (isinstance(a0, ast.Call) and ast.unparse(a0.func) == connect_call) or \
                                       (isinstance(a0, ast.Name) and a0.id in conn_vars)
                        if from_connect:
                            var = ast.unparse(a0)
                            ok = guard_ok(n, par, var)
                            out.append(ob(f"{module}.{cls}.{name}/close-requires-ownership@L{n.lineno}", ok,
                                          f"`closing({var})` at line {n.lineno} of {cls}.{name} closes a connection "
                                          f"obtained from {connect_call}(), which may be the shared connection "
                                          f"{shared}; it is {'guarded' if ok else 'NOT guarded'} by an ownership test",
                                          n.lineno))
    return out


def keyed_lock_structure(repo: Repo, module: str, cls: str, method: str, main_lock: str, tables=("self._locks", "self._refs")):
    """Structural obligations of a generator-based keyed lock (decided on the AST of the real method):
    the two table-updating sections run under the main lock without any await / yield inside; the caller's block
    (`yield`) runs while the per-key lock is held; deregistration is in the `finally` of the try that holds the yield
    (so that holders AND cancelled waiters deregister); every other access to the tables is the read of the key's lock
    for acquiring it."""
    m = repo.module(module)
    fi = m.classes[cls].methods[method]
    par = parents(fi.node)
    out = []
    pre = f"{module}.{cls}.{method}"
    withs = sorted([n for n in ast.walk(fi.node) if isinstance(n, (ast.With, ast.AsyncWith))],
                   key=lambda n: (n.lineno, n.col_offset))
    main = [w for w in withs if any(ast.unparse(i.context_expr) == main_lock for i in w.items)]
    keyw = [w for w in withs if any(ast.unparse(i.context_expr).startswith("self._locks[") for i in w.items)]
    out.append(ob(f"{pre}/two-main-lock-sections", len(main) == 2 and len(keyw) == 1,
                  f"{len(main)} sections under {main_lock}, {len(keyw)} under the per-key lock", fi.lineno))
    # atomic sections: no await / yield inside the main-lock blocks
    for k, w in enumerate(main, 1):
        inner = [n for st in w.body for n in ast.walk(st) if isinstance(n, (ast.Await, ast.Yield, ast.YieldFrom,
                                                                           ast.AsyncWith, ast.AsyncFor))]
        out.append(ob(f"{pre}/atomic-section-{k}@L{w.lineno}", not inner,
                      f"the section under {main_lock} at line {w.lineno} contains "
                      f"{'no' if not inner else 'an'} await / yield (no other coroutine can interleave)", w.lineno))
    # table accesses are under the main lock, except the read of the key's lock in the per-key with item
    for n in ast.walk(fi.node):
        if isinstance(n, ast.Attribute) and ast.unparse(n) in tables:
            ok = under_lock(n, par, main_lock)
            if not ok:
                cur, in_item = n, False
                while cur in par:
                    p = par[cur]
                    if isinstance(p, ast.withitem) and any(p in w.items for w in keyw):
                        in_item = True
                    cur = p
                ok = in_item and isinstance(n.ctx, ast.Load)
            out.append(ob(f"{pre}/table-access@L{n.lineno}:{n.col_offset}", ok,
                          f"`{ast.unparse(n)}` at line {n.lineno} is {'' if ok else 'NOT '}under {main_lock} "
                          f"(or the read of the key's lock to acquire it)", n.lineno))
    # the yield runs under the per-key lock, inside a try whose finally holds the second main-lock section
    ys = [n for n in ast.walk(fi.node) if isinstance(n, (ast.Yield, ast.YieldFrom))]
    out.append(ob(f"{pre}/single-yield", len(ys) == 1, f"{len(ys)} yield(s)", fi.lineno))
    for y in ys:
        held = bool(keyw) and any(_inside(y, w, par) for w in keyw)
        out.append(ob(f"{pre}/yield-under-key-lock@L{y.lineno}", held,
                      f"the caller's block runs {'while' if held else 'WITHOUT'} holding the key's lock", y.lineno))
        trys = [t for t in ast.walk(fi.node) if isinstance(t, ast.Try) and any(_inside(y, s, par) or s is y for s in t.body)]
        fin_ok = len(main) == 2 and any(any(main[1] is s or _inside(main[1], s, par) for s in t.finalbody) for t in trys)
        out.append(ob(f"{pre}/deregister-in-finally@L{y.lineno}", fin_ok,
                      "the deregistration section is in the `finally` of the try that contains the yield: it runs for "
                      "holders, for failing blocks and for waiters cancelled while waiting for the key's lock"
                      if fin_ok else "the deregistration section is NOT in a finally around the yield", y.lineno))
        reg_first = len(main) == 2 and main[0].lineno < min((t.lineno for t in trys), default=10 ** 9)
        out.append(ob(f"{pre}/register-before-try@L{y.lineno}", reg_first,
                      "registration happens before the try (a coroutine deregisters only what it registered)", y.lineno))
    return out


def _inside(node, container, par) -> bool:
    cur = node
    while cur in par:
        cur = par[cur]
        if cur is container:
            return True
    return False


def _method(repo: Repo, module: str, cls: str | None, method: str):
    m = repo.module(module)
    return m.classes[cls].methods[method] if cls else m.functions[method]


def yields_under_with(repo: Repo, module: str, cls, method: str, ctx_src: str, only_in_branch_of: str | None = None):
    """every `yield` of the method that lies in the branch guarded by `only_in_branch_of` (source text of an if-test;
    the else-branch when prefixed with 'not ') is inside `with/async with <ctx_src>`"""
    fi = _method(repo, module, cls, method)
    par = parents(fi.node)
    out = []
    for y in [n for n in ast.walk(fi.node) if isinstance(n, (ast.Yield, ast.YieldFrom))]:
        held = False
        cur = y
        while cur in par:
            cur = par[cur]
            if isinstance(cur, (ast.With, ast.AsyncWith)) and any(ast.unparse(i.context_expr) == ctx_src for i in cur.items):
                held = True
        in_branch = True
        if only_in_branch_of is not None:
            neg = only_in_branch_of.startswith("not ")
            test = only_in_branch_of[4:] if neg else only_in_branch_of
            in_branch = False
            cur = y
            while cur in par:
                p = par[cur]
                if isinstance(p, ast.If) and ast.unparse(p.test) == test:
                    in_branch = (cur in p.orelse) if neg else (cur in p.body)
                    # a node deep inside: find which arm contains it
                    if not in_branch:
                        arm = p.orelse if neg else p.body
                        in_branch = any(cur is s or _inside(cur, s, par) for s in arm)
                cur = p
        if in_branch:
            out.append(ob(f"{module}.{cls}.{method}/yield-under:{ctx_src}@L{y.lineno}", held,
                          f"the caller's block (yield at line {y.lineno}) runs {'inside' if held else 'OUTSIDE'} "
                          f"`async with {ctx_src}`", y.lineno))
    return out


def no_await_before_with(repo: Repo, module: str, cls, method: str, ctx_src: str):
    """the statements that precede `async with <ctx_src>` in its own block contain no await / yield (they form one
    atomic section together with the evaluation of the context expression)"""
    fi = _method(repo, module, cls, method)
    par = parents(fi.node)
    out = []
    for w in [n for n in ast.walk(fi.node) if isinstance(n, (ast.With, ast.AsyncWith))
              and any(ast.unparse(i.context_expr) == ctx_src for i in n.items)]:
        p = par.get(w)
        blk = next((getattr(p, f) for f in ("body", "orelse", "finalbody") if w in getattr(p, f, [])), None)
        pre = blk[: blk.index(w)] if blk else []
        bad = [n for st in pre for n in ast.walk(st) if isinstance(n, (ast.Await, ast.Yield, ast.YieldFrom, ast.AsyncWith,
                                                                       ast.AsyncFor))]
        out.append(ob(f"{module}.{cls}.{method}/atomic-before-with:{ctx_src}@L{w.lineno}", not bad,
                      f"no await / yield between the start of the block and `async with {ctx_src}` at line {w.lineno}"
                      if not bad else f"an await / yield precedes `async with {ctx_src}` in its block", w.lineno))
    return out


def awaited_call_under_with(repo: Repo, module: str, cls, method: str, call_prefix: str, ctx_prefix: str):
    """every awaited call whose source starts with call_prefix is inside `async with <ctx_prefix>...`"""
    fi = _method(repo, module, cls, method)
    out = []
    for fn in [fi.node] + [n for n in ast.walk(fi.node) if isinstance(n, (ast.FunctionDef, ast.AsyncFunctionDef))]:
        par = parents(fn)
        for n in ast.walk(fn):
            if isinstance(n, ast.Await) and isinstance(n.value, ast.Call) and ast.unparse(n.value.func).startswith(call_prefix):
                held = False
                cur = n
                while cur in par:
                    cur = par[cur]
                    if isinstance(cur, (ast.With, ast.AsyncWith)) and any(
                            ast.unparse(i.context_expr).startswith(ctx_prefix) for i in cur.items):
                        held = True
                key = f"{module}.{cls}.{method}/call-under:{call_prefix}@L{n.lineno}"
                if not any(o["id"] == key for o in out):
                    out.append(ob(key, held, f"`await {ast.unparse(n.value)[:70]}` at line {n.lineno} runs "
                                             f"{'inside' if held else 'OUTSIDE'} `async with {ctx_prefix}...`", n.lineno))
    return out


def call_present_under_with(repo: Repo, module: str, cls, method: str, call_src_suffix: str, ctx_src: str):
    """the method contains a call whose function text ends with call_src_suffix, inside `with/async with <ctx_src>`"""
    fi = _method(repo, module, cls, method)
    par = parents(fi.node)
    found = []
    for n in ast.walk(fi.node):
        if isinstance(n, ast.Call) and ast.unparse(n.func).endswith(call_src_suffix):
            cur, held = n, False
            while cur in par:
                cur = par[cur]
                if isinstance(cur, (ast.With, ast.AsyncWith)) and any(ast.unparse(i.context_expr) == ctx_src for i in cur.items):
                    held = True
            found.append((n, held))
    ok = any(h for _, h in found)
    return [ob(f"{module}.{cls}.{method}/calls:{call_src_suffix}", ok,
               f"{cls}.{method} {'calls' if ok else 'does NOT call'} `{call_src_suffix}(...)` inside `async with {ctx_src}` "
               f"({len(found)} call site(s) found)", fi.lineno)]


def attr_initialised_as(repo: Repo, module: str, cls: str, attr: str, ctor_src: str):
    """__init__ assigns self.<attr> = <ctor_src>(...)"""
    fi = _method(repo, module, cls, "__init__")
    ok = False
    for n in ast.walk(fi.node):
        tgt = None
        if isinstance(n, ast.Assign) and len(n.targets) == 1:
            tgt, val = n.targets[0], n.value
        elif isinstance(n, ast.AnnAssign) and n.value is not None:
            tgt, val = n.target, n.value
        if tgt is not None and ast.unparse(tgt) == f"self.{attr}" and isinstance(val, ast.Call) \
                and ast.unparse(val.func) == ctor_src:
            ok = True
    return [ob(f"{module}.{cls}.__init__/{attr}-is-{ctor_src}", ok,
               f"self.{attr} is {'' if ok else 'NOT '}created as {ctor_src}(...)", fi.lineno)]


def returns_call(repo: Repo, module: str, cls, method: str, call_src: str):
    """every `return` of the method returns `<call_src>(...)` (e.g. the clock a timestamp is taken from)"""
    fi = _method(repo, module, cls, method)
    rets = [n for n in ast.walk(fi.node) if isinstance(n, ast.Return)]
    ok = bool(rets) and all(isinstance(r.value, ast.Call) and ast.unparse(r.value.func) == call_src for r in rets)
    got = ", ".join(ast.unparse(r.value) if r.value is not None else "None" for r in rets)
    return [ob(f"{module}.{cls}.{method}/returns:{call_src}", ok,
               f"{cls}.{method} returns {got}; the contract wants {call_src}()", fi.lineno)]


def calls_with_kw_from(repo: Repo, module: str, cls, method: str, ctor_suffix: str, kw: str, allowed_srcs: tuple):
    """every call `<..ctor_suffix>(..., kw=<expr>)` in the method takes kw from one of the allowed source texts"""
    fi = _method(repo, module, cls, method)
    out = []
    for fn in [fi.node] + [n for n in ast.walk(fi.node) if isinstance(n, (ast.FunctionDef, ast.AsyncFunctionDef))]:
        for n in ast.walk(fn):
            if isinstance(n, ast.Call) and ast.unparse(n.func).endswith(ctor_suffix):
                for k in n.keywords:
                    if k.arg == kw:
                        src = ast.unparse(k.value)
                        key = f"{module}.{cls}.{method}/{ctor_suffix}.{kw}@L{n.lineno}"
                        if not any(o["id"] == key for o in out):
                            out.append(ob(key, src in allowed_srcs, f"{ctor_suffix}({kw}={src}) at line {n.lineno}; "
                                                                    f"allowed clock expressions: {allowed_srcs}", n.lineno))
    return out


def loop_consumes_whole_iterable(repo: Repo, module: str, cls, method: str, iter_src: str):
    """the function has exactly one `for` / `async for` loop over `<iter_src>` and nothing leaves it early: no
    `return` inside it and no `break` that belongs to it (a `for` loop without early exit visits every element, in
    order - which is what "every recorded tick is replayed" means for a replay function)"""
    fi = _method(repo, module, cls, method)
    par = parents(fi.node)
    loops = [n for n in ast.walk(fi.node) if isinstance(n, (ast.For, ast.AsyncFor)) and ast.unparse(n.iter) == iter_src]
    name = f"{module}.{(cls + '.') if cls else ''}{method}"
    if len(loops) != 1:
        return [ob(f"{name}/whole-iterable:{iter_src}", False,
                   f"{method}: expected exactly one loop over `{iter_src}`, found {len(loops)}", fi.lineno)]
    loop = loops[0]
    early = []
    for n in ast.walk(loop):
        if n is loop or not _inside(n, loop, par):
            continue
        cur, nested_def, nearest_loop = n, False, None
        while cur is not loop:
            cur = par[cur]
            if isinstance(cur, (ast.FunctionDef, ast.AsyncFunctionDef, ast.Lambda)):
                nested_def = True
            if nearest_loop is None and isinstance(cur, (ast.For, ast.AsyncFor, ast.While)):
                nearest_loop = cur
        if nested_def:
            continue
        if isinstance(n, ast.Return) or (isinstance(n, ast.Break) and nearest_loop is loop):
            early.append(n)
    ok = not early
    return [ob(f"{name}/whole-iterable:{iter_src}", ok,
               f"{method}: the loop over `{iter_src}` (line {loop.lineno}) "
               + ("has no early exit: every element is visited, in order" if ok else
                  "is left early at line(s) " + ", ".join(str(e.lineno) for e in early)
                  + " - the remaining elements are never replayed"), loop.lineno)]


def yields_checked_for_terminal(repo: Repo, module: str, cls, method: str, test_suffix: str):
    """every `yield x` of the (async) generator lies in a `for x in <batch>` loop whose body, after the yield, tests
    `<...test_suffix>(x)` on that same element and returns: the stream ends right after the first terminal event,
    whatever position it has in a batch"""
    fi = _method(repo, module, cls, method)
    par = parents(fi.node)
    name = f"{module}.{cls}.{method}"
    ys = [n for n in ast.walk(fi.node) if isinstance(n, ast.Yield)]
    bad = []
    for y in ys:
        stmt = par.get(y)  # Expr statement holding the yield
        loop = par.get(stmt)
        ok = (isinstance(stmt, ast.Expr) and isinstance(loop, (ast.For, ast.AsyncFor)) and stmt in loop.body
              and isinstance(loop.target, ast.Name) and isinstance(y.value, ast.Name) and y.value.id == loop.target.id)
        if ok:
            after = loop.body[loop.body.index(stmt) + 1:]
            ok = any(
                isinstance(s, ast.If) and isinstance(s.test, ast.Call) and ast.unparse(s.test.func).endswith(test_suffix)
                and len(s.test.args) == 1 and isinstance(s.test.args[0], ast.Name) and s.test.args[0].id == loop.target.id
                and any(isinstance(b, ast.Return) for b in s.body)
                for s in after)
        if not ok:
            bad.append(y.lineno)
    good = bool(ys) and not bad
    return [ob(f"{name}/terminal-test-per-yield:{test_suffix}", good,
               f"{cls}.{method}: " + ("every yielded event is tested with " + test_suffix + "() and the generator returns on "
                                      "the first terminal one" if good else
                                      (f"yield at line(s) {bad} is not followed, in its loop body, by `if ...{test_suffix}"
                                       f"(<that event>): return`" if ys else "no yield found")), fi.lineno)]


def exclusive_resolution_structure(repo: Repo, module: str = "workflows.resource", cls: str = "ResourceManager",
                                   step_module: str = "workflows.runtime.types.step_function"):
    """C22: who may be inside a dependency resolution.  The manager's bookkeeping (`_resolving`, `_resolution_cache`,
    `_resolution_depth`) describes ONE resolution; the contracts of `_get` / `resolution_scope` are sequential.  These
    obligations say that the code reaches them only under the manager's lock, re-entrantly only for the owning task."""
    m = repo.module(module)
    ci = m.classes[cls]
    out = []
    P = f"{module}.{cls}"

    def src(n):
        return ast.unparse(n)

    def ancestors(n, par):
        while n in par:
            n = par[n]
            yield n

    ex = ci.methods.get("exclusive_resolution")
    if ex is None:
        return [ob(f"{P}.exclusive_resolution/exists", False, "the exclusive section of the manager is gone")]
    par = parents(ex.node)
    LOCK, SCOPE = "self._resolution_lock()", "self.resolution_scope()"
    task_names = {t.id for n in ast.walk(ex.node) if isinstance(n, ast.Assign) and src(n.value) == "asyncio.current_task()"
                  for t in n.targets if isinstance(t, ast.Name)}

    def reentry_test(test):
        """`<task> is not None and self._owner is <task>` (either order)"""
        if not (isinstance(test, ast.BoolOp) and isinstance(test.op, ast.And) and len(test.values) == 2):
            return False
        parts = {src(v) for v in test.values}
        return any(parts == {f"{t} is not None", f"self._owner is {t}"} for t in task_names)

    yields = [n for n in ast.walk(ex.node) if isinstance(n, (ast.Yield, ast.YieldFrom))]
    out.append(ob(f"{P}.exclusive_resolution/two-entries", len(yields) == 2,
                  f"{len(yields)} yield(s): one for the re-entering owner, one under the lock"))
    for y in yields:
        anc = list(ancestors(y, par))
        ifs = [a for a in anc if isinstance(a, ast.If)]
        in_reentry = any(reentry_test(a.test) and any(y is d or y in ast.walk(d) for d in a.body) for a in ifs)
        if in_reentry:
            out.append(ob(f"{P}.exclusive_resolution/reentry-by-task-identity@L{y.lineno}", True,
                          "the lock-free entry is taken only when the CURRENT task is the recorded owner", y.lineno))
            continue
        # the locked entry: async with LOCK  >  try/finally(owner = None)  >  with SCOPE  >  yield
        idx = {}
        for i, a in enumerate(anc):  # innermost first
            if isinstance(a, ast.AsyncWith) and any(src(it.context_expr) == LOCK for it in a.items):
                idx.setdefault("lock", i)
            if isinstance(a, ast.With) and any(src(it.context_expr) == SCOPE for it in a.items):
                idx.setdefault("scope", i)
            if isinstance(a, ast.Try) and any(src(s_) == "self._owner = None" for s_ in a.finalbody) \
                    and any(y in ast.walk(s_) for s_ in a.body):
                idx.setdefault("try", i)
            if isinstance(a, ast.If) and not in_reentry and "lock" not in idx:
                idx.setdefault("cond", i)
        ok = ("lock" in idx and "scope" in idx and "try" in idx and idx["scope"] < idx["try"] < idx["lock"]
              and "cond" not in idx)
        out.append(ob(f"{P}.exclusive_resolution/locked-entry@L{y.lineno}", ok,
                      "the caller's block runs inside `with self.resolution_scope()` inside `try/finally: self._owner = "
                      "None` inside `async with self._resolution_lock()`, unconditionally" if ok else
                      f"the yield at line {y.lineno} is not (lock > try/finally owner reset > resolution scope > yield): "
                      f"found {sorted(idx)} in nesting order {sorted(idx, key=idx.get)}", y.lineno))
    # the owner is recorded under the lock only, and as the current task
    for n in ast.walk(ci.node):
        if isinstance(n, (ast.Assign, ast.AnnAssign)):
            tgts = n.targets if isinstance(n, ast.Assign) else [n.target]
            if any(src(t) == "self._owner" for t in tgts) and n.value is not None and src(n.value) != "None":
                fn = next((f for f in ci.methods.values() if n in ast.walk(f.node)), None)
                pr = parents(fn.node) if fn else {}
                held = fn is ex and src(n.value) in task_names and any(
                    isinstance(a, ast.AsyncWith) and any(src(it.context_expr) == LOCK for it in a.items)
                    for a in ancestors(n, pr))
                out.append(ob(f"{P}/owner-set-under-lock@L{n.lineno}", held,
                              f"`{src(n)}` at line {n.lineno}: the owner is {'the current task, recorded while the lock is held' if held else 'NOT recorded under the lock as the current task'}",
                              n.lineno))
    # the lock is taken by `async with` only: it is released exactly by the task that holds it
    manual = [n for n in ast.walk(ci.node) if isinstance(n, ast.Call) and isinstance(n.func, ast.Attribute)
              and n.func.attr in ("acquire", "release", "locked")]
    out.append(ob(f"{P}/lock-taken-by-async-with", not manual,
                  "no manual acquire() / release() / locked() on the manager's lock" if not manual else
                  f"manual lock handling at line(s) {[n.lineno for n in manual]}: a waiter cancelled in acquire() must "
                  f"not release or clear the owner", manual[0].lineno if manual else 0))
    # the bookkeeping is touched only by the code under contract
    allowed = {"__init__", "_get", "resolution_scope"}
    for name, fi in ci.methods.items():
        for n in ast.walk(fi.node):
            if isinstance(n, ast.Attribute) and n.attr in ("_resolving", "_resolution_cache", "_resolution_depth") \
                    and name not in allowed:
                out.append(ob(f"{P}.{name}/bookkeeping-confined:{n.attr}@L{n.lineno}", False,
                              f"{cls}.{name} touches {n.attr} (line {n.lineno}) outside _get / resolution_scope", n.lineno))
    out.append(ob(f"{P}/bookkeeping-confined", not any("bookkeeping-confined:" in o["id"] for o in out),
                  "_resolving / _resolution_cache / _resolution_depth are used only in __init__, _get, resolution_scope"))
    # _get is reached only through get, inside the exclusive section; get is nothing but that section
    g = ci.methods.get("get")
    body = [s_ for s_ in (g.node.body if g else []) if not (isinstance(s_, ast.Expr) and isinstance(s_.value, ast.Constant))]
    ok = (len(body) == 1 and isinstance(body[0], ast.AsyncWith) and len(body[0].items) == 1
          and src(body[0].items[0].context_expr) == "self.exclusive_resolution()")
    out.append(ob(f"{P}.get/is-its-exclusive-section", ok,
                  "get() is `async with self.exclusive_resolution(): <section get#with1>`" if ok else
                  "get() is not a single `async with self.exclusive_resolution()` block", g.lineno if g else 0))
    for name, fi in ci.methods.items():
        pr = parents(fi.node)
        for n in ast.walk(fi.node):
            if isinstance(n, ast.Call) and src(n.func) == "self._get":
                held = name == "get" and any(
                    isinstance(a, ast.AsyncWith) and any(src(it.context_expr) == "self.exclusive_resolution()" for it in a.items)
                    for a in ancestors(n, pr))
                out.append(ob(f"{P}.{name}/_get-under-exclusive@L{n.lineno}", held,
                              f"`self._get(...)` at line {n.lineno} of {name} is "
                              f"{'inside' if held else 'OUTSIDE'} get()'s exclusive section", n.lineno))
    # resolution_scope() is entered only by exclusive_resolution, anywhere in the package
    import os
    pkg_dir = os.path.dirname(m.path) if hasattr(m, "path") else None
    scope_calls = []
    roots = []
    for mod_name in (module, step_module):
        try:
            roots.append(repo.module(mod_name))
        except Exception:
            pass
    for mm in roots:
        tree = mm.tree if hasattr(mm, "tree") else ast.parse(mm.text)
        pr = parents(tree)
        for n in ast.walk(tree):
            if isinstance(n, ast.Call) and isinstance(n.func, ast.Attribute) and n.func.attr == "resolution_scope":
                fn = next((a for a in ancestors(n, pr) if isinstance(a, (ast.FunctionDef, ast.AsyncFunctionDef))), None)
                scope_calls.append((mm.name, fn.name if fn else "<module>", n.lineno))
    bad = [c for c in scope_calls if not (c[0] == module and c[1] == "exclusive_resolution")]
    out.append(ob(f"{P}/scope-entered-only-under-the-lock", not bad and bool(scope_calls),
                  f"resolution_scope() is entered at {scope_calls}; allowed: exclusive_resolution only" , 0))
    # the step-level call site resolves all of a step's resources inside ONE exclusive section
    sm = repo.module(step_module)
    pf = sm.functions.get("partial")
    if pf is None:
        out.append(ob(f"{step_module}.partial/exists", False, "the step-level call site is gone"))
    else:
        pr = parents(pf.node)
        gets = [n for n in ast.walk(pf.node) if isinstance(n, ast.Call) and isinstance(n.func, ast.Attribute)
                and n.func.attr in ("get", "_get") and src(n.func.value).endswith("_resource_manager")]
        for n in gets:
            held = any(isinstance(a, ast.AsyncWith) and any(
                src(it.context_expr).endswith("_resource_manager.exclusive_resolution()") for it in a.items)
                for a in ancestors(n, pr))
            loops = [a for a in ancestors(n, pr) if isinstance(a, (ast.For, ast.While, ast.AsyncFor))]
            # one section for the whole step: the section encloses the loop over the step's resources
            around = held and all(any(isinstance(b, ast.AsyncWith) and any(
                src(it.context_expr).endswith("_resource_manager.exclusive_resolution()") for it in b.items)
                for b in ancestors(lp, pr)) for lp in loops)
            out.append(ob(f"{step_module}.partial/one-exclusive-resolution-per-step@L{n.lineno}", held and around,
                          f"`{src(n)[:60]}` at line {n.lineno} runs {'inside' if held else 'OUTSIDE'} "
                          f"`async with ..._resource_manager.exclusive_resolution()`"
                          f"{'' if around or not held else ', but the section is entered per resource, not per step'}",
                          n.lineno))
        out.append(ob(f"{step_module}.partial/resolves-through-the-manager", bool(gets),
                      f"{len(gets)} call(s) of the manager's get() in partial"))
    return out
