"""Mechanical extraction of functions / classes from /repo's working tree.

Nothing is imported: files are parsed with ``ast`` on every run.  What the
extraction drops is listed in DESIGN.md §2.1 (docstrings, logger calls,
TYPE_CHECKING blocks, most decorators).
"""
from __future__ import annotations

import ast
import hashlib
import os
from dataclasses import dataclass, field

REPO = os.environ.get("VERIF_REPO", "/repo")

PKG_ROOTS = {
    "workflows": "packages/llama-index-workflows/src/workflows",
    "llama_agents.server": "packages/llama-agents-server/src/llama_agents/server",
    "llama_agents.core": "packages/llama-agents-core/src/llama_agents/core",
    "llama_agents.client": "packages/llama-agents-client/src/llama_agents/client",
    "llama_agents.control_plane": "packages/llama-agents-control-plane/src/llama_agents/control_plane",
    "llama_agents.dbos": "packages/llama-agents-dbos/src/llama_agents/dbos",
    "llama_agents.cli": "packages/llamactl/src/llama_agents/cli",
    "llama_agents.agentcore": "packages/llama-agents-agentcore/src/llama_agents/agentcore",
    "dev_cli": "src/dev_cli",
}


class ExtractError(Exception):
    pass


LEMMA_ROOT = os.path.join(os.path.dirname(os.path.dirname(os.path.abspath(__file__))), "lemmas", "py")


def module_path(modname: str, repo: str | None = None) -> str:
    repo = repo or REPO
    if modname == "vlemmas" or modname.startswith("vlemmas."):
        # lemma harnesses: compositions of repository functions kept in /verif (proved against the callees' contracts)
        base = os.path.join(LEMMA_ROOT, *modname.split("."))
        for cand in (base + ".py", os.path.join(base, "__init__.py")):
            if os.path.exists(cand):
                return cand
        raise ExtractError(f"lemma module not found: {modname}")
    best = None
    for root in PKG_ROOTS:
        if modname == root or modname.startswith(root + "."):
            if best is None or len(root) > len(best):
                best = root
    if best is None:
        raise ExtractError(f"no package root for module {modname}")
    rest = modname[len(best):].lstrip(".")
    base = os.path.join(repo, PKG_ROOTS[best], *rest.split(".")) if rest else os.path.join(repo, PKG_ROOTS[best])
    for cand in (base + ".py", os.path.join(base, "__init__.py")):
        if os.path.exists(cand):
            return cand
    raise ExtractError(f"module file not found for {modname} ({base})")


@dataclass
class FunctionInfo:
    module: str
    qualname: str  # e.g. _add_or_enqueue_event or BrokerState.deepcopy
    node: ast.AST
    source: str
    sha256: str
    lineno: int
    cls: str | None = None
    decorators: list[str] = field(default_factory=list)

    @property
    def fq(self) -> str:
        return f"{self.module}.{self.qualname}"

    @property
    def is_async(self) -> bool:
        return isinstance(self.node, ast.AsyncFunctionDef)


@dataclass
class FieldInfo:
    name: str
    ann: ast.AST | None
    default: ast.AST | None
    lineno: int = 0


@dataclass
class ClassInfo:
    module: str
    name: str
    node: ast.ClassDef
    bases: list[str]
    kind: str  # dataclass | pydantic | plain | enum | protocol
    frozen: bool
    fields: list[FieldInfo]
    methods: dict[str, FunctionInfo]
    enum_members: list[str] = field(default_factory=list)


def _dec_name(d: ast.AST) -> str:
    if isinstance(d, ast.Call):
        d = d.func
    return ast.unparse(d)


class Module:
    def __init__(self, modname: str, repo: str | None = None):
        self.name = modname
        self.path = module_path(modname, repo)
        with open(self.path, encoding="utf-8") as f:
            self.text = f.read()
        self.tree = ast.parse(self.text, filename=self.path)
        self.functions: dict[str, FunctionInfo] = {}
        self.classes: dict[str, ClassInfo] = {}
        self.aliases: dict[str, ast.AST] = {}  # module-level NAME = <expr>
        self.imports: dict[str, str] = {}  # local name -> fully qualified
        self._scan(self.tree.body)

    def _fn(self, node, cls=None) -> FunctionInfo:
        src = ast.get_source_segment(self.text, node) or ""
        qn = f"{cls}.{node.name}" if cls else node.name
        for n_ in ast.walk(node):
            # function-local `from m import f` (used to break import cycles): resolved like a module-level import
            # unless the module already binds that name
            if isinstance(n_, ast.ImportFrom) and not n_.level and n_.module:
                for a in n_.names:
                    self.imports.setdefault(a.asname or a.name, f"{n_.module}.{a.name}")
        return FunctionInfo(
            module=self.name,
            qualname=qn,
            node=node,
            source=src,
            sha256=hashlib.sha256(src.encode()).hexdigest(),
            lineno=node.lineno,
            cls=cls,
            decorators=[_dec_name(d) for d in node.decorator_list],
        )

    def _segments(self, fi: FunctionInfo):
        """Mechanically extracted code segments of a function: `<qualname>#with<k>` is the body of the k-th
        `with` / `async with` statement (source order, nested defs excluded) as a function of the same parameters.
        Used for generator-based context managers, whose atomic sections (no await inside) are the units a contract
        can be stated on.  Dropped by the extraction: the with-item itself (acquiring / releasing the lock) and
        everything outside the block."""
        k = 0
        stack = list(reversed(fi.node.body))
        withs = []
        while stack:
            n = stack.pop()
            if isinstance(n, (ast.FunctionDef, ast.AsyncFunctionDef, ast.ClassDef, ast.Lambda)):
                continue
            if isinstance(n, (ast.With, ast.AsyncWith)):
                withs.append(n)
            stack.extend(reversed(list(ast.iter_child_nodes(n))))
        withs.sort(key=lambda n: (n.lineno, n.col_offset))
        par = {}
        for n in ast.walk(fi.node):
            for ch in ast.iter_child_nodes(n):
                par[ch] = n
        for w_ in withs:
            k += 1
            # `<qualname>#before_with<k>`: the statements that precede the k-th with in its own block, followed by
            # `return <context expression>`: the (await-free, if the contract's structural check says so) code that
            # computes what the with statement is entered on.  Dropped: the enclosing conditions of that block.
            blk = None
            p_ = par.get(w_)
            for fld in ("body", "orelse", "finalbody"):
                if p_ is not None and w_ in getattr(p_, fld, []):
                    blk = getattr(p_, fld)
            if blk is not None and len(w_.items) == 1:
                pre = blk[: blk.index(w_)]
                ret = ast.Return(value=w_.items[0].context_expr, lineno=w_.lineno, col_offset=w_.col_offset,
                                 end_lineno=w_.lineno, end_col_offset=w_.col_offset)
                segb = ast.FunctionDef(name=f"{fi.node.name}#before_with{k}", args=fi.node.args,
                                       body=list(pre) + [ret], decorator_list=[], returns=None, type_comment=None,
                                       type_params=[], lineno=(pre[0].lineno if pre else w_.lineno),
                                       col_offset=w_.col_offset, end_lineno=w_.lineno, end_col_offset=w_.col_offset)
                qnb = f"{fi.qualname}#before_with{k}"
                self.functions[qnb] = FunctionInfo(
                    module=self.name, qualname=qnb, node=segb, source=fi.source, sha256=fi.sha256,
                    lineno=segb.lineno, cls=fi.cls, decorators=[])
            seg = ast.FunctionDef(name=f"{fi.node.name}#with{k}", args=fi.node.args, body=list(w_.body),
                                  decorator_list=[], returns=None, type_comment=None, type_params=[],
                                  lineno=w_.lineno, col_offset=w_.col_offset,
                                  end_lineno=w_.end_lineno, end_col_offset=w_.end_col_offset)
            qn = f"{fi.qualname}#with{k}"
            self.functions[qn] = FunctionInfo(
                module=self.name, qualname=qn, node=seg, source=fi.source, sha256=fi.sha256, lineno=w_.lineno,
                cls=fi.cls, decorators=[])

    def _cm_sections(self, fi: FunctionInfo):
        """Generator-based context managers (`@contextmanager` / `@asynccontextmanager`) with exactly one `yield`,
        which is a statement of the function body or of the body of a top-level `try`: `<qualname>#enter` is the code
        run on entry (the statements before the yield), `<qualname>#exit` the code run on every exit (the `finally`
        block of that try and what follows it; without a try, the statements after the yield), each as a function of
        the same parameters.  Dropped by the extraction: the yield itself (the caller's block), `except` handlers and
        the `else` block of the try (a function that has them is not extracted)."""
        if not any(d.split(".")[-1] in ("contextmanager", "asynccontextmanager") for d in fi.decorators):
            return
        yields = [n for n in ast.walk(fi.node) if isinstance(n, (ast.Yield, ast.YieldFrom))]
        if len(yields) != 1:
            return

        def is_yield_stmt(st):
            return isinstance(st, ast.Expr) and st.value is yields[0]

        body = [st for st in fi.node.body
                if not (isinstance(st, ast.Expr) and isinstance(st.value, ast.Constant) and isinstance(st.value.value, str))]
        enter = exit_ = None
        for i, st in enumerate(body):
            if is_yield_stmt(st):
                enter, exit_ = body[:i], body[i + 1:]
            elif isinstance(st, ast.Try) and not st.handlers and not st.orelse:
                for j, st2 in enumerate(st.body):
                    if is_yield_stmt(st2) and j == len(st.body) - 1:
                        enter, exit_ = body[:i] + st.body[:j], list(st.finalbody) + body[i + 1:]
        if enter is None:
            return
        for tag, stmts in (("enter", enter), ("exit", exit_)):
            stmts = list(stmts) or [ast.Pass(lineno=fi.node.lineno, col_offset=0, end_lineno=fi.node.lineno, end_col_offset=0)]
            seg = ast.FunctionDef(name=f"{fi.node.name}#{tag}", args=fi.node.args, body=stmts, decorator_list=[],
                                  returns=None, type_comment=None, type_params=[], lineno=stmts[0].lineno,
                                  col_offset=fi.node.col_offset, end_lineno=stmts[-1].end_lineno,
                                  end_col_offset=stmts[-1].end_col_offset)
            qn = f"{fi.qualname}#{tag}"
            self.functions[qn] = FunctionInfo(module=self.name, qualname=qn, node=seg, source=fi.source,
                                              sha256=fi.sha256, lineno=seg.lineno, cls=fi.cls, decorators=[])

    def _scan(self, body):
        for st in body:
            if isinstance(st, (ast.FunctionDef, ast.AsyncFunctionDef)):
                self.functions[st.name] = self._fn(st)
                self._segments(self.functions[st.name])
                self._cm_sections(self.functions[st.name])
            elif isinstance(st, ast.ClassDef):
                self._scan_class(st)
            elif isinstance(st, ast.Assign) and len(st.targets) == 1 and isinstance(st.targets[0], ast.Name):
                self.aliases[st.targets[0].id] = st.value
            elif isinstance(st, ast.AnnAssign) and isinstance(st.target, ast.Name) and st.value is not None:
                self.aliases[st.target.id] = st.value
            elif isinstance(st, ast.ImportFrom):
                mod = ("." * st.level) + (st.module or "")
                if st.level:
                    parts = self.name.split(".")
                    base = parts[: len(parts) - st.level]
                    mod = ".".join(base + ([st.module] if st.module else []))
                for a in st.names:
                    self.imports[a.asname or a.name] = f"{mod}.{a.name}"
            elif isinstance(st, ast.Import):
                for a in st.names:
                    self.imports[a.asname or a.name.split(".")[0]] = a.name
            elif isinstance(st, ast.If):
                # TYPE_CHECKING blocks: keep imports for name resolution only
                t = ast.unparse(st.test)
                if "TYPE_CHECKING" in t:
                    for s2 in st.body:
                        if isinstance(s2, ast.ImportFrom):
                            for a in s2.names:
                                self.imports.setdefault(a.asname or a.name, f"{s2.module}.{a.name}")
                else:
                    self._scan(st.body)
                    self._scan(st.orelse)

    def _scan_class(self, node: ast.ClassDef):
        bases = [ast.unparse(b) for b in node.bases]
        decs = [_dec_name(d) for d in node.decorator_list]
        kind = "plain"
        frozen = False
        for d in node.decorator_list:
            n = _dec_name(d)
            if n in ("dataclass", "dataclasses.dataclass"):
                kind = "dataclass"
                if isinstance(d, ast.Call):
                    for kw in d.keywords:
                        if kw.arg == "frozen" and isinstance(kw.value, ast.Constant):
                            frozen = bool(kw.value.value)
        if any(b.split("[")[0] in ("BaseModel", "Event", "DictLikeModel") for b in bases):
            kind = "pydantic"
        if any(b in ("Enum", "str, Enum", "StrEnum") or b.endswith("Enum") for b in bases):
            kind = "enum"
        if any(b.startswith("Protocol") for b in bases):
            kind = "protocol"
        fields: list[FieldInfo] = []
        methods: dict[str, FunctionInfo] = {}
        enum_members: list[str] = []
        for st in node.body:
            if isinstance(st, ast.AnnAssign) and isinstance(st.target, ast.Name):
                ann = ast.unparse(st.annotation)
                if ann.startswith("ClassVar") or st.target.id == "model_config":
                    continue
                fields.append(FieldInfo(st.target.id, st.annotation, st.value, st.lineno))
                if kind == "pydantic" and "frozen=True" in ast.unparse(st):
                    pass
            elif isinstance(st, ast.Assign) and len(st.targets) == 1 and isinstance(st.targets[0], ast.Name):
                if st.targets[0].id == "model_config" and "frozen=True" in ast.unparse(st.value):
                    frozen = True
                elif kind == "enum":
                    enum_members.append(st.targets[0].id)
            elif isinstance(st, (ast.FunctionDef, ast.AsyncFunctionDef)):
                fi = self._fn(st, cls=node.name)
                if st.name in methods and any(d.endswith((".setter", ".deleter")) for d in fi.decorators):
                    continue  # `@x.setter def x(...)`: the getter stays the definition of the property x
                methods[st.name] = fi
                self.functions[fi.qualname] = fi
                self._segments(fi)
                self._cm_sections(fi)
        self.classes[node.name] = ClassInfo(
            module=self.name, name=node.name, node=node, bases=bases, kind=kind,
            frozen=frozen, fields=fields, methods=methods, enum_members=enum_members,
        )


class Repo:
    """Lazy table of parsed modules."""

    def __init__(self, root: str | None = None):
        self.root = root or REPO
        self.modules: dict[str, Module] = {}

    def module(self, name: str) -> Module:
        if name not in self.modules:
            self.modules[name] = Module(name, self.root)
        return self.modules[name]

    def function(self, fq: str) -> FunctionInfo:
        """fq = module.qualname where qualname may contain one dot (Class.method)."""
        fq = fq.split("@")[0]  # "<function>@<variant>" names a variant contract on the same function
        parts = fq.split(".")
        for cut in (len(parts) - 1, len(parts) - 2):
            if cut <= 0:
                continue
            modname = ".".join(parts[:cut])
            qn = ".".join(parts[cut:])
            try:
                m = self.module(modname)
            except ExtractError:
                continue
            if qn in m.functions:
                return m.functions[qn]
        raise ExtractError(f"function not found: {fq}")

    def find_class(self, name: str, hint_module: str | None = None) -> ClassInfo | None:
        if hint_module:
            m = self.module(hint_module)
            if name in m.classes:
                return m.classes[name]
            if name in m.imports:
                fq = m.imports[name]
                modname, _, cname = fq.rpartition(".")
                try:
                    m2 = self.module(modname)
                    if cname in m2.classes:
                        return m2.classes[cname]
                    if cname in m2.imports:  # re-export
                        return self.find_class(cname, modname)
                except ExtractError:
                    return None
        for m in self.modules.values():
            if name in m.classes:
                return m.classes[name]
        return None

    def class_fields(self, ci: ClassInfo) -> list[FieldInfo]:
        """Fields including inherited ones (bases first)."""
        out: list[FieldInfo] = []
        seen = set()
        for b in ci.bases:
            bn = b.split("[")[0].split(".")[-1]
            bci = self.find_class(bn, ci.module)
            if bci is not None and bci is not ci:
                for f in self.class_fields(bci):
                    if f.name not in seen:
                        out.append(f)
                        seen.add(f.name)
        for f in ci.fields:
            if f.name in seen:
                out = [g for g in out if g.name != f.name]
            out.append(f)
            seen.add(f.name)
        return out

    def mro_names(self, ci: ClassInfo) -> list[str]:
        out = [ci.name]
        for b in ci.bases:
            bn = b.split("[")[0].split(".")[-1]
            bci = self.find_class(bn, ci.module)
            if bci is not None and bci is not ci:
                for n in self.mro_names(bci):
                    if n not in out:
                        out.append(n)
            elif bn not in out:
                out.append(bn)
        return out
