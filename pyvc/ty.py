"""Static types used by the symbolic executor (what sort a Python value gets)."""
from __future__ import annotations

from dataclasses import dataclass


@dataclass(frozen=True)
class Ty:
    kind: str  # int real bool str none opt list dict set tuple obj union opaque unknown
    args: tuple = ()
    name: str = ""

    def __repr__(self) -> str:  # short
        if self.kind in ("obj", "opaque"):
            return f"{self.kind}:{self.name}"
        if self.kind == "union":
            return "union:" + self.name
        if self.args:
            return f"{self.kind}[{','.join(map(repr, self.args))}]"
        return self.kind


INT = Ty("int")
REAL = Ty("real")
BOOL = Ty("bool")
STR = Ty("str")
NONE = Ty("none")
UNKNOWN = Ty("unknown")


def Opt(t: Ty) -> Ty:
    if t.kind == "opt" or t.kind == "none":
        return t
    return Ty("opt", (t,))


def List(t: Ty) -> Ty:
    return Ty("list", (t,))


def Dict(k: Ty, v: Ty) -> Ty:
    return Ty("dict", (k, v))


def Set(t: Ty) -> Ty:
    return Ty("set", (t,))


def Tuple(*ts: Ty) -> Ty:
    return Ty("tuple", tuple(ts))


def Obj(name: str) -> Ty:
    return Ty("obj", (), name)


def Union(name: str, alts: tuple) -> Ty:
    """alts: tuple of class names (all obj)."""
    return Ty("union", tuple(alts), name)


def Opaque(name: str) -> Ty:
    return Ty("opaque", (), name)


EVENT = Opaque("Event")
EXC = Opaque("Exc")
TYPE = Opaque("Type")
ANY = Opaque("Any")


def is_mutable(t: Ty) -> bool:
    return t.kind in ("list", "dict", "set", "obj", "union") or (
        t.kind == "opt" and is_mutable(t.args[0])
    )
