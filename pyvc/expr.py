"""Expression evaluation (mixin of Engine)."""
from __future__ import annotations

import ast

import z3

from . import ty as T
from .sorts import Unsupported
from .values import (
    SV, BoundMethod, ClassRef, Closure, DictView, EnumerateV, FuncRef, LazySeq, ModuleRef, Namespace,
    PathEnd, PyTuple, RaiseSignal, RangeV, Ref,
)

KNOWN_MODULES = {"time", "hashlib", "inspect", "dataclasses", "datetime", "asyncio", "heapq", "logging",
                 "random", "re", "warnings", "math", "json", "uuid", "os", "functools", "itertools",
                 "collections", "typing", "timezone", "logger", "importlib"}
BUILTINS = {"len", "bool", "isinstance", "issubclass", "type", "str", "int", "float", "set", "dict", "list",
            "tuple", "sorted", "next", "filter", "enumerate", "range", "any", "all", "min", "max", "sum",
            "getattr", "abs", "replace", "hasattr", "callable", "iter", "zip", "print", "repr", "id", "frozenset",
            "field", "cast", "round", "reversed", "map"}
EXC_NAMES = {"ValueError", "TypeError", "RuntimeError", "KeyError", "IndexError", "TimeoutError", "Exception",
             "OverflowError", "StopIteration", "AttributeError", "NotImplementedError", "BaseException",
             "ZeroDivisionError", "AssertionError"}


class ExprMixin:
    # ------------------------------------------------------------- lookup
    def lookup(self, name: str, line: int = 0):
        env = self.st.env
        if name in env:
            v = env[name]
            if isinstance(v, Ref):
                if v.cell in self.st.moved and v.cell not in self.st.param_cells \
                        and not getattr(self, "_final_read", False):
                    raise Unsupported(f"alias hazard: '{name}' used after being embedded at line {self.st.moved[v.cell]} (line {line})")
                if v in self.st.dead_refs:
                    raise Unsupported(f"'{name}': place invalidated by a structural list mutation (line {line})")
                return self.read_ref(v)
            return v
        fr = self.frames[-1]
        if self.spec_mode:
            g = self.specs.lookup_name(name)
            if g is not None:
                return g
        m = self.w.repo.module(fr.module) if fr.module else None
        if m is not None:
            if name in m.classes:
                return ClassRef(name, fr.module)
            if name in m.functions:
                return FuncRef(f"{fr.module}.{name}")
            if name in m.imports:
                fq = m.imports[name]
                modname, _, short = fq.rpartition(".")
                if fq.split(".")[0] in KNOWN_MODULES or short in KNOWN_MODULES or modname.split(".")[0] in KNOWN_MODULES:
                    if short in ("replace", "field", "cast"):
                        return FuncRef(f"builtin.{short}")
                    return ModuleRef(fq)
                ci = self.w.repo.find_class(short, fr.module)
                if ci is not None:
                    return ClassRef(ci.name, ci.module)
                try:
                    m2 = self.w.repo.module(modname)
                    if short in m2.functions:
                        return FuncRef(f"{modname}.{short}")
                    if short in m2.aliases:
                        return self._module_const(m2, short)
                except Exception:
                    pass
                return ModuleRef(fq)
            if name in m.aliases:
                return self._module_const(m, name)
        if not self.spec_mode:
            g = self.specs.lookup_name(name) if name.startswith("_spec_") else None
            if g is not None:
                return g
        if name in EXC_NAMES:
            return ClassRef(name, None)
        if name in BUILTINS:
            return FuncRef(f"builtin.{name}")
        if name in KNOWN_MODULES:
            return ModuleRef(name)
        ci = self.w.repo.find_class(name)
        if ci is not None:
            return ClassRef(ci.name, ci.module)
        raise Unsupported(f"unknown name '{name}' (line {line})")

    def _module_const(self, m, name):
        v = m.aliases[name]
        if isinstance(v, ast.Constant):
            return self.const(v.value)
        if isinstance(v, ast.Call) and ast.unparse(v.func).endswith("getLogger"):
            return ModuleRef("logger")
        # immutable collections of literals: frozenset(("a", "b")), ("a", "b"), frozenset({"a"}) ...
        lit = v
        if isinstance(v, ast.Call) and isinstance(v.func, ast.Name) and v.func.id in ("frozenset", "tuple") \
                and len(v.args) == 1 and not v.keywords:
            lit = v.args[0]
        if isinstance(lit, (ast.Tuple, ast.Set, ast.List)) and (lit is not v or isinstance(v, ast.Tuple)) \
                and all(isinstance(e, ast.Constant) for e in lit.elts):
            # (only membership / iteration are meaningful for the frozenset case; a PyTuple supports both)
            return PyTuple([self.const(e.value) for e in lit.elts])
        if isinstance(v, (ast.Tuple, ast.List)) and v.elts and all(isinstance(e, ast.Name) for e in v.elts):
            # a module-level tuple of classes, e.g. for isinstance(x, _KINDS)
            refs = []
            for e in v.elts:
                ci_ = self.w.repo.find_class(e.id, m.name)
                if ci_ is None:
                    refs = None
                    break
                refs.append(ClassRef(ci_.name, ci_.module))
            if refs:
                return PyTuple(refs)
        og = getattr(self.specs, "opaque_globals", {})
        if name in og:
            # a module-level object of a library type, declared by a spec: one fixed opaque value
            t_ = T.Opaque(og[name].split(":")[-1])
            return SV(z3.Const(f"global:{name}", self.w.sort(t_)), t_)
        raise Unsupported(f"module-level name '{name}' is not a constant")

    def const(self, v):
        if v is None:
            return SV(None, T.NONE)
        if isinstance(v, bool):
            return SV(z3.BoolVal(v), T.BOOL)
        if isinstance(v, int):
            return SV(z3.IntVal(v), T.INT)
        if isinstance(v, float):
            if v != v or v in (float("inf"), float("-inf")):
                raise Unsupported("non-finite float literal")
            return SV(z3.RealVal(repr(v)), T.REAL)
        if isinstance(v, str):
            return SV(self.w.strlit(v), T.STR)
        if v is Ellipsis:
            return SV(None, T.NONE)
        raise Unsupported(f"constant {v!r}")

    # --------------------------------------------------------------- eval
    def ev(self, node):
        m = getattr(self, "ev_" + type(node).__name__, None)
        if m is None:
            raise Unsupported(f"expression {type(node).__name__} at line {getattr(node, 'lineno', '?')}")
        return m(node)

    def evv(self, node) -> SV:
        """evaluate to an SV (materialising lazies)"""
        v = self.ev(node)
        if isinstance(v, LazySeq):
            v = self.materialize(v)
        if isinstance(v, DictView) and getattr(v, "sorted_", False):
            # sorted(d) / sorted(d.items()) used as a value: the list of keys / items in sorted order
            v = self.materialize(LazySeq(v, ast.Name("_x", ast.Store()), [], ast.Name("_x", ast.Load()),
                                         dict(self.st.env), "list"))
        if isinstance(v, ClassRef):
            return SV(self.w.type_const(v.name), T.TYPE)
        if not isinstance(v, SV):
            raise Unsupported(f"expected a value, got {type(v).__name__} at line {getattr(node, 'lineno', '?')}")
        return v

    def ev_Constant(self, node):
        return self.const(node.value)

    def ev_Name(self, node):
        return self.lookup(node.id, getattr(node, "lineno", 0))

    def ev_Tuple(self, node):
        return PyTuple([self.ev(e) for e in node.elts])

    def ev_List(self, node):
        if not node.elts:
            return SV(None, T.List(T.UNKNOWN), fresh=True)
        items = []
        for e in node.elts:
            if isinstance(e, ast.Starred):
                raise Unsupported("starred list display")
            items.append(self.evv(e))
        t = items[0].ty
        for i in items[1:]:
            t = self.join(t, i.ty)
        out = self.empty_list(t)
        for i in items:
            out = self.list_append_val(out, self.coerce(self.embed(i, node.lineno), t, node.lineno))
        return out

    def ev_Set(self, node):
        items = [self.evv(e) for e in node.elts]
        t = items[0].ty
        for i in items[1:]:
            t = self.join(t, i.ty)
        arr = z3.K(self.w.sort(t), z3.BoolVal(False))
        for i in items:
            arr = z3.Store(arr, self.coerce(i, t).term, True)
        return SV(arr, T.Set(t), fresh=True)

    def ev_Dict(self, node):
        if not node.keys:
            return SV(None, T.Dict(T.UNKNOWN, T.UNKNOWN), fresh=True)
        base = None
        pairs = []
        for k, v in zip(node.keys, node.values):
            if k is None:
                b = self.evv(v)
                if base is not None or pairs:
                    raise Unsupported("dict display with ** not in first position")
                base = b
            else:
                pairs.append((self.evv(k), self.evv(v)))
        if base is not None and base.term is not None:
            kt, vt = base.ty.args
        elif pairs:
            kt, vt = pairs[0][0].ty, pairs[0][1].ty
            for k, v in pairs[1:]:
                kt, vt = self.join(kt, k.ty), self.join(vt, v.ty)
        else:
            return SV(None, T.Dict(T.UNKNOWN, T.UNKNOWN), fresh=True)
        if vt.kind == "none":
            vt = T.Opt(T.ANY)  # {"k": None}: a value type is needed
        out = self.coerce(base, T.Dict(kt, vt)) if base is not None else self.empty_dict(kt, vt)
        mk, has, val = self.dct(out)
        h, vv = has(out.term), val(out.term)
        for k, v in pairs:
            kk = self.coerce(k, kt).term
            h = z3.Store(h, kk, True)
            vv = z3.Store(vv, kk, self.coerce(self.embed(v, node.lineno), vt).term)
        return SV(mk(h, vv), T.Dict(kt, vt), fresh=True)

    def ev_JoinedStr(self, node):
        # the value of an f-string is a function of its template (literal parts, conversions, format specs) and of
        # the formatted values: one uninterpreted function per template, shared by code and specs
        args, tmpl, opaque_part = [], [], False
        for v in node.values:
            if isinstance(v, ast.FormattedValue):
                try:
                    a = self.ev(v.value)
                except Unsupported:
                    a = None
                spec = ast.unparse(v.format_spec) if v.format_spec is not None else ""
                if isinstance(a, SV) and a.term is not None:
                    args.append(a.term)
                    tmpl.append("{%s!%s:%s}" % (a.term.sort().name(), v.conversion, spec))
                else:
                    opaque_part = True
                    tmpl.append("{?}")
            else:
                tmpl.append(repr(v.value))
        if opaque_part:
            name = f"fstr@{self.frames[-1].fn_name}:{node.lineno}:{node.col_offset}"
        else:
            import hashlib as _h
            name = "fstr:" + _h.sha1("".join(tmpl).encode()).hexdigest()[:12]
        f = self.w.func(name, *[a.sort() for a in args], self.w.StrSort)
        return SV(f(*args) if args else f(), T.STR)

    def ev_IfExp(self, node):
        c = self.truthy(self.ev(node.test))
        cs = z3.simplify(c)
        if z3.is_true(cs):
            return self.ev(node.body)
        if z3.is_false(cs):
            return self.ev(node.orelse)
        if self.in_pure_mode() or (self._pure_expr(node.body) and self._pure_expr(node.orelse)
                                   and not self._has_display(node)):
            self.cond_guards.append(c)
            try:
                a = self.ev(node.body)
            finally:
                self.cond_guards.pop()
            self.cond_guards.append(z3.Not(c))
            try:
                b = self.ev(node.orelse)
            finally:
                self.cond_guards.pop()
            if isinstance(a, SV) and isinstance(b, SV) and a.ty.kind == "bool" and b.ty.kind == "bool":
                return SV(z3.If(c, a.term, b.term), T.BOOL)
            try:
                return self._merge(c, a, b, node.lineno)
            except Unsupported:
                if self.in_pure_mode():
                    raise
        if self.branch(c, f"ifexp@{node.lineno}:"):
            return self.ev(node.body)
        return self.ev(node.orelse)

    def _has_display(self, node) -> bool:
        return False

    def _merge(self, c, a, b, line):
        """value-level `a if c else b`"""
        if isinstance(a, LazySeq):
            a = self.materialize(a)
        if isinstance(b, LazySeq):
            b = self.materialize(b)
        if not isinstance(a, SV) or not isinstance(b, SV):
            raise Unsupported(f"conditional expression over non-values (line {line})")
        if a.term is None and a.ty.kind in ("list", "dict", "set") and b.term is not None:
            a = self.coerce(a, b.ty, line)
        if b.term is None and b.ty.kind in ("list", "dict", "set") and a.term is not None:
            b = self.coerce(b, a.ty, line)
        if a.term is None and b.term is None and a.ty.kind != "none":
            return a
        a2, b2, t = self.unify(a, b, line)
        if t.kind == "none":
            return a2
        return SV(z3.If(c, a2.term, b2.term), t, fresh=True)

    def ev_BoolOp(self, node):
        is_and = isinstance(node.op, ast.And)
        if self.spec_mode:
            vals = [self.ev(v) for v in node.values]
            if all(isinstance(v, SV) and v.ty.kind == "bool" for v in vals):
                return SV((z3.And if is_and else z3.Or)(*[v.term for v in vals]), T.BOOL)
        # Python semantics: returns one of the operands; later operands evaluated lazily
        cur = self.ev(node.values[0])
        for nxt in node.values[1:]:
            tv = self.truthy(cur)
            tvs = z3.simplify(tv)
            if z3.is_true(tvs) or z3.is_false(tvs):
                # decided: python does not evaluate the remaining operands
                if z3.is_true(tvs) != is_and:
                    return cur
                cur = self.ev(nxt)
                continue
            if self.in_pure_mode() or self._pure_expr(nxt):
                # the next operand is only evaluated by python when the result is still open: its safety
                # obligations are guarded accordingly
                self.cond_guards.append(tv if is_and else z3.Not(tv))
                try:
                    other = self.ev(nxt)
                finally:
                    self.cond_guards.pop()
                cur = self._select(tv if not is_and else z3.Not(tv), cur, other, node.lineno)
            else:
                go_on = self.branch(tv if is_and else z3.Not(tv), f"bool@{node.lineno}:")
                if go_on:
                    cur = self.ev(nxt)
                else:
                    return cur
        return cur

    def _pure_expr(self, node) -> bool:
        for n in ast.walk(node):
            if isinstance(n, (ast.Call, ast.Await, ast.NamedExpr, ast.Subscript)):
                return False
        return True

    def _select(self, cond, a, b, line):
        """python value: a if cond else b (merging types; strips None when a is Optional and kept only if truthy)."""
        if isinstance(a, LazySeq):
            a = self.materialize(a)
        if isinstance(b, LazySeq):
            b = self.materialize(b)
        if not isinstance(a, SV) or not isinstance(b, SV):
            raise Unsupported(f"and/or on non-values at line {line}")
        if a.ty.kind == "bool" and b.ty.kind == "bool":
            return SV(z3.If(cond, a.term, b.term), T.BOOL)
        # `x or y` with x Optional: when x is chosen it is truthy, hence not None
        if a.ty.kind == "opt" and b.ty.kind != "opt" and b.ty.kind != "none":
            s = self.w.sort(a.ty)
            inner = SV(s.accessor(1, 0)(a.term), a.ty.args[0])
            try:
                ia, ib, t = self.unify(inner, b, line)
                return SV(z3.If(cond, ia.term, ib.term), t)
            except Unsupported:
                pass
        a2, b2, t = self.unify(a, b, line)
        return SV(z3.If(cond, a2.term, b2.term), t)

    def ev_UnaryOp(self, node):
        if isinstance(node.op, ast.Not):
            return SV(z3.Not(self.truthy(self.ev(node.operand))), T.BOOL)
        v = self.evv(node.operand)
        if isinstance(node.op, ast.USub):
            return SV(-v.term, v.ty)
        if isinstance(node.op, ast.UAdd):
            return v
        raise Unsupported(f"unary {type(node.op).__name__}")

    def ev_BinOp(self, node):
        a, b = self.ev(node.left), self.ev(node.right)
        return self.binop(node.op, a, b, node.lineno)

    def binop(self, op, a, b, line):
        if isinstance(a, LazySeq):
            a = self.materialize(a)
        if isinstance(b, LazySeq):
            b = self.materialize(b)
        if not isinstance(a, SV) or not isinstance(b, SV):
            raise Unsupported(f"binary operator on {type(a).__name__}/{type(b).__name__} at line {line}")
        num = ("int", "real", "bool")
        # Optional[number] in arithmetic: a TypeError when None (the coercion obliges `is not None`)
        if a.ty.kind == "opt" and a.ty.args[0].kind in num and b.ty.kind in num:
            a = self.coerce(a, a.ty.args[0], line)
        if b.ty.kind == "opt" and b.ty.args[0].kind in num and a.ty.kind in num:
            b = self.coerce(b, b.ty.args[0], line)
        if a.ty.kind in num and b.ty.kind in num:
            if isinstance(op, ast.Div):
                a, b = self.coerce(a, T.REAL), self.coerce(b, T.REAL)
                self.safety(b.term != 0, "ZeroDivisionError", line)
                return SV(a.term / b.term, T.REAL)
            if isinstance(op, ast.Pow):
                return self.power(a, b, line)  # before unification: an int exponent stays an int
            a, b, t = self.unify(a, b, line)
            if t.kind == "bool":
                a, b, t = self.coerce(a, T.INT), self.coerce(b, T.INT), T.INT
            if isinstance(op, ast.Add):
                return SV(a.term + b.term, t)
            if isinstance(op, ast.Sub):
                return SV(a.term - b.term, t)
            if isinstance(op, ast.Mult):
                return SV(a.term * b.term, t)
            if isinstance(op, ast.FloorDiv) and t.kind == "int":
                self.safety(b.term != 0, "ZeroDivisionError", line)
                return SV(a.term / b.term, T.INT)  # z3 int div: floor for positive divisor
            if isinstance(op, ast.Mod) and t.kind == "int":
                self.safety(b.term != 0, "ZeroDivisionError", line)
                return SV(a.term % b.term, T.INT)
            if isinstance(op, ast.Pow):
                return self.power(a, b, line)
            if isinstance(op, ast.BitAnd) and t.kind == "int":
                f = self.w.func("bitand", z3.IntSort(), z3.IntSort(), z3.IntSort())
                return SV(f(a.term, b.term), T.INT)
            raise Unsupported(f"operator {type(op).__name__} on numbers (line {line})")
        if a.ty.kind == "str" and b.ty.kind == "str" and isinstance(op, ast.Add):
            f = self.w.func("strcat", self.w.StrSort, self.w.StrSort, self.w.StrSort)
            return SV(f(a.term, b.term), T.STR)
        if a.ty.kind == "list" and b.ty.kind == "list" and isinstance(op, ast.Add):
            return self.list_concat(a, b, line)
        if a.ty.kind == "set" and b.ty.kind == "set" and isinstance(op, (ast.Sub, ast.BitOr, ast.BitAnd)):
            # set algebra, pointwise on the characteristic functions
            a2, b2, t = self.unify(a, b, line)
            ks = self.w.sort(t.args[0])
            k = z3.Const(f"sk${len(self.binders)}_{line}", ks)
            x = z3.Select(a2.term, k) if a2.term is not None else z3.BoolVal(False)
            y = z3.Select(b2.term, k) if b2.term is not None else z3.BoolVal(False)
            body = z3.And(x, z3.Not(y)) if isinstance(op, ast.Sub) else (z3.Or(x, y) if isinstance(op, ast.BitOr)
                                                                         else z3.And(x, y))
            return SV(z3.Lambda([k], body), t, fresh=True)
        if a.ty.kind == "opaque" or b.ty.kind == "opaque" or \
                (a.ty.kind == "opt" and a.ty.args[0].kind == "opaque") or \
                (b.ty.kind == "opt" and b.ty.args[0].kind == "opaque"):
            return self.opaque_binop(op, a, b, line)
        raise Unsupported(f"operator {type(op).__name__} on {a.ty}/{b.ty} (line {line})")

    def opaque_binop(self, op, a, b, line):
        # datetime arithmetic: uninterpreted (deterministic) functions of the operands
        if a.ty.kind == "opt" and a.ty.args[0].kind == "opaque":
            a = self.coerce(a, a.ty.args[0], line)  # None in arithmetic is a TypeError: obliges `is not None`
        if b.ty.kind == "opt" and b.ty.args[0].kind == "opaque":
            b = self.coerce(b, b.ty.args[0], line)
        an, bn = getattr(a.ty, "name", None), getattr(b.ty, "name", None)
        if isinstance(op, ast.Sub) and an == "datetime" and bn == "datetime" and a.term is not None and b.term is not None:
            f = self.w.func("datetime_sub", self.w.sort(a.ty), self.w.sort(b.ty), self.w.sort(T.Opaque("timedelta")))
            return SV(f(a.term, b.term), T.Opaque("timedelta"))
        if isinstance(op, (ast.Add, ast.Sub)) and an == "datetime" and bn == "timedelta" \
                and a.term is not None and b.term is not None:
            f = self.w.func(f"datetime_{type(op).__name__.lower()}_td", self.w.sort(a.ty), self.w.sort(b.ty),
                            self.w.sort(a.ty))
            return SV(f(a.term, b.term), a.ty)
        raise Unsupported(f"operator {type(op).__name__} on opaque values (line {line})")

    def power(self, a, b, line):
        """a ** b.  Floats are reals; ``pow`` is an uninterpreted function with the facts the proofs need.
        Range obligation: CPython raises OverflowError when a float power exceeds DBL_MAX."""
        if b.ty.kind == "int" and z3.is_int_value(z3.simplify(b.term)) and 0 <= z3.simplify(b.term).as_long() <= 4:
            n = z3.simplify(b.term).as_long()
            out = z3.RealVal(1) if a.ty.kind == "real" else z3.IntVal(1)
            for _ in range(n):
                out = out * a.term
            return SV(out, a.ty)
        if a.ty.kind == "real" or b.ty.kind == "real":
            ar = self.coerce(a, T.REAL)
            if b.ty.kind == "int":
                f = self.w.func("powri", z3.RealSort(), z3.IntSort(), z3.RealSort())
                r = f(ar.term, b.term)
                # facts: pow(x,0)=1 ; pow(x,n+1)=x*pow(x,n) at this n ; positivity / monotonicity for base >= 1
                self.side_fact(f(ar.term, z3.IntVal(0)) == 1)
                self.side_fact(z3.Implies(b.term >= 1, r == ar.term * f(ar.term, b.term - 1)))
                self.side_fact(z3.Implies(ar.term > 0, r > 0))
                self.side_fact(z3.Implies(z3.And(ar.term >= 1, b.term >= 0), r >= 1))
                if getattr(self, "float_range_checks", True) and not self.in_pure_mode():
                    dblmax = z3.RealVal(repr(1.7976931348623157e308))  # sys.float_info.max (as the decimal literal)
                    in_range = z3.And(r <= dblmax, r >= -dblmax)
                    catchers = {"OverflowError", "ArithmeticError", "Exception", "BaseException"}
                    if any(catchers & set(hs) or not hs for hs in getattr(self, "try_handlers", [])):
                        # the code handles the overflow itself: CPython raises OverflowError out of range
                        if not self.branch(in_range, f"pow@{line}:"):
                            self.raise_builtin("OverflowError", line)
                    else:
                        self.safety(in_range, "OverflowError:float-pow", line)
                return SV(r, T.REAL)
            f = self.w.func("powrr", z3.RealSort(), z3.RealSort(), z3.RealSort())
            return SV(f(ar.term, self.coerce(b, T.REAL).term), T.REAL)
        f = self.w.func("powii", z3.IntSort(), z3.IntSort(), z3.IntSort())
        return SV(f(a.term, b.term), T.INT)

    def ev_Compare(self, node):
        left = self.ev(node.left)
        out = []
        for op, rn in zip(node.ops, node.comparators):
            right = self.ev(rn)
            out.append(self.compare(op, left, right, node.lineno))
            left = right
        return SV(z3.And(*out) if len(out) > 1 else out[0], T.BOOL)

    def compare(self, op, a, b, line):
        if isinstance(op, (ast.Eq, ast.NotEq)):
            if isinstance(a, LazySeq):
                a = self.materialize(a)
            if isinstance(b, LazySeq):
                b = self.materialize(b)
            e = self.py_eq(a, b, line)
            return e if isinstance(op, ast.Eq) else z3.Not(e)
        if isinstance(op, (ast.Is, ast.IsNot)):
            e = self.py_is(a, b, line)
            return e if isinstance(op, ast.Is) else z3.Not(e)
        if isinstance(op, (ast.In, ast.NotIn)):
            e = self.contains(b, a, line)
            return e if isinstance(op, ast.In) else z3.Not(e)
        if isinstance(a, LazySeq):
            a = self.materialize(a)
        if isinstance(b, LazySeq):
            b = self.materialize(b)
        if not isinstance(a, SV) or not isinstance(b, SV):
            raise Unsupported(f"comparison on non-values at line {line}")
        if a.ty.kind == "opt" and b.ty.kind in ("int", "real"):
            a = self.coerce(a, a.ty.args[0], line)
        if b.ty.kind == "opt" and a.ty.kind in ("int", "real"):
            b = self.coerce(b, b.ty.args[0], line)
        if a.ty.kind in ("int", "real", "bool") and b.ty.kind in ("int", "real", "bool"):
            a, b, t = self.unify(a, b, line)
            if t.kind == "bool":
                a, b = self.coerce(a, T.INT), self.coerce(b, T.INT)
            x, y = a.term, b.term
            if isinstance(op, ast.Lt):
                return x < y
            if isinstance(op, ast.LtE):
                return x <= y
            if isinstance(op, ast.Gt):
                return x > y
            if isinstance(op, ast.GtE):
                return x >= y
        if a.ty.kind == "str" and b.ty.kind == "str":
            f = self.w.func("str_lt", self.w.StrSort, self.w.StrSort, z3.BoolSort())
            x, y = a.term, b.term
            if isinstance(op, ast.Lt):
                return f(x, y)
            if isinstance(op, ast.Gt):
                return f(y, x)
            if isinstance(op, ast.LtE):
                return z3.Or(f(x, y), x == y)
            if isinstance(op, ast.GtE):
                return z3.Or(f(y, x), x == y)
        raise Unsupported(f"comparison {type(op).__name__} on {a.ty}/{b.ty} (line {line})")

    def py_is(self, a, b, line):
        if isinstance(a, SV) and isinstance(b, SV):
            if b.ty.kind == "none":
                a, b = b, a
            if a.ty.kind == "none":
                if b.ty.kind == "none":
                    return z3.BoolVal(True)
                if b.ty.kind == "opt":
                    return self.w.sort(b.ty).recognizer(0)(b.term)
                if b.ty == T.ANY:
                    return self.w.func("any_is_none", self.w.sort(T.ANY), z3.BoolSort())(b.term)
                return z3.BoolVal(False)
        if isinstance(a, ClassRef) or isinstance(b, ClassRef) or (
            isinstance(a, SV) and isinstance(b, SV) and self._scalar(a.ty) and self._scalar(b.ty)
        ):
            return self.py_eq(a, b, line)
        raise Unsupported(f"'is' between mutable values (line {line})")

    def contains(self, cont, item, line):
        if isinstance(cont, LazySeq):
            return self.lazy_exists(cont, eq_item=item)
        if isinstance(cont, PyTuple):
            return z3.Or(*[self.py_eq(item, x, line) for x in cont.items]) if cont.items else z3.BoolVal(False)
        if isinstance(cont, RangeV):
            it = self.coerce(item, T.INT)
            return z3.And(cont.lo <= it.term, it.term < cont.hi)
        if isinstance(cont, DictView) and cont.kind == "keys":
            cont = cont.d
        if not isinstance(cont, SV):
            raise Unsupported(f"'in' on {type(cont).__name__} (line {line})")
        if isinstance(item, ClassRef):
            item = SV(self.w.type_const(item.name), T.TYPE)
        if cont.ty.kind == "opt" and cont.ty.args[0].kind in ("list", "dict", "set", "str"):
            cont = self.coerce(cont, cont.ty.args[0], line)  # `x in None` is a TypeError: obliges `is not None`
        k = cont.ty.kind
        if cont.term is None:
            return z3.BoolVal(False)
        if k == "dict":
            _, has, _ = self.dct(cont)
            return self.sel(has(cont.term), self.coerce(item, cont.ty.args[0], line).term)
        if k == "set":
            return z3.Select(cont.term, self.coerce(item, cont.ty.args[0], line).term)
        if k == "list":
            i = z3.Const(f"ini${len(self.binders)}", z3.IntSort())
            n = self.list_len(cont)
            el = SV(self.list_get(cont, i), cont.ty.args[0])
            return self._q("exists", i, z3.And(0 <= i, i < n, self.py_eq(el, item, line)))
        if k == "str":
            f = self.w.func("str_contains", self.w.StrSort, self.w.StrSort, z3.BoolSort())
            return f(cont.term, self.coerce(item, T.STR).term)
        if k == "opaque":
            it = item.term if isinstance(item, SV) else None
            f = self.w.func(f"contains<{cont.ty.name},{it.sort() if it is not None else '?'}>",
                            self.w.sort(cont.ty), it.sort(), z3.BoolSort())
            return f(cont.term, it)
        raise Unsupported(f"'in' on {cont.ty} (line {line})")

    def ev_Lambda(self, node):
        return Closure([a.arg for a in node.args.args], node.body, dict(self.st.env), True,
                       self.frames[-1].module)

    # -------------------------------------------------------- attribute
    def ev_Attribute(self, node):
        base = self.ev(node.value)
        return self.getattr_(base, node.attr, node.lineno)

    def getattr_(self, base, attr: str, line: int):
        if isinstance(base, Namespace):
            if attr not in base.d:
                raise Unsupported(f"namespace has no '{attr}'")
            v = base.d[attr]
            return v
        if isinstance(base, ModuleRef):
            return ModuleRef(base.name + "." + attr)
        if isinstance(base, ClassRef):
            ci = self.w.repo.find_class(base.name, base.module)
            if ci is not None and ci.kind == "enum":
                _, consts = self.w.enum(ci.name)
                if attr in consts:
                    return SV(consts[attr], T.Ty("enum", (), ci.name))
            if attr == "__name__":
                f = self.w.func("type_name", self.w.sort(T.TYPE), self.w.StrSort)
                return SV(f(self.w.type_const(base.name)), T.STR)
            if ci is not None and attr in ci.methods:
                return FuncRef(f"{ci.module}.{ci.name}.{attr}")
            raise Unsupported(f"class attribute {base.name}.{attr} (line {line})")
        if isinstance(base, LazySeq):
            base = self.materialize(base)
        if isinstance(base, PyTuple):
            raise Unsupported(f"attribute {attr} on tuple")
        if not isinstance(base, SV):
            return BoundMethod(base, attr)
        t = base.ty
        if t.kind == "opt":
            inner_t = t.args[0]
            if inner_t.kind in ("obj", "union", "opaque", "list", "dict"):
                s = self.w.sort(t)
                self.safety(s.recognizer(1)(base.term), f"AttributeError:None.{attr}", line)
                ref = base.ref.ext(("some",)) if base.ref else None
                base = SV(s.accessor(1, 0)(base.term), inner_t, ref=ref, fresh=base.fresh)
                t = inner_t
        if t.kind == "obj":
            ft = self.w.field_ty(t.name, attr)
            if ft is not None:
                _, _, accs = self.w.obj(t.name)
                ref = base.ref.ext(("f", t.name, attr)) if base.ref else None
                return SV(self.acc(accs[attr], base.term), ft, ref=ref, fresh=base.fresh)
            # a @property defined in the class or one of its bases: evaluate its body
            ci_ = self.w.repo.find_class(t.name)
            if ci_ is not None:
                for cn_ in self.w.repo.mro_names(ci_):
                    c2_ = self.w.repo.find_class(cn_, ci_.module)
                    if c2_ is not None and attr in c2_.methods and \
                            any(d_.split(".")[-1] == "property" for d_ in c2_.methods[attr].decorators):
                        call = ast.Call(func=ast.Name("_p", ast.Load()), args=[], keywords=[], lineno=line, col_offset=0)
                        return self.call_function(f"{c2_.module}.{c2_.name}.{attr}", [], {}, call, self_val=base)
            return BoundMethod(base, attr)
        if t.kind == "union":
            s = self.w.sort(t)
            cands = [(i, a) for i, a in enumerate(t.args) if self.w.field_ty(a, attr) is not None]
            if not cands:
                return BoundMethod(base, attr)
            ft = None
            for _, a in cands:
                fa = self.w.field_ty(a, attr)
                ft = fa if ft is None else self.join(ft, fa)
            self.safety(z3.Or(*[s.recognizer(i)(base.term) for i, _ in cands]), f"AttributeError:{attr}", line)
            out = None
            for i, a in reversed(cands):
                _, _, accs = self.w.obj(a)
                v = self.coerce(SV(accs[attr](s.accessor(i, 0)(base.term)), self.w.field_ty(a, attr)), ft, line).term
                out = v if out is None else z3.If(s.recognizer(i)(base.term), v, out)
            ref = None
            if len(cands) == 1 and base.ref is not None:
                ref = base.ref.ext(("inj", cands[0][1])).ext(("f", cands[0][1], attr))
            return SV(out, ft, ref=ref)
        if t.kind in ("list", "dict", "set", "str"):
            return BoundMethod(base, attr)
        if t.kind == "opaque":
            return self.opaque_attr(base, attr, line)
        if t.kind == "enum" and attr in ("value", "name"):
            f = self.w.func(f"enum_{attr}<{t.name}>", self.w.sort(t), self.w.StrSort)
            return SV(f(base.term), T.STR)
        raise Unsupported(f"attribute {attr} on {t} (line {line})")

    def opaque_attr(self, base: SV, attr: str, line: int):
        t = base.ty
        if t == T.TYPE:
            if attr in ("__name__", "__module__", "__qualname__"):
                f = self.w.func(f"type{attr}", self.w.sort(T.TYPE), self.w.StrSort)
                return SV(f(base.term), T.STR)
        spec = self.specs.opaque_attr(t.name, attr)
        if spec is not None:
            kind, aty = spec
            if kind == "field":
                f = self.w.func(f"{t.name}.{attr}", self.w.sort(t), self.w.sort(aty))
                return SV(f(base.term), aty)
            return BoundMethod(base, attr)
        if t == T.EVENT:
            fty = self.specs.event_field(attr)
            if fty is not None:
                f = self.w.func(f"Event.{attr}", self.w.sort(t), self.w.sort(fty))
                return SV(f(base.term), fty)
        return BoundMethod(base, attr)

    # -------------------------------------------------------- subscript
    def ev_Subscript(self, node):
        base = self.ev(node.value)
        if isinstance(node.slice, ast.Slice):
            return self.slice_(base, node.slice, node.lineno)
        idx = self.ev(node.slice)
        return self.getitem(base, idx, node.lineno)

    def getitem(self, base, idx, line):
        if isinstance(base, PyTuple):
            if isinstance(idx, SV) and z3.is_int_value(z3.simplify(idx.term)):
                return base.items[z3.simplify(idx.term).as_long()]
            raise Unsupported("symbolic index into python tuple")
        if isinstance(base, LazySeq):
            if isinstance(idx, SV) and idx.ty.kind == "int" and z3.is_int_value(z3.simplify(idx.term)) \
                    and z3.simplify(idx.term).as_long() == 0:
                v, found = self.lazy_first(base, line)
                self.safety(found, "IndexError:first-of-filtered", line)
                return v
            base = self.materialize(base)
        if not isinstance(base, SV):
            raise Unsupported(f"subscript on {type(base).__name__} (line {line})")
        t = base.ty
        if t.kind == "opt":
            s = self.w.sort(t)
            self.safety(s.recognizer(1)(base.term), "TypeError:None-subscript", line)
            ref = base.ref.ext(("some",)) if base.ref else None
            base = SV(s.accessor(1, 0)(base.term), t.args[0], ref=ref)
            t = base.ty
        if t.kind == "list":
            if base.term is None:
                self.safety(z3.BoolVal(False), "IndexError", line)
                raise PathEnd()
            i = self.coerce(idx, T.INT, line).term
            n = self.list_len(base)
            isimp = z3.simplify(i)
            if z3.is_int_value(isimp) and isimp.as_long() < 0:
                i = n + i
            self.safety(z3.And(0 <= i, i < n), "IndexError", line)
            ref = base.ref.ext(("i", i)) if base.ref else None
            return SV(self.list_get(base, i), t.args[0], ref=ref, fresh=base.fresh)
        if t.kind == "dict":
            if base.term is None:
                self.safety(z3.BoolVal(False), "KeyError", line)
                raise PathEnd()
            k = self.coerce(idx, t.args[0], line).term
            _, has, val = self.dct(base)
            self.safety(self.sel(has(base.term), k), "KeyError", line)
            ref = base.ref.ext(("k", k)) if base.ref else None
            return SV(self.sel(val(base.term), k), t.args[1], ref=ref, fresh=base.fresh)
        if t.kind == "tuple":
            i = z3.simplify(self.coerce(idx, T.INT, line).term)
            if not z3.is_int_value(i):
                raise Unsupported("symbolic tuple index")
            s = self.w.sort(t)
            return SV(s.accessor(0, i.as_long())(base.term), t.args[i.as_long()])
        if t.kind == "opaque":
            it = idx.term
            rt = self.specs.opaque_item(t.name) or T.ANY
            f = self.w.func(f"getitem<{t.name},{it.sort()}>", self.w.sort(t), it.sort(), self.w.sort(rt))
            return SV(f(base.term, it), rt)
        raise Unsupported(f"subscript on {t} (line {line})")

    def slice_(self, base, sl, line):
        if isinstance(base, LazySeq):
            base = self.materialize(base)
        if not isinstance(base, SV) or base.ty.kind != "list":
            raise Unsupported(f"slice on non-list (line {line})")
        if sl.step is not None:
            raise Unsupported("slice step")
        n = self.list_len(base)
        lo = self.coerce(self.evv(sl.lower), T.INT).term if sl.lower is not None else z3.IntVal(0)
        hi = self.coerce(self.evv(sl.upper), T.INT).term if sl.upper is not None else n

        def norm(x):
            x = z3.If(x < 0, x + n, x)
            return z3.If(x < 0, 0, z3.If(x > n, n, x))

        lo, hi = norm(lo), norm(hi)
        ln = z3.If(hi > lo, hi - lo, 0)
        i = z3.Const("sli", z3.IntSort())
        return self.mk_list(base.ty.args[0], ln, z3.Lambda([i], self.list_get(base, i + lo)))

    def ev_Starred(self, node):
        raise Unsupported("starred expression")

    def ev_Await(self, node):
        return self.await_(node)

    def ev_NamedExpr(self, node):
        v = self.ev(node.value)
        self.assign_name(node.target.id, v, node.lineno)
        return v
