"""Contract vocabulary.  This module is what spec files import; it gives the *native* meaning of the
spec functions (used when a contract is evaluated by CPython on real objects during replay and
cross-checking).  The symbolic meaning is given by pyvc.spec.DslMixin, keyed by the same names."""
from __future__ import annotations

import copy
from types import SimpleNamespace

_CONTRACTS: dict[str, type] = {}


def contract(fq: str, variant: str | None = None):
    def deco(cls):
        cls.__target__ = fq  # (a variant contract targets the same function)
        for k, v in list(vars(cls).items()):
            if callable(v) and not k.startswith("__"):
                setattr(cls, k, staticmethod(v))
        _CONTRACTS[fq if variant is None else f"{fq}@{variant}"] = cls
        return cls
    return deco


def pure(f):
    return f


def forall(n, f):
    return all(f(i) for i in range(n))


def exists(n, f):
    return any(f(i) for i in range(n))


def forall_range(lo, hi, f):
    return all(f(i) for i in range(lo, hi))


def exists_range(lo, hi, f):
    return any(f(i) for i in range(lo, hi))


def forall_keys(d, f):
    return all(f(k) for k in d)


def exists_key(d, f):
    return any(f(k) for k in d)


# unbounded quantifiers cannot be evaluated natively; a contract that uses them supplies
# `native_<clause>` alternatives or is only used symbolically
class NotNative(Exception):
    pass


def forall_int(f):
    raise NotNative("forall_int")


UNIVERSE: dict = {}  # native side: a finite universe per sort name, registered by a generator module (e.g. the
#                      event classes it draws from); quantifiers over the sort range over it (a bounded reading)


def forall_of(tyname, f):
    if tyname not in UNIVERSE:
        raise NotNative("forall_of")
    return all(f(x) for x in UNIVERSE[tyname])


def exists_of(tyname, f):
    if tyname not in UNIVERSE:
        raise NotNative("exists_of")
    return any(f(x) for x in UNIVERSE[tyname])


def implies(a, b):
    return (not a) or bool(b)


def iff(a, b):
    return bool(a) == bool(b)


def ite(c, a, b):
    return a if c else b


def same(a, b):
    if a is b:
        return True
    ta = type(a)
    if ta is type(b) and getattr(ta, "__eq__", None) is object.__eq__ and hasattr(a, "__dict__") \
            and not isinstance(a, (type, BaseException)):
        # plain objects (no __eq__ of their own): same means field-wise the same
        da, db = vars(a), vars(b)
        return da.keys() == db.keys() and all(same(da[k], db[k]) for k in da)
    import collections
    if isinstance(a, collections.deque) and isinstance(b, collections.deque):
        return list(a) == list(b)
    return a == b


def type_is(x, cls):
    return type(x) is cls


def dsize(d):
    return len(d)


def opt_val(x):
    return x


def snapshot_args(**kw):
    return SimpleNamespace(**{k: copy.deepcopy(v) for k, v in kw.items()})


def str_of_int(i):
    return str(i)


def type_name(t):
    return t.__name__


def str_of_type(t):
    return str(t)


UF_NATIVE: dict = {}  # native meaning of shared uninterpreted functions: registered by the spec module (native side)


def uf(name, ret_type, *args):
    if name not in UF_NATIVE:
        raise NotNative(f"uninterpreted function {name} has no native meaning")
    return UF_NATIVE[name](*args)


def fpow(b, n):
    """b ** n as a number; beyond the float range: +/- infinity (CPython raises OverflowError there)"""
    try:
        return b ** n
    except OverflowError:
        return float("inf") if (b > 0 or n % 2 == 0) else float("-inf")


def no_shared_mutables(a, b, ignore_types=()):
    """no list, no dict that holds containers, and no non-frozen record is reachable from both a and b: what `deep
    copy` has to mean for state that the engine updates in place.  (Dicts / sets of scalars - requirements, recovery
    counts - are treated as values by the code, which always builds new ones, and are not counted.)  Native only:
    object identity is not part of the encoding."""
    import dataclasses

    def holds_containers(d):
        vals = d.values() if isinstance(d, dict) else d
        return any(isinstance(v, (list, dict, set)) or (dataclasses.is_dataclass(v) and not isinstance(v, type))
                   for v in vals)

    def walk(x, acc, depth=0):
        if depth > 12 or id(x) in acc or type(x).__name__ in ignore_types:
            return  # (ignore_types: static configuration objects that are shared on purpose and never updated)
        if isinstance(x, list):
            acc[id(x)] = x
            for e in x:
                walk(e, acc, depth + 1)
        elif isinstance(x, (dict, set)):
            if isinstance(x, dict) and holds_containers(x):
                acc[id(x)] = x
            for e in (x.values() if isinstance(x, dict) else x):
                walk(e, acc, depth + 1)
        elif dataclasses.is_dataclass(x) and not isinstance(x, type):
            if not getattr(type(x), "__dataclass_params__").frozen:
                acc[id(x)] = x
            for f in dataclasses.fields(x):
                walk(getattr(x, f.name), acc, depth + 1)

    ma, mb = {}, {}
    walk(a, ma)
    walk(b, mb)
    return not (set(ma) & set(mb))


def exc_arg(e, i, type_name=None):
    """the i-th positional constructor argument of a raised exception: the attribute of that name when the class
    stores it (WaitingForEvent.add), else e.args[i]"""
    import inspect
    try:
        params = [p for p in inspect.signature(type(e).__init__).parameters if p != "self"]
        if i < len(params) and hasattr(e, params[i]):
            return getattr(e, params[i])
    except (TypeError, ValueError):
        pass
    return e.args[i]


def dpos(d, k, sorted_=False):
    """position of key / member k in the iteration order of the dict / set d (natively: CPython's actual order)"""
    keys = sorted(d) if sorted_ else list(d)
    return keys.index(k) if k in keys else -1


dpos_exact = dpos


# ghost call log, native side: generators hand in recording stand-ins whose `.calls` is a list of
# (method, args, kwargs) in call order (see natives/*_gen.py: Recorder)
def _log(obj, m):
    return [c for c in getattr(obj, "calls", []) if c[0] == m]


def calls(obj, m):
    return len(_log(obj, m))


def call_kw(obj, m, k, name):
    return _log(obj, m)[k][2].get(name)


def call_pos(obj, m, k, i):
    a = _log(obj, m)[k][1]
    return a[i] if i < len(a) else None


def call_seq(obj, m, k):
    target = _log(obj, m)[k]
    return next(i for i, c in enumerate(getattr(obj, "_all_calls", getattr(obj, "calls", []))) if c is target)


# ghost log of calls to contracted repository functions (LOGGED_FUNCTIONS of a spec), native side: pyvc.native wraps
# the real function for the duration of one evaluation and records (args, kwargs, result) here
_FLOG: dict = {}


def fcalls(name):
    return len(_FLOG.get(name, []))


def fcall_pos(name, k, i):
    a = _FLOG[name][k][0]
    return a[i] if i < len(a) else None


def fcall_ret(name, k):
    return _FLOG[name][k][2]


# the call log queried by receiver type, native side: recording stand-ins report (type name, object, method, args,
# kwargs) through tlog(); pyvc.native clears the list before each evaluation
_TLOG: list = []


def tlog(tname, obj, method, args, kwargs):
    _TLOG.append((tname, obj, method, tuple(args), dict(kwargs)))


def _tsel(tname, m):
    return [c for c in _TLOG if c[0] == tname and c[2] == m]


def tcalls(tname, m):
    return len(_tsel(tname, m))


def tcall_recv(tname, m, k):
    return _tsel(tname, m)[k][1]


def tcall_pos(tname, m, k, i):
    a = _tsel(tname, m)[k][3]
    return a[i] if i < len(a) else None
