"""Symbolic executor / VC generator over the real Python AST.

Path exploration is by re-execution under a decision oracle: ``choose(n)`` may be
called anywhere (also deep inside expression evaluation); every undecided
alternative is queued and the function is run again from the top.  Loops are cut
at the invariants given by the contract; calls to functions under contract use
the callee's contract only.
"""
from __future__ import annotations

import ast
import itertools
import os
from dataclasses import dataclass, field

import z3

from . import ty as T
from .sorts import Unsupported, World
from .values import (
    SV, BoundMethod, BreakSignal, ClassRef, Closure, ContinueSignal, DictView, EnumerateV, FuncRef,
    LazySeq, ModuleRef, Namespace, PathEnd, PyTuple, RaiseSignal, RangeV, Ref, ReturnSignal,
)

_cellc = itertools.count(1)
_quant_cache: dict = {}


def _has_quant(e) -> bool:
    key = e.get_id()
    if key in _quant_cache:
        return _quant_cache[key]
    out = False
    stack = [e]
    seen = set()
    while stack:
        x = stack.pop()
        if x.get_id() in seen:
            continue
        seen.add(x.get_id())
        if z3.is_quantifier(x):
            out = True
            break
        if z3.is_app(x):
            stack.extend(x.children())
    _quant_cache[key] = out
    return out


@dataclass
class Obligation:
    oid: str
    func: str
    kind: str
    clause: str
    line: int
    sig: str
    pc: list
    goal: object
    note: str = ""


class State:
    def __init__(self):
        self.env: dict = {}
        self.cells: dict[int, SV] = {}
        self.pc: list = []
        self.sig: list[str] = []
        self.moved: dict[int, int] = {}  # cell -> line where it was embedded elsewhere
        self.param_cells: set[int] = set()
        self.dead_refs: set = set()


class Frame:
    def __init__(self, module: str, fn_name: str):
        self.module = module
        self.fn_name = fn_name
        self.loop_ordinal = 0
        self.old_cells: dict | None = None
        self.old_env: dict | None = None
        self.loop_ctx: list = []


class Engine:
    def __init__(self, world: World, specs, feas_timeout_ms: int = 150):
        self.w = world
        self.specs = specs
        self.feas_timeout_ms = feas_timeout_ms
        self.obligations: dict[str, Obligation] = {}
        self.decisions: list[int] = []
        self.dpos = 0
        self.pending: list[list[int]] = []
        self.st: State = State()
        self.frames: list[Frame] = []
        self.facts: list | None = None  # side facts collector (inside quantifier bodies)
        self.func_fq = ""
        self.paths = 0
        self.terminal_paths = 0
        self.spec_mode = 0
        self.cover: list = []  # (label, pc) reachability samples
        self.max_paths = 4000
        self.binders: list = []
        self.cond_guards: list = []
        self.cur_contract = None
        self.cur_line = 0

    # ------------------------------------------------------------ utilities
    def assume(self, f):
        if self.facts is not None and self.spec_mode:
            self.facts.append(f)
        else:
            self.st.pc.append(f)

    def _mentions_bound(self, f) -> bool:
        ids = {v.get_id() for b in self.binders for v in b["vars"]}
        if not ids:
            return False
        stack, seen = [f], set()
        while stack:
            x = stack.pop()
            i = x.get_id()
            if i in seen:
                continue
            seen.add(i)
            if i in ids:
                return True
            if z3.is_quantifier(x):
                stack.append(x.body())
            elif z3.is_app(x):
                stack.extend(x.children())
        return False

    def side_fact(self, f):
        if self.facts is not None and self._mentions_bound(f):
            self.facts.append(f)
        else:
            # closed facts (also those produced under a binder) belong to the path condition itself
            seen = self.st.__dict__.setdefault("fact_ids", set())
            fid = f.get_id()
            if fid in seen:
                return
            seen.add(fid)
            self.st.pc.append(f)

    def choose(self, n: int, label: str) -> int:
        if self.dpos < len(self.decisions):
            c = self.decisions[self.dpos]
        else:
            c = 0
            for alt in range(1, n):
                self.pending.append(self.decisions[: self.dpos] + [alt])
            self.decisions.append(0)
        self.dpos += 1
        self.st.sig.append(f"{label}{c}")
        return c

    def feasible(self) -> bool:
        # 1. quantifier-free part only: fast and decisive in most cases
        s = z3.Solver()
        s.set("timeout", self.feas_timeout_ms)
        qf = [p for p in self.st.pc if not _has_quant(p)]
        for p in qf:
            s.add(p)
        if s.check() == z3.unsat:
            return False
        if len(qf) == len(self.st.pc):
            return True
        # 2. everything, short budget; `unknown` counts as feasible
        s = z3.Solver()
        s.set("timeout", self.feas_timeout_ms)
        s.set("rlimit", 1500000)
        for a in self.w.global_axioms():
            s.add(a)
        for p in self.st.pc:
            s.add(p)
        return s.check() != z3.unsat

    def branch(self, cond, label: str) -> bool:
        """Fork on a z3 Bool. Returns the truth value taken on this path."""
        cond = z3.simplify(cond)
        if z3.is_true(cond):
            return True
        if z3.is_false(cond):
            return False
        c = self.choose(2, label)
        if c == 0:
            self.st.pc.append(cond)
        else:
            self.st.pc.append(z3.Not(cond))
        if not self.feasible():
            raise PathEnd()
        return c == 0

    def oblige(self, kind: str, clause: str, goal, line: int, note: str = ""):
        if self.binders:
            # obligation raised under quantifier binders: close it over the bound variables
            vs, gs = [], []
            for b in self.binders:
                vs.extend(b["vars"])
                gs.extend(b["guards"])
            if self.facts:
                gs = gs + list(self.facts)
            body = z3.Implies(z3.And(*gs), goal) if gs else goal
            goal = z3.ForAll(vs, body)
            saved_b, saved_f = self.binders, self.facts
            self.binders, self.facts = [], None
            try:
                return self.oblige(kind, clause, goal, line, note)
            finally:
                self.binders, self.facts = saved_b, saved_f
        sig = ".".join(self.st.sig)
        oid = f"{self.func_fq}/{kind}:{clause}@L{line}/{sig}"
        probe = os.environ.get("PYVC_PROBE")
        if probe and oid not in self.obligations and "::" in probe and probe.split("::")[0] in oid:
            # developer aid: at the program point of this obligation, try to prove other facts
            # (spec-language expressions over the current frame, separated by ';;')
            import ast as _ast
            for n_, src in enumerate(probe.split("::", 1)[1].split(";;")):
                self.spec_mode += 1
                try:
                    g = self.truthy(self.ev(_ast.parse(src.strip(), mode="eval").body))
                finally:
                    self.spec_mode -= 1
                pid = f"{oid}#probe{n_}"
                self.obligations[pid] = Obligation(pid, self.func_fq, "probe", src.strip()[:60], line, sig,
                                                   list(self.st.pc), g, "probe")
        if oid in self.obligations:
            # same prefix re-executed on another path: already recorded
            self.st.pc.append(goal)
            return
        self.obligations[oid] = Obligation(oid, self.func_fq, kind, clause, line, sig, list(self.st.pc), goal, note)
        # standard: continue under the assumption that it holds
        self.st.pc.append(goal)

    def safety(self, cond, what: str, line: int):
        if self.spec_mode:
            return  # partial expressions inside contracts denote unspecified values, not obligations
        if self.cond_guards:
            cond = z3.Implies(z3.And(*self.cond_guards), cond)
        cond = z3.simplify(cond)
        if z3.is_true(cond):
            return
        self.oblige("safe", what, cond, line)

    # ------------------------------------------------ local term normalisation
    def acc(self, accessor, term):
        """accessor(term), reduced when term is the constructor application (keeps terms syntactically small, so
        that the same value is the same term on the code side and on the contract side)"""
        if z3.is_app(term) and term.decl().kind() == z3.Z3_OP_DT_CONSTRUCTOR:
            s = term.sort()
            for ci in range(s.num_constructors()):
                if s.constructor(ci).eq(term.decl()):
                    for ai in range(s.constructor(ci).arity()):
                        if s.accessor(ci, ai).eq(accessor):
                            return term.arg(ai)
        return accessor(term)

    def sel(self, arr, idx):
        """select(arr, idx), reduced over store with a syntactically equal / provably distinct literal index"""
        cur = arr
        while z3.is_app(cur) and cur.decl().kind() == z3.Z3_OP_STORE:
            a, i, v = cur.children()
            if z3.eq(i, idx):
                return v
            if (z3.is_int_value(i) and z3.is_int_value(idx)) or (
                    i.decl().name().startswith("str:") and idx.decl().name().startswith("str:")
                    if z3.is_const(i) and z3.is_const(idx) else False):
                cur = a  # distinct literals
                continue
            break
        return z3.Select(cur, idx) if cur is not arr else z3.Select(arr, idx)

    # ---------------------------------------------------------------- cells
    def new_cell(self, sv: SV) -> Ref:
        cid = next(_cellc)
        self.st.cells[cid] = SV(sv.term, sv.ty)
        return Ref(cid)

    def read_ref(self, ref: Ref) -> SV:
        cur = self.st.cells[ref.cell]
        term, ty = cur.term, cur.ty
        for step in ref.path:
            term, ty = self._step_read(term, ty, step)
        if ref.path and term is not None:
            term = z3.simplify(term)
        return SV(term, ty, ref=ref)

    def _step_read(self, term, ty, step):
        k = step[0]
        if k == "f":
            _, cls, fld = step
            _, _, accs = self.w.obj(cls)
            return self.acc(accs[fld], term), self.w.field_ty(cls, fld)
        if k == "i":
            s = self.w.sort(ty)
            return self.sel(self.acc(s.accessor(0, 1), term), step[1]), ty.args[0]
        if k == "k":
            s = self.w.sort(ty)
            return self.sel(self.acc(s.accessor(0, 1), term), step[1]), ty.args[1]
        if k == "some":
            s = self.w.sort(ty)
            return s.accessor(1, 0)(term), ty.args[0]
        if k == "inj":
            s = self.w.sort(ty)
            idx = list(ty.args).index(step[1])
            return s.accessor(idx, 0)(term), T.Obj(step[1])
        raise Unsupported(f"bad path step {step}")

    def write_ref(self, ref: Ref, val: SV, line: int = 0):
        if ref.cell in self.st.moved and ref.cell not in self.st.param_cells:
            raise Unsupported(f"alias hazard: mutation through a value embedded elsewhere at line {self.st.moved[ref.cell]} (line {line})")
        cur = self.st.cells[ref.cell]
        newterm = z3.simplify(self._write(cur.term, cur.ty, ref.path, val))
        # the root keeps its structure (constructor / store terms): reads of untouched parts then reduce
        # syntactically to the old sub-terms (key sets, configs, other dict entries stay *identical* terms)
        self.st.cells[ref.cell] = SV(newterm, cur.ty)

    def _write(self, term, ty, path, val: SV):
        if not path:
            return self.coerce(val, ty).term
        step = path[0]
        sub, subty = self._step_read(term, ty, step)
        newsub = self._write(sub, subty, path[1:], val)
        k = step[0]
        if k == "f":
            _, cls, fld = step
            s, ctor, accs = self.w.obj(cls)
            args = [newsub if f == fld else accs[f](term) for f, _ in self.w.obj_fields(cls)]
            return ctor(*args)
        s = self.w.sort(ty)
        if k == "i":
            return s.constructor(0)(s.accessor(0, 0)(term), z3.Store(s.accessor(0, 1)(term), step[1], newsub))
        if k == "k":
            # a place with a key step always denotes a PRESENT key (it was obtained by d[k] under its KeyError
            # obligation, by setdefault, or by iteration), so the key set is not touched
            return s.constructor(0)(s.accessor(0, 0)(term), z3.Store(s.accessor(0, 1)(term), step[1], newsub))
        if k == "some":
            return s.constructor(1)(newsub)
        if k == "inj":
            idx = list(ty.args).index(step[1])
            return s.constructor(idx)(newsub)
        raise Unsupported(f"bad path step {step}")

    def mutate(self, sv: SV, newval: SV, line: int):
        """In-place mutation of the object denoted by sv."""
        if sv.ref is None:
            if sv.fresh:
                return  # mutation of an unnamed fresh temp: unobservable
            raise Unsupported(f"mutation through an untracked alias at line {line}")
        if sv.ref in self.st.dead_refs:
            raise Unsupported(f"use of a place invalidated by a structural list mutation (line {line})")
        self.write_ref(sv.ref, newval, line)

    def embed(self, sv, line: int):
        """sv is stored into another object: value copy; record alias hazard."""
        if isinstance(sv, SV) and sv.ref is not None and T.is_mutable(sv.ty):
            if sv.ref.cell not in self.st.param_cells:
                self.st.moved.setdefault(sv.ref.cell, line)
        return sv

    # ------------------------------------------------------------ list/dict
    def lst(self, sv: SV):
        s = self.w.sort(sv.ty)
        a0, a1 = s.accessor(0, 0), s.accessor(0, 1)
        return s.constructor(0), (lambda t: self.acc(a0, t)), (lambda t: self.acc(a1, t))

    def list_len(self, sv: SV):
        if sv.term is None:
            return z3.IntVal(0)
        _, ln, _ = self.lst(sv)
        n = ln(sv.term)
        # type invariant of the particular term (a global axiom "all values of the sort have len >= 0" would be
        # inconsistent with the datatype theory); under binders it is hoisted by quant()/materialize()
        self.side_fact(n >= 0)
        return n

    def list_get(self, sv: SV, i):
        _, _, arr = self.lst(sv)
        return self.sel(arr(sv.term), i)

    def mk_list(self, elty: T.Ty, n, arr) -> SV:
        t = T.List(elty)
        s = self.w.sort(t)
        return SV(s.constructor(0)(n, arr), t, fresh=True)

    def empty_list(self, elty: T.Ty) -> SV:
        t = T.List(elty)
        s = self.w.sort(t)
        # one canonical (unobservable) cell array per element sort: every empty list is the same term, in the code and in
        # the contracts alike
        asort = z3.ArraySort(z3.IntSort(), self.w.sort(elty))
        arr = z3.Const(f"nil<{self.w.sort(elty)}>", asort)
        return SV(s.constructor(0)(z3.IntVal(0), arr), t, fresh=True)

    def dct(self, sv: SV):
        s = self.w.sort(sv.ty)
        a0, a1 = s.accessor(0, 0), s.accessor(0, 1)
        return s.constructor(0), (lambda t: self.acc(a0, t)), (lambda t: self.acc(a1, t))

    def empty_dict(self, kt: T.Ty, vt: T.Ty) -> SV:
        t = T.Dict(kt, vt)
        s = self.w.sort(t)
        # one canonical (unobservable) value array per dict sort: every empty dict is the same term
        vals = z3.Const(f"nild<{self.w.sort(kt)},{self.w.sort(vt)}>", z3.ArraySort(self.w.sort(kt), self.w.sort(vt)))
        return SV(s.constructor(0)(z3.K(self.w.sort(kt), z3.BoolVal(False)), vals), t, fresh=True)

    def _pattern_safe(self, e) -> bool:
        stack = [e]
        while stack:
            x = stack.pop()
            if z3.is_quantifier(x) or z3.is_var(x):
                return False
            if z3.is_app(x) and x.num_args() > 0:
                if x.decl().kind() not in (z3.Z3_OP_SELECT, z3.Z3_OP_UNINTERPRETED, z3.Z3_OP_DT_ACCESSOR,
                                           z3.Z3_OP_DT_CONSTRUCTOR):
                    return False
                stack.extend(x.children())
        return True

    def dict_order(self, d: SV, sorted_: bool = False):
        """(size, order array, pos fn).  Iteration order is modelled as a fixed but arbitrary function of the KEY SET
        (values may be mutated in place while iterating, adding / removing keys may not)."""
        ks = self.w.sort(d.ty.args[0])
        _, has, _ = self.dct(d)
        return self._keyset_order(has(d.term), ks, sorted_)

    def _keyset_order(self, h, ks, sorted_: bool = False, _depth: int = 0):
        hs = h.sort()
        base_info = None
        if z3.is_store(h) and _depth < 6 and not (self.binders and self._mentions_bound(h)):
            # one key added / removed: the size changes accordingly (cardinality of the key set)
            b, key, v = h.arg(0), h.arg(1), h.arg(2)
            bsize, _, _ = self._keyset_order(b, ks, sorted_, _depth + 1)
            base_info = (bsize, z3.Select(b, key), v)
        if not self._pattern_safe(h):
            # store / ite / constant-array terms may not occur in triggers: name the key set
            names = self.st.__dict__.setdefault("keyset_names", {})
            if h.get_id() in names and not self.binders:
                h = names[h.get_id()][0]
            else:
                hc = self.w.fresh_sort(hs, "keys")
                if self.binders and self._mentions_bound(h):
                    raise Unsupported("dict iteration order of a key set that depends on a bound variable")
                self.side_fact(hc == h)
                if not self.binders:
                    names[h.get_id()] = (hc, h)
                h = hc
        # iteration order: one arbitrary but fixed function of the key set per kind of container (dict insertion
        # order / sorted order / set order are unrelated to each other)
        tag = sorted_ if isinstance(sorted_, str) else ("s" if sorted_ else "")
        size = self.w.func(f"dsize{tag}<{ks}>", hs, z3.IntSort())(h)
        order = self.w.func(f"dorder{tag}<{ks}>", hs, z3.ArraySort(z3.IntSort(), ks))(h)
        pf = self.w.func(f"dpos{tag}<{ks}>", hs, ks, z3.IntSort())
        posf = lambda _dterm, k_, _h=h: pf(_h, k_)
        if not self.binders:
            done = self.st.__dict__.setdefault("order_done", set())
            key = (h.get_id(), sorted_)
            if key in done:
                return size, order, posf
            done.add(key)
        i = z3.Const("oi", z3.IntSort())
        k = z3.Const("ok", ks)
        self.side_fact(size >= 0)
        if base_info is not None:
            bsize, had, v = base_info
            self.side_fact(size == bsize + z3.If(v, z3.If(had, 0, 1), z3.If(had, -1, 0)))
        # ground instance at 0 (no term order[0] exists to trigger it): an empty key set has size 0
        self.side_fact(z3.Implies(size > 0, z3.Select(h, z3.Select(order, 0))))
        self.side_fact(z3.ForAll([i], z3.Implies(z3.And(0 <= i, i < size),
                                                 z3.And(z3.Select(h, z3.Select(order, i)),
                                                        pf(h, z3.Select(order, i)) == i)),
                                 patterns=[z3.Select(order, i)], qid="dict-order"))
        # NB: no `order[pos(k)] == k` here: it would create a new key term for every key term (an e-matching
        # loop through every quantifier over keys); injectivity of pos gives the same information
        self.side_fact(z3.ForAll([k], z3.Implies(z3.Select(h, k), z3.And(0 <= pf(h, k), pf(h, k) < size)),
                                 patterns=[pf(h, k)], qid="dict-pos"))
        k2 = z3.Const("ok2", ks)
        self.side_fact(z3.ForAll([k, k2], z3.Implies(z3.And(z3.Select(h, k), z3.Select(h, k2),
                                                           pf(h, k) == pf(h, k2)), k == k2),
                                 patterns=[z3.MultiPattern(pf(h, k), pf(h, k2))], qid="dict-pos-inj"))
        return size, order, posf

    # -------------------------------------------------------------- coerce
    def join(self, a: T.Ty, b: T.Ty) -> T.Ty:
        if a == b:
            return a
        if a.kind == "unknown":
            return b
        if b.kind == "unknown":
            return a
        if a.kind in ("list", "dict", "set") and a.kind == b.kind:
            return T.Ty(a.kind, tuple(self.join(x, y) for x, y in zip(a.args, b.args)))
        if {a.kind, b.kind} <= {"int", "real", "bool"}:
            if "real" in (a.kind, b.kind):
                return T.REAL
            return T.INT
        if a.kind == "none":
            return T.Opt(b)
        if b.kind == "none":
            return T.Opt(a)
        if a.kind == "opt" and b.kind == "opt":
            return T.Opt(self.join(a.args[0], b.args[0]))
        if a.kind == "opt":
            return T.Opt(self.join(a.args[0], b))
        if b.kind == "opt":
            return T.Opt(self.join(a, b.args[0]))
        if a.kind == "obj" and b.kind == "union" and a.name in b.args:
            return b
        if b.kind == "obj" and a.kind == "union" and b.name in a.args:
            return a
        if a.kind == "obj" and b.kind == "obj":
            return T.Union(f"{a.name}|{b.name}", (a.name, b.name))
        if a == T.ANY or b == T.ANY:
            return T.ANY
        raise Unsupported(f"cannot join types {a} and {b}")

    def coerce(self, sv, ty: T.Ty, line: int = 0) -> SV:
        if not isinstance(sv, SV):
            if isinstance(sv, LazySeq):
                sv = self.materialize(sv)
            elif isinstance(sv, PyTuple) and ty.kind == "tuple":
                items = [self.coerce(x, t, line) for x, t in zip(sv.items, ty.args)]
                s = self.w.sort(ty)
                return SV(s.constructor(0)(*[i.term for i in items]), ty, fresh=True)
            elif isinstance(sv, PyTuple) and ty.kind == "opt" and ty.args[0].kind == "tuple":
                return self.coerce(self.coerce(sv, ty.args[0], line), ty, line)
            elif isinstance(sv, PyTuple) and ty.kind == "list":
                el = ty.args[0]
                out = self.empty_list(el)
                for i, x in enumerate(sv.items):
                    out = self.list_append_val(out, self.coerce(x, el, line))
                return out
            elif isinstance(sv, ClassRef) and ty == T.TYPE:
                return SV(self.w.type_const(sv.name), T.TYPE)
            elif isinstance(sv, (Closure, BoundMethod, FuncRef)) and ty.kind == "opaque":
                return SV(self.w.fresh(ty, "callable"), ty)
            else:
                raise Unsupported(f"cannot coerce python-level value {type(sv).__name__} to {ty}")
        a = sv.ty
        if a == ty:
            return sv
        if ty.kind == "unknown":
            return sv
        if a.kind in ("list", "dict", "set") and sv.term is None:
            # empty literal of not yet known element type
            if ty.kind == "opt":
                inner = self.coerce(sv, ty.args[0], line)
                return self.coerce(inner, ty, line)
            if ty.kind != a.kind and ty != T.ANY:
                raise Unsupported(f"empty {a.kind} literal used as {ty}")
            if ty == T.ANY:
                return SV(self.w.fresh(T.ANY, "emptyany"), T.ANY)
            if a.kind == "list":
                return self.empty_list(ty.args[0])
            if a.kind == "dict":
                return self.empty_dict(ty.args[0], ty.args[1])
            return SV(z3.K(self.w.sort(ty.args[0]), z3.BoolVal(False)), ty, fresh=True)
        if a.kind == "int" and ty.kind == "real":
            return SV(z3.ToReal(sv.term), T.REAL)
        if a.kind == "bool" and ty.kind == "int":
            return SV(z3.If(sv.term, 1, 0), T.INT)
        if a.kind == "bool" and ty.kind == "real":
            return SV(z3.If(sv.term, z3.RealVal(1), z3.RealVal(0)), T.REAL)
        if ty.kind == "opt":
            s = self.w.sort(ty)
            if a.kind == "none":
                return SV(s.constructor(0)(), ty)
            if a.kind == "opt":
                sa = self.w.sort(a)
                inner = self.coerce(SV(sa.accessor(1, 0)(sv.term), a.args[0]), ty.args[0], line)
                return SV(z3.If(sa.recognizer(0)(sv.term), s.constructor(0)(), s.constructor(1)(inner.term)), ty,
                          fresh=sv.fresh)
            inner = self.coerce(sv, ty.args[0], line)
            return SV(s.constructor(1)(inner.term), ty, fresh=sv.fresh)
        if a.kind == "opt" and (ty.kind != "opaque" or a.args[0] == ty):
            sa = self.w.sort(a)
            self.safety(sa.recognizer(1)(sv.term), f"not-None-as-{ty}", line)
            ref = sv.ref.ext(("some",)) if sv.ref else None
            return self.coerce(SV(sa.accessor(1, 0)(sv.term), a.args[0], ref=ref), ty, line)
        if a.kind == "obj" and ty.kind == "union":
            if a.name not in ty.args:
                raise Unsupported(f"{a.name} not in union {ty.name}")
            s = self.w.sort(ty)
            return SV(s.constructor(list(ty.args).index(a.name))(sv.term), ty, fresh=sv.fresh)
        if a.kind == "union" and ty.kind == "union":
            sa, sb = self.w.sort(a), self.w.sort(ty)
            out = None
            for i, alt in reversed(list(enumerate(a.args))):
                if alt not in ty.args:
                    self.safety(z3.Not(sa.recognizer(i)(sv.term)), f"union-narrow-{alt}", line)
                    continue
                v = sb.constructor(list(ty.args).index(alt))(sa.accessor(i, 0)(sv.term))
                out = v if out is None else z3.If(sa.recognizer(i)(sv.term), v, out)
            return SV(out, ty, fresh=sv.fresh)
        if a.kind == "union" and ty.kind == "obj":
            sa = self.w.sort(a)
            idx = list(a.args).index(ty.name)
            self.safety(sa.recognizer(idx)(sv.term), f"is-{ty.name}", line)
            ref = sv.ref.ext(("inj", ty.name)) if sv.ref else None
            return SV(sa.accessor(idx, 0)(sv.term), ty, ref=ref)
        if ty == T.ANY:
            f = self.w.func(f"box<{self.w.sort(a)}>", self.w.sort(a), self.w.sort(T.ANY))
            return SV(f(sv.term), T.ANY)
        if a == T.ANY:
            f = self.w.func(f"unbox<{self.w.sort(ty)}>", self.w.sort(T.ANY), self.w.sort(ty))
            return SV(f(sv.term), ty)
        if a.kind == "list" and ty.kind == "list":
            # element-wise coercion
            i = z3.Const("ci", z3.IntSort())
            el = self.coerce(SV(self.list_get(sv, i), a.args[0]), ty.args[0], line)
            return self.mk_list(ty.args[0], self.list_len(sv), z3.Lambda([i], el.term))
        if a.kind == "opaque" and ty.kind == "opaque":
            f = self.w.func(f"cast<{a.name},{ty.name}>", self.w.sort(a), self.w.sort(ty))
            return SV(f(sv.term), ty)
        if a.kind == "str" and ty.kind == "opaque":
            f = self.w.func(f"cast<str,{ty.name}>", self.w.sort(a), self.w.sort(ty))
            return SV(f(sv.term), ty)
        raise Unsupported(f"cannot coerce {a} to {ty} (line {line})")

    def unify(self, a: SV, b: SV, line: int = 0):
        t = self.join(a.ty, b.ty)
        return self.coerce(a, t, line), self.coerce(b, t, line), t

    # ----------------------------------------------------------- truthiness
    def truthy(self, v) -> object:
        if isinstance(v, LazySeq):
            return self.lazy_exists(v)
        if isinstance(v, PyTuple):
            return z3.BoolVal(len(v.items) > 0)
        if isinstance(v, (ClassRef, Closure, FuncRef, BoundMethod)):
            return z3.BoolVal(True)
        if not isinstance(v, SV):
            raise Unsupported(f"truthiness of {type(v).__name__}")
        k = v.ty.kind
        if k == "bool":
            return v.term
        if k == "int":
            return v.term != 0
        if k == "real":
            return v.term != 0
        if k == "str":
            return v.term != self.w.strlit("")
        if k == "none":
            return z3.BoolVal(False)
        if k == "opt":
            s = self.w.sort(v.ty)
            inner = SV(s.accessor(1, 0)(v.term), v.ty.args[0])
            return z3.And(s.recognizer(1)(v.term), self.truthy(inner))
        if k == "list":
            if v.term is None:
                return z3.BoolVal(False)
            return self.list_len(v) > 0
        if k == "dict":
            if v.term is None:
                return z3.BoolVal(False)
            _, has, _ = self.dct(v)
            kk = z3.Const("tk", self.w.sort(v.ty.args[0]))
            return z3.Exists([kk], z3.Select(has(v.term), kk))
        if k == "set":
            if v.term is None:
                return z3.BoolVal(False)
            kk = z3.Const("tk", self.w.sort(v.ty.args[0]))
            return z3.Exists([kk], z3.Select(v.term, kk))
        if k in ("obj", "union", "enum", "tuple"):
            return z3.BoolVal(True)
        if k == "opaque":
            if v.ty.name in ("Event", "Exc", "Type", "Callable", "RetryPolicy", "datetime"):
                return z3.BoolVal(True)
            # an instance of a repository class that defines neither __bool__ nor __len__ (nor inherits one from a
            # class we cannot see) is truthy; subclasses overriding truthiness are not considered (stated assumption)
            ci = self.w.repo.find_class(v.ty.name, getattr(self.frames[-1], "module", None) if self.frames else None)
            if ci is not None:
                names, ok = self.w.repo.mro_names(ci), True
                for n in names:
                    c2 = self.w.repo.find_class(n, ci.module)
                    if c2 is None:
                        ok = ok and n in ("object", "ABC", "Protocol", "Generic", "BaseModel")
                    elif "__bool__" in c2.methods or "__len__" in c2.methods:
                        ok = False
                if ok:
                    return z3.BoolVal(True)
            f = self.w.func(f"truthy<{v.ty.name}>", self.w.sort(v.ty), z3.BoolSort())
            return f(v.term)
        raise Unsupported(f"truthiness of {v.ty}")

    # -------------------------------------------------------------- equality
    def py_eq(self, a, b, line: int = 0):
        if isinstance(a, ClassRef):
            a = SV(self.w.type_const(a.name), T.TYPE)
        if isinstance(b, ClassRef):
            b = SV(self.w.type_const(b.name), T.TYPE)
        if isinstance(a, PyTuple) and isinstance(b, PyTuple):
            if len(a.items) != len(b.items):
                return z3.BoolVal(False)
            return z3.And(*[self.py_eq(x, y, line) for x, y in zip(a.items, b.items)]) if a.items else z3.BoolVal(True)
        if not isinstance(a, SV) or not isinstance(b, SV):
            raise Unsupported(f"== on {type(a).__name__}/{type(b).__name__}")
        if a.ty.kind == "none" and b.ty.kind == "none":
            return z3.BoolVal(True)
        try:
            a, b, t = self.unify(a, b, line)
        except Unsupported:
            return z3.BoolVal(False) if a.ty.kind != "opaque" and b.ty.kind != "opaque" else self._opaque_eq(a, b)
        return self._eq_t(a.term, b.term, t)

    def _opaque_eq(self, a, b):
        return z3.Bool(f"opaque_eq!{next(_cellc)}")

    def _eq_t(self, x, y, t: T.Ty):
        k = t.kind
        if k in ("int", "real", "bool", "str", "none", "opaque", "enum", "set"):
            return x == y
        if k == "opt":
            s = self.w.sort(t)
            return z3.Or(z3.And(s.recognizer(0)(x), s.recognizer(0)(y)),
                         z3.And(s.recognizer(1)(x), s.recognizer(1)(y),
                                self._eq_t(s.accessor(1, 0)(x), s.accessor(1, 0)(y), t.args[0])))
        if k == "list":
            if self._scalar(t.args[0]):
                pass
            s = self.w.sort(t)
            ln, arr = s.accessor(0, 0), s.accessor(0, 1)
            i = z3.Const(f"eqi{next(_cellc)}", z3.IntSort())
            body = self._eq_t(z3.Select(arr(x), i), z3.Select(arr(y), i), t.args[0])
            qb = z3.Implies(z3.And(0 <= i, i < ln(x)), body)
            pats = [p_ for p_ in (z3.Select(arr(x), i), z3.Select(arr(y), i)) if self._pattern_safe(p_)]
            try:
                q = z3.ForAll([i], qb, patterns=pats) if pats else z3.ForAll([i], qb)
            except z3.Z3Exception:
                q = z3.ForAll([i], qb)
            return z3.And(ln(x) == ln(y), q)
        if k == "dict":
            s = self.w.sort(t)
            has, val = s.accessor(0, 0), s.accessor(0, 1)
            kk = z3.Const(f"eqk{next(_cellc)}", self.w.sort(t.args[0]))
            body = self._eq_t(z3.Select(val(x), kk), z3.Select(val(y), kk), t.args[1])
            qbody = z3.And(z3.Select(has(x), kk) == z3.Select(has(y), kk), z3.Implies(z3.Select(has(x), kk), body))
            pats = [p_ for p_ in (z3.Select(has(x), kk), z3.Select(has(y), kk)) if self._pattern_safe(p_)]
            try:
                return z3.ForAll([kk], qbody, patterns=pats) if pats else z3.ForAll([kk], qbody)
            except z3.Z3Exception:
                return z3.ForAll([kk], qbody)
        if k == "obj":
            _, _, accs = self.w.obj(t.name)
            fs = self.w.obj_fields(t.name)
            if not fs:
                return z3.BoolVal(True)
            return z3.And(*[self._eq_t(accs[f](x), accs[f](y), ft) for f, ft in fs])
        if k == "union":
            s = self.w.sort(t)
            return z3.Or(*[z3.And(s.recognizer(i)(x), s.recognizer(i)(y),
                                  self._eq_t(s.accessor(i, 0)(x), s.accessor(i, 0)(y), T.Obj(a)))
                           for i, a in enumerate(t.args)])
        if k == "tuple":
            s = self.w.sort(t)
            return z3.And(*[self._eq_t(s.accessor(0, i)(x), s.accessor(0, i)(y), ta) for i, ta in enumerate(t.args)])
        raise Unsupported(f"== at type {t}")

    def _scalar(self, t):
        if t.kind == "opt" and t.args[0].kind == "opaque":
            return True  # Optional[<library object>]: identity of the object, or None
        return t.kind in ("int", "real", "bool", "str", "none", "opaque", "enum")
