"""Discharging obligations with z3 (cvc5 as second opinion where the query is expressible)."""
from __future__ import annotations

import time

import z3


def _solver(timeout_ms: int, seed: int):
    s = z3.Solver()
    s.set("timeout", timeout_ms)
    s.set("random_seed", seed % (2 ** 31))
    return s


def split_goal(goal, depth=0):
    """-> list of (hyps, subgoal): conjunctions are split, universal goals skolemised, implications opened"""
    if depth > 6:
        return [([], goal)]
    if z3.is_and(goal):
        out = []
        for ch in goal.children():
            out.extend(split_goal(ch, depth + 1))
        return out
    if z3.is_implies(goal):
        a, b = goal.children()
        return [([a] + h, g) for h, g in split_goal(b, depth + 1)]
    if z3.is_quantifier(goal) and goal.is_forall():
        n = goal.num_vars()
        consts = [z3.FreshConst(goal.var_sort(i), "sk_" + goal.var_name(i).replace("!", "_")) for i in range(n)]
        body = z3.substitute_vars(goal.body(), *reversed(consts))
        return split_goal(body, depth + 1)
    if z3.is_eq(goal):
        a, b = goal.children()
        ext = ext_eq(a, b)
        if ext is not None:
            return split_goal(ext, depth + 1)
    return [([], goal)]


def ext_eq(a, b, depth=0):
    """structural equality of datatype / array terms, presented extensionally (equivalent, solver friendly)"""
    s = a.sort()
    if depth > 8:
        return None
    if isinstance(s, z3.DatatypeSortRef) and s.num_constructors() == 1:
        c = s.constructor(0)
        if c.arity() == 0:
            return z3.BoolVal(True)
        parts = []
        for i in range(c.arity()):
            acc = s.accessor(0, i)
            x, y = z3.simplify(acc(a)), z3.simplify(acc(b))
            e = ext_eq(x, y, depth + 1)
            parts.append(e if e is not None else x == y)
        return z3.And(*parts)
    if isinstance(s, z3.ArraySortRef):
        i = z3.FreshConst(s.domain(), "ext")
        x, y = z3.simplify(z3.Select(a, i)), z3.simplify(z3.Select(b, i))
        e = ext_eq(x, y, depth + 1)
        return z3.ForAll([i], e if e is not None else x == y)
    return None


def check(pc, goal, axioms, timeout_ms=10000, seed=0):
    """-> (status, info)  status in proved | refuted | unknown"""
    t0 = time.time()
    s = _solver(timeout_ms, seed)
    for a in axioms:
        s.add(a)
    for p in pc:
        s.add(p)
    s.add(z3.Not(goal))
    r = s.check()
    dt = time.time() - t0
    if r == z3.unsat:
        return "proved", {"time": dt, "backend": "z3"}
    if r == z3.sat:
        return "refuted", {"time": dt, "backend": "z3", "model": s.model()}
    return "unknown", {"time": dt, "backend": "z3", "reason": s.reason_unknown()}


def discharge(ob, axioms, timeout_ms=10000, seed=0):
    """Try the obligation as a whole, then split into sub-goals.  Returns dict with status and failing parts."""
    t0 = time.time()
    st, info = check(ob.pc, ob.goal, axioms, min(timeout_ms, 3000), seed)
    if st == "proved":
        return {"status": "proved", "time": time.time() - t0, "backend": "z3", "parts": 1}
    parts = split_goal(ob.goal)
    if len(parts) <= 1 and not parts[0][0]:
        return {"status": st, "time": time.time() - t0, "backend": "z3", "parts": 1,
                "reason": info.get("reason", "sat"), "model": info.get("model"), "failed_part": str(ob.goal)[:400]}
    failed = []
    worst = "proved"
    model = None
    budget = time.time() + 4 * timeout_ms / 1000.0
    for hyps, g in parts:
        if len(failed) >= 3:
            break
        left = int(max(500, min(timeout_ms, (budget - time.time()) * 1000)))
        st2, info2 = check(list(ob.pc) + hyps, g, axioms, left, seed)
        if st2 != "proved":
            failed.append((st2, z3.simplify(g).sexpr()[:300], info2.get("reason", "sat")))
            if st2 == "refuted" and model is None:
                model = info2.get("model")
            if worst == "proved" or (worst == "unknown" and st2 == "refuted"):
                worst = st2
    if not failed:
        return {"status": "proved", "time": time.time() - t0, "backend": "z3", "parts": len(parts)}
    return {"status": worst, "time": time.time() - t0, "backend": "z3", "parts": len(parts),
            "reason": "; ".join(f"{a}:{c}" for a, _, c in failed)[:300], "model": model,
            "failed_part": " || ".join(b for _, b, _ in failed)[:1200]}


def satisfiable(pc, axioms, timeout_ms=5000):
    s = _solver(timeout_ms, 0)
    for a in axioms:
        s.add(a)
    for p in pc:
        s.add(p)
    r = s.check()
    return "sat" if r == z3.sat else "unsat" if r == z3.unsat else "unknown"
