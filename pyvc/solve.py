"""Discharging obligations.

Every obligation is printed as SMT-LIB2 and decided by a z3 *subprocess* (`z3-new -T:<s>`): hard
time limits (the in-process timeout is only advisory inside quantifier instantiation) and real
parallelism over the 16 cores.  On anything but `unsat` the goal is split (conjunctions,
skolemised universals, extensional equalities) and the parts are tried separately, which also
names the part that fails.
"""
from __future__ import annotations

import os
import shutil
import subprocess
import tempfile
import time
from concurrent.futures import ThreadPoolExecutor

import z3

Z3_BIN = shutil.which("z3-new") or shutil.which("z3") or "/usr/bin/z3"
CVC5_BIN = shutil.which("cvc5")


def split_goal(goal, depth=0):
    """-> list of (hyps, subgoal): conjunctions are split, universal goals skolemised, implications opened"""
    if depth > 8:
        return [([], goal)]
    if z3.is_and(goal):
        out = []
        for ch in goal.children():
            out.extend(split_goal(ch, depth + 1))
        return out
    if z3.is_implies(goal):
        a, b = goal.children()
        return [([a] + h, g) for h, g in split_goal(b, depth + 1)]
    if z3.is_quantifier(goal) and goal.is_forall():
        n = goal.num_vars()
        consts = [z3.FreshConst(goal.var_sort(i), "sk_" + goal.var_name(i).replace("!", "_")) for i in range(n)]
        body = z3.substitute_vars(goal.body(), *reversed(consts))
        return split_goal(body, depth + 1)
    if z3.is_eq(goal):
        a, b = goal.children()
        if a.sort() == z3.BoolSort():
            return split_goal(z3.Implies(a, b), depth + 1) + split_goal(z3.Implies(b, a), depth + 1)
        ext = ext_eq(a, b)
        if ext is not None:
            return split_goal(ext, depth + 1)
    if z3.is_app(goal) and goal.decl().kind() == z3.Z3_OP_ITE and goal.sort() == z3.BoolSort():
        c, a, b = goal.children()
        return [([c] + h, g) for h, g in split_goal(a, depth + 1)] + \
               [([z3.Not(c)] + h, g) for h, g in split_goal(b, depth + 1)]
    return [([], goal)]


def ext_eq(a, b, depth=0):
    """structural equality of datatype / array terms, presented extensionally (equivalent, solver friendly)"""
    s = a.sort()
    if depth > 8:
        return None
    if isinstance(s, z3.DatatypeSortRef) and s.num_constructors() == 1:
        c = s.constructor(0)
        if c.arity() == 0:
            return z3.BoolVal(True)
        parts = []
        for i in range(c.arity()):
            acc = s.accessor(0, i)
            x, y = z3.simplify(acc(a)), z3.simplify(acc(b))
            e = ext_eq(x, y, depth + 1)
            parts.append(e if e is not None else x == y)
        return z3.And(*parts)
    if isinstance(s, z3.ArraySortRef):
        i = z3.FreshConst(s.domain(), "ext")
        x, y = z3.simplify(z3.Select(a, i)), z3.simplify(z3.Select(b, i))
        e = ext_eq(x, y, depth + 1)
        return z3.ForAll([i], e if e is not None else x == y)
    return None


def _check_inproc(pc, goal, axioms, timeout_ms, seed, want_model):
    s = z3.Solver()
    s.set("timeout", int(timeout_ms))
    s.set("random_seed", seed % (2 ** 31))
    for a in axioms:
        s.add(a)
    for p in pc:
        s.add(p)
    s.add(z3.Not(goal))
    r = s.check()
    if r == z3.unsat:
        return "proved", {}
    if r == z3.sat:
        m = ""
        if want_model:
            try:
                m = str(s.model())[:6000]
            except Exception:
                m = ""
        return "refuted", {"model": m}
    return "unknown", {"reason": s.reason_unknown()}


def run_forked(tasks, jobs, hard_extra_s=3.0):
    """tasks: list of (key, fn) ; each fn() runs in a forked child (inherits the z3 context copy-on-write) and
    returns a JSON-able (status, info).  Hard wall-clock limit per child via fn.limit_s."""
    import json
    import select
    results = {}
    pending = list(tasks)
    running = {}  # pid -> (key, fd, t0, limit)
    while pending or running:
        while pending and len(running) < jobs:
            key, fn, limit = pending.pop(0)
            r, w_ = os.pipe()
            pid = os.fork()
            if pid == 0:
                try:
                    os.close(r)
                    try:
                        out = fn()
                    except Exception as e:  # noqa
                        out = ("error", {"reason": f"{type(e).__name__}: {e}"[:500]})
                    os.write(w_, json.dumps(out).encode())
                finally:
                    os._exit(0)
            os.close(w_)
            running[pid] = (key, r, time.time(), limit)
        # poll
        now = time.time()
        for pid in list(running):
            key, fd, t0, limit = running[pid]
            done_pid, _ = os.waitpid(pid, os.WNOHANG)
            if done_pid == pid:
                data = b""
                while True:
                    chunk = os.read(fd, 65536)
                    if not chunk:
                        break
                    data += chunk
                os.close(fd)
                del running[pid]
                try:
                    st, info = json.loads(data.decode())
                except Exception:
                    st, info = "error", {"reason": "solver child died without a result"}
                info["time"] = time.time() - t0
                results[key] = (st, info)
            elif now - t0 > limit + hard_extra_s:
                try:
                    os.kill(pid, 9)
                except OSError:
                    pass
                os.waitpid(pid, 0)
                os.close(fd)
                del running[pid]
                results[key] = ("unknown", {"reason": "hard timeout (killed)", "time": now - t0})
        if running:
            # drain pipes of children that produce big outputs, then nap
            rl, _, _ = select.select([v[1] for v in running.values()], [], [], 0.01)
            time.sleep(0.005)
    return results


def discharge_all(obligations, axioms, timeout_ms=10000, seed=0, jobs=8):
    """-> {oid: result dict}.  Round 1: whole goals; round 2: the parts of what is left (names the failing part)."""
    results = {}
    first_ms = min(timeout_ms, 4000)
    t1 = []
    for ob in obligations:
        t1.append((ob.oid, (lambda ob=ob: _check_inproc(ob.pc, ob.goal, axioms, first_ms, seed, False)),
                   first_ms / 1000.0))
    r1 = run_forked(t1, jobs)
    for ob in obligations:
        st, info = r1[ob.oid]
        results[ob.oid] = {"status": st, "time": info.get("time", 0.0), "backend": "z3", "parts": 1,
                           "reason": info.get("reason")}
    left = [ob for ob in obligations if results[ob.oid]["status"] != "proved"]
    t2 = []
    meta = {}
    for ob in left:
        parts = split_goal(ob.goal)
        for k, (hyps, g) in enumerate(parts):
            key = f"{ob.oid}#{k}"
            meta[key] = (ob, k, g)
            t2.append((key, (lambda ob=ob, hyps=hyps, g=g: _check_inproc(list(ob.pc) + hyps, g, axioms, timeout_ms,
                                                                        seed, True)), timeout_ms / 1000.0))
    r2 = run_forked(t2, jobs)
    per_ob = {}
    for key, (st, info) in r2.items():
        ob, k, g = meta[key]
        per_ob.setdefault(ob.oid, []).append((k, st, info, g))
    for ob in left:
        rs = sorted(per_ob.get(ob.oid, []), key=lambda x: x[0])
        tot = results[ob.oid]["time"] + sum(i.get("time", 0.0) for _, _, i, _ in rs)
        failed = [(k, st, info, g) for k, st, info, g in rs if st != "proved"]
        if not failed:
            results[ob.oid] = {"status": "proved", "time": tot, "backend": "z3", "parts": len(rs)}
            continue
        sts = {st for _, st, _, _ in failed}
        worst = "error" if "error" in sts else "refuted" if "refuted" in sts else "unknown"
        model = next((info.get("model") for _, st, info, _ in failed if st == "refuted" and info.get("model")), None)
        results[ob.oid] = {
            "status": worst, "time": tot, "backend": "z3", "parts": len(rs),
            "reason": "; ".join(f"part{k}:{st}:{info.get('reason', 'sat')}" for k, st, info, _ in failed)[:400],
            "failed_part": " || ".join(z3.simplify(g).sexpr()[:400] for _, _, _, g in failed[:3])[:1500],
            "model": model,
        }
    return results


def satisfiable(pc, axioms, timeout_ms=5000):
    s = z3.Solver()
    s.set("timeout", timeout_ms)
    for a in axioms:
        s.add(a)
    for p in pc:
        s.add(p)
    r = s.check()
    return "sat" if r == z3.sat else "unsat" if r == z3.unsat else "unknown"
