"""Discharging obligations with z3.

The obligations are z3 ASTs living in this process.  They are decided by *forked* worker processes
(each inherits the z3 context copy-on-write and uses the in-process solver, which behaves better on the
quantified array formulas than a round trip through SMT-LIB text did), which gives hard wall-clock
limits (a worker that overruns is killed) and parallelism over the cores.

Rounds: (1) whole goal, short budget; (2) goal split into conjuncts / skolemised universals /
opened implications; (3) parts that still fail are split further by presenting datatype / array
equalities extensionally.  A part that fails is named in the report.
"""
from __future__ import annotations

import json
import mmap
import os
import select
import time

import z3


_DEFS: dict = {}  # name of a defined spec function -> its definitional axiom  forall xs. f(xs) == body


def _collect_defs(axioms):
    _DEFS.clear()
    for a in axioms:
        if z3.is_quantifier(a) and a.is_forall() and z3.is_eq(a.body()):
            lhs = a.body().arg(0)
            if z3.is_app(lhs) and lhs.decl().name().startswith("def:") and lhs.sort() == z3.BoolSort() \
                    and all(z3.is_var(c) for c in lhs.children()):
                # only when the arguments are exactly the bound variables in order (so substitution is direct)
                n = lhs.num_args()
                if [z3.get_var_index(c) for c in lhs.children()] == list(range(n - 1, -1, -1)):
                    _DEFS[lhs.decl().name()] = a


def split_goal(goal, depth=0, ext=False):
    """-> list of (hyps, subgoal)"""
    if depth > 16:
        return [([], goal)]
    if z3.is_and(goal):
        out = []
        for ch in goal.children():
            out.extend(split_goal(ch, depth + 1, ext))
        return out
    if z3.is_implies(goal):
        a, b = goal.children()
        return [([a] + h, g) for h, g in split_goal(b, depth + 1, ext)]
    if z3.is_or(goal):
        # a disjunction with a universally quantified / conjunctive / conditional disjunct: the other disjuncts
        # become (negated) hypotheses, so that the structured one can be opened
        ch = goal.children()
        for k, c in enumerate(ch):
            if (z3.is_quantifier(c) and c.is_forall()) or z3.is_and(c) or z3.is_implies(c):
                rest = [z3.Not(x) for j, x in enumerate(ch) if j != k]
                return [(rest + h, g) for h, g in split_goal(c, depth + 1, ext)]
    if z3.is_quantifier(goal) and goal.is_forall():
        n = goal.num_vars()
        consts = [z3.FreshConst(goal.var_sort(i), "sk_" + goal.var_name(i).replace("!", "_")) for i in range(n)]
        body = z3.substitute_vars(goal.body(), *reversed(consts))
        return split_goal(body, depth + 1, ext)
    if z3.is_app(goal) and goal.decl().kind() == z3.Z3_OP_ITE and goal.sort() == z3.BoolSort():
        c, a, b = goal.children()
        return [([c] + h, g) for h, g in split_goal(a, depth + 1, ext)] + \
               [([z3.Not(c)] + h, g) for h, g in split_goal(b, depth + 1, ext)]
    if ext and z3.is_app(goal) and goal.decl().name() in _DEFS and depth <= 13:
        # a defined predicate as a goal: unfold its definitional axiom once (equivalent) and keep splitting
        q = _DEFS[goal.decl().name()]
        lhs, rhs = q.body().children()
        if lhs.num_args() == goal.num_args():
            inst = z3.substitute_vars(rhs, *reversed(goal.children()))
            return split_goal(inst, depth + 1, ext)
    if z3.is_eq(goal):
        a, b = goal.children()
        if a.sort() == z3.BoolSort():
            return split_goal(z3.Implies(a, b), depth + 1, ext) + split_goal(z3.Implies(b, a), depth + 1, ext)
        if ext:
            e = ext_eq(a, b)
            if e is not None:
                return split_goal(e, depth + 1, ext)
    return [([], goal)]


def ext_eq(a, b, depth=0):
    """structural equality of datatype / array terms, presented extensionally (equivalent, solver friendly)"""
    s = a.sort()
    if depth > 8:
        return None
    if isinstance(s, z3.DatatypeSortRef) and s.num_constructors() == 1:
        c = s.constructor(0)
        if c.arity() == 0:
            return z3.BoolVal(True)
        parts = []
        for i in range(c.arity()):
            acc = s.accessor(0, i)
            x, y = z3.simplify(acc(a)), z3.simplify(acc(b))
            if z3.eq(x, y):
                continue
            e = ext_eq(x, y, depth + 1)
            parts.append(e if e is not None else x == y)
        return z3.And(*parts) if parts else z3.BoolVal(True)
    if isinstance(s, z3.ArraySortRef):
        i = z3.FreshConst(s.domain(), "ext")
        x, y = z3.simplify(z3.Select(a, i)), z3.simplify(z3.Select(b, i))
        e = ext_eq(x, y, depth + 1)
        return z3.ForAll([i], e if e is not None else x == y)
    return None


RLIMIT_PER_MS = 1500  # measured: z3 spends roughly 1.5M resource units per second on these queries
WALL_SLACK = 4        # the wall-clock limits are only a safety net (x4 the nominal budget)


def _check_inproc(pc, goal, axioms, timeout_ms, seed, want_model):
    """The budget is given to z3 as a deterministic resource limit (rlimit), so that a verdict does not depend on
    how busy the machine is; the wall-clock timeout is a generous safety net."""
    s = z3.Solver()
    s.set("rlimit", int(timeout_ms * RLIMIT_PER_MS))
    s.set("timeout", int(timeout_ms * WALL_SLACK))
    s.set("random_seed", seed % (2 ** 31))
    try:
        s.set("max_memory", 4000)  # MB per solver process: an `unknown` instead of the kernel's OOM killer
    except z3.Z3Exception:
        pass
    for a in axioms:
        s.add(a)
    for p in pc:
        s.add(p)
    s.add(z3.Not(goal))
    r = s.check()
    if r == z3.unsat:
        return "proved", {}
    if r == z3.sat:
        m = ""
        if want_model:
            try:
                m = str(s.model())[:6000]
            except Exception:
                m = ""
        return "refuted", {"model": m}
    return "unknown", {"reason": s.reason_unknown()}


class _Worker:
    def __init__(self, idxs, tasks, flags=None):
        self.idxs = list(idxs)
        r, w_ = os.pipe()
        self.pid = os.fork()
        if self.pid == 0:
            os.close(r)
            try:
                for i in self.idxs:
                    key, fn, limit = tasks[i][:3]
                    t0 = time.time()
                    if flags is not None and len(tasks[i]) > 3 and flags[tasks[i][3]] != 0:
                        # another part of the same obligation has already failed: this one cannot change the verdict
                        os.write(w_, (json.dumps([i, "cancelled", {"time": 0.0, "reason": "sibling part failed"}])
                                      + "\n").encode())
                        continue
                    try:
                        st, info = fn()
                    except Exception as e:  # noqa
                        st, info = "error", {"reason": f"{type(e).__name__}: {e}"[:500]}
                    info["time"] = time.time() - t0
                    os.write(w_, (json.dumps([i, st, info]) + "\n").encode())
            finally:
                os._exit(0)
        os.close(w_)
        self.fd = r
        self.buf = b""
        self.done: set[int] = set()
        self.last = time.time()
        self.alive = True

    def current(self):
        for i in self.idxs:
            if i not in self.done:
                return i
        return None


def run_forked(tasks, jobs, hard_extra_s=4.0):
    """tasks: [(key, fn, limit_s)] -> {key: (status, info)}.  A fixed number of forked workers, each taking a
    round-robin share; a worker that overruns its current task's limit is killed and its remaining tasks are
    handed to a fresh worker."""
    results: dict = {}
    if not tasks:
        return results
    n = len(tasks)
    jobs = max(1, min(jobs, n))
    # tasks may carry a group id (4th field): once one task of a group fails, the group's remaining tasks are skipped
    ngroups = 1 + max([t[3] for t in tasks if len(t) > 3], default=-1)
    flags = mmap.mmap(-1, max(1, ngroups)) if ngroups > 0 else None  # anonymous shared memory, inherited by fork

    def note(i, st):
        if flags is not None and len(tasks[i]) > 3 and st not in ("proved", "cancelled"):
            flags[tasks[i][3]] = 1

    workers = [_Worker(range(j, n, jobs), tasks, flags) for j in range(jobs)]
    while any(w.alive for w in workers):
        fds = [w.fd for w in workers if w.alive]
        rl, _, _ = select.select(fds, [], [], 0.05)
        now = time.time()
        for w in list(workers):
            if not w.alive:
                continue
            if w.fd in rl:
                chunk = os.read(w.fd, 1 << 16)
                if chunk:
                    w.buf += chunk
                    while b"\n" in w.buf:
                        line, w.buf = w.buf.split(b"\n", 1)
                        i, st, info = json.loads(line.decode())
                        results[tasks[i][0]] = (st, info)
                        note(i, st)
                        w.done.add(i)
                        w.last = now
                else:
                    os.close(w.fd)
                    try:
                        os.waitpid(w.pid, 0)
                    except ChildProcessError:
                        pass
                    w.alive = False
                    rest = [i for i in w.idxs if i not in w.done]
                    if rest:  # died unexpectedly
                        results[tasks[rest[0]][0]] = ("error", {"reason": "solver worker died", "time": now - w.last})
                        note(rest[0], "error")
                        if rest[1:]:
                            workers.append(_Worker(rest[1:], tasks, flags))
                    continue
            cur = w.current()
            if cur is not None and now - w.last > tasks[cur][2] + hard_extra_s:
                try:
                    os.kill(w.pid, 9)
                    os.waitpid(w.pid, 0)
                except OSError:
                    pass
                os.close(w.fd)
                w.alive = False
                results[tasks[cur][0]] = ("unknown", {"reason": "hard timeout (worker killed)", "time": now - w.last})
                note(cur, "unknown")
                rest = [i for i in w.idxs if i not in w.done and i != cur]
                if rest:
                    workers.append(_Worker(rest, tasks, flags))
    return results


def discharge_all(obligations, axioms, timeout_ms=10000, seed=0, jobs=8, single_attempt=()):
    """-> {oid: result dict}.  single_attempt: (kind, clause) pairs that are recorded known findings - they are
    expected to fail, so only the first (cheap) round is spent on them."""
    results = {}
    _collect_defs(axioms)
    first_ms = min(timeout_ms, 2500)
    t1 = [(ob.oid, (lambda ob=ob: _check_inproc(ob.pc, ob.goal, axioms, first_ms, seed, False)),
           WALL_SLACK * first_ms / 1000.0) for ob in obligations]
    r1 = run_forked(t1, jobs)
    for ob in obligations:
        st, info = r1.get(ob.oid, ("error", {"reason": "no result"}))
        results[ob.oid] = {"status": st, "time": info.get("time", 0.0), "backend": "z3", "parts": 1,
                           "reason": info.get("reason")}
    left = [ob for ob in obligations if results[ob.oid]["status"] != "proved"
            and (ob.kind, ob.clause) not in single_attempt
            and not z3.is_false(ob.goal)]  # `false` goals (reachability of a forbidden exit) get one attempt
    for ob in obligations:
        if (ob.kind, ob.clause) in single_attempt and results[ob.oid]["status"] != "proved":
            results[ob.oid]["failed_part"] = "(recorded known finding: one attempt only)"
    for ob in obligations:
        if z3.is_false(ob.goal) and results[ob.oid]["status"] != "proved":
            results[ob.oid]["failed_part"] = "false  (the path reaching this point is not refuted)"
    def one_round(obs, rnd, ext, mult=None, seed_delta=0):
        """-> obligations still unproved that may profit from another round"""
        tasks, meta = [], {}
        active = []
        for ob in obs:
            parts = getattr(ob, "_parts", None)
            if parts is None:
                parts = split_goal(ob.goal, ext=False)
            if ext:
                newparts = []
                changed = False
                for hyps, g in parts:
                    sub = split_goal(g, ext=True)
                    if len(sub) != 1 or not z3.eq(sub[0][1], g):
                        changed = True
                    newparts.extend((hyps + h2, g2) for h2, g2 in sub)
                if not changed and results[ob.oid]["status"] != "unknown":
                    continue  # nothing new to try: keep the round-2 verdict
                parts = newparts  # (unchanged parts that merely timed out get a second, longer try)
            active.append(ob)
            for k, (hyps, g) in enumerate(parts):
                key = f"{ob.oid}#{rnd}.{k}"
                meta[key] = (ob, k, hyps, g)
                tmo = timeout_ms * (mult if mult is not None else (2 if ext else 1))
                tasks.append((key, (lambda ob=ob, hyps=hyps, g=g, tmo=tmo: _check_inproc(list(ob.pc) + hyps, g, axioms,
                                                                                         tmo, seed + seed_delta, True)),
                              WALL_SLACK * tmo / 1000.0, len(active) - 1))
        r = run_forked(tasks, max(2, jobs // 2) if ext else jobs)
        per_ob = {}
        for key, (st, info) in r.items():
            ob, k, hyps, g = meta[key]
            per_ob.setdefault(ob.oid, []).append((k, st, info, hyps, g))
        still = []
        for ob in active:
            rs = sorted(per_ob.get(ob.oid, []), key=lambda x: x[0])
            tot = results[ob.oid]["time"] + sum(i.get("time", 0.0) for _, _, i, _, _ in rs)
            failed = [(k, st, info, hyps, g) for k, st, info, hyps, g in rs if st != "proved"]
            if not failed:
                results[ob.oid] = {"status": "proved", "time": tot, "backend": "z3", "parts": len(rs)}
                continue
            sts = {st for _, st, _, _, _ in failed}
            worst = "error" if "error" in sts else "refuted" if "refuted" in sts else "unknown"
            # parts skipped because a sibling had failed are retried in the next round together with the failed ones
            reported = [x for x in failed if x[1] != "cancelled"] or failed
            model = next((info.get("model") for _, st, info, _, _ in failed
                          if st == "refuted" and info.get("model")), None)
            results[ob.oid] = {
                "status": worst, "time": tot, "backend": "z3", "parts": len(rs),
                "reason": "; ".join(f"part{k}:{st}:{info.get('reason', 'sat')}" for k, st, info, _, _ in reported)[:400],
                "failed_part": " || ".join(z3.simplify(g).sexpr()[:400] for _, _, _, _, g in reported[:3])[:1500],
                "model": model,
            }
            # next round works only on the parts that failed, and only if splitting them changes anything
            ob._parts = [(hyps, g) for _, _, _, hyps, g in failed]
            # a part that hit the WALL-clock safety net (4x its nominal budget, the resource limit still unspent) in
            # the extended round is not given the retry round: that query does not consume z3's resource units, so
            # the deterministic budget cannot bound it and another, longer try would cost many minutes for nothing
            wall_hit = ext and any(
                (info.get("reason") or "") in ("timeout", "canceled") or "hard timeout" in (info.get("reason") or "")
                for _, st, info, _, _ in failed if st == "unknown")
            # (a worker that had to be killed - z3 did not even honour its own wall-clock timeout - ends the
            # escalation in any round)
            wall_hit = wall_hit or any("hard timeout" in (info.get("reason") or "") for _, _, info, _, _ in failed)
            if worst != "error" and (not ext or rnd == 3) and not wall_hit:
                still.append(ob)
        return still

    # The split rounds run chunk by chunk.  When every obligation of a chunk is still unproved after both rounds the
    # function is failing en masse (a broken body, not one hard proof): the remaining obligations keep their
    # first-round verdict - the function is reported as failed either way, only much sooner.
    # (the obligations not attempted any further are reported as `skipped` = undecided, never as failed: a check whose
    # own clauses are all among them says "undecided", it does not raise an alarm)
    CHUNK, GIVE_UP = 8, 4
    n_bad = 0
    for i in range(0, len(left), CHUNK):
        chunk = left[i:i + CHUNK]
        still = one_round(chunk, 2, False)
        if still:
            still = one_round(still, 3, True)
        if still:
            # the search of the solver is sensitive to incidental names: parts that ran out of budget get one more
            # try with another seed and twice the budget before the obligation counts as not discharged
            retry = [ob for ob in still if results[ob.oid]["status"] == "unknown"]
            if retry:
                one_round(retry, 4, True, mult=4, seed_delta=7919)
        n_bad += len([ob for ob in chunk if results[ob.oid]["status"] != "proved"])
        if n_bad >= GIVE_UP:
            for ob in left[i + CHUNK:]:
                results[ob.oid]["status"] = "skipped"
                results[ob.oid]["reason"] = ("not attempted beyond the first round: %d other obligations of this "
                                             "function had already failed all rounds" % n_bad)
            break
    return results


def satisfiable(pc, axioms, timeout_ms=3000):
    """vacuity check (is the precondition satisfiable?) in a forked child: hard limit, no memory retained here"""
    def fn():
        s = z3.Solver()
        s.set("timeout", timeout_ms)
        for a in axioms:
            s.add(a)
        for p in pc:
            s.add(p)
        r = s.check()
        return ("sat" if r == z3.sat else "unsat" if r == z3.unsat else "unknown"), {}

    res = run_forked([("sat", fn, timeout_ms / 1000.0)], 1, hard_extra_s=1.0)
    return res.get("sat", ("unknown", {}))[0]
