"""Native side: run the REAL functions of /repo under CPython against the same contracts.

Used for (a) confirming / finding failing inputs for obligations the solver did not discharge,
(b) the every-run cross-check "contract clauses hold natively on random valid inputs" which guards
against an unsound symbolic encoding, (c) replay files.
"""
from __future__ import annotations

import copy
import importlib
import inspect
import os
import random
import sys
import traceback
from types import SimpleNamespace

VERIF = os.path.dirname(os.path.dirname(os.path.abspath(__file__)))
REPO = os.environ.get("VERIF_REPO", "/repo")

SRC_DIRS = [
    "packages/llama-index-workflows/src",
    "packages/llama-agents-core/src",
    "packages/llama-agents-client/src",
    "src",
]


def setup_paths(repo: str | None = None):
    repo = repo or REPO
    want = [os.path.join(VERIF, "replay_support")] + [os.path.join(repo, d) for d in SRC_DIRS] + [
        VERIF, os.path.join(VERIF, "lemmas", "py")]
    for p in reversed(want):
        if p not in sys.path:
            sys.path.insert(0, p)
    _shim_llama_agents(repo)


def _shim_llama_agents(repo):
    """llama_agents is a namespace spread over several packages; server/__init__ imports starlette (absent).
    Register bare package objects so that sub-modules can be imported individually."""
    import types
    if "llama_agents" not in sys.modules:
        pkg = types.ModuleType("llama_agents")
        pkg.__path__ = [os.path.join(repo, d, "llama_agents") for d in (
            "packages/llama-agents-server/src", "packages/llama-agents-core/src", "packages/llama-agents-client/src",
            "packages/llama-agents-control-plane/src", "packages/llama-agents-dbos/src", "packages/llamactl/src",
            "packages/llama-agents-agentcore/src") if os.path.isdir(os.path.join(repo, d, "llama_agents"))]
        sys.modules["llama_agents"] = pkg
    for sub, d in (("server", "packages/llama-agents-server/src"),):
        name = f"llama_agents.{sub}"
        if name not in sys.modules:
            m = types.ModuleType(name)
            m.__path__ = [os.path.join(repo, d, "llama_agents", sub)]
            sys.modules[name] = m


def resolve(fq: str):
    parts = fq.split(".")
    for cut in range(len(parts) - 1, 0, -1):
        try:
            mod = importlib.import_module(".".join(parts[:cut]))
        except ImportError:
            continue
        obj = mod
        try:
            for p in parts[cut:]:
                obj = getattr(obj, p)
            if isinstance(obj, property):
                return obj.fget  # a contract on a @property is a contract on its getter
            return obj
        except AttributeError:
            continue
    raise ImportError(fq)


PLAIN_SNAPSHOT = {"MemoryWorkflowStore", "_ControlLoopRunner", "FakeAdapter", "JournalAdapter", "_ServerInternalRunAdapter",
                  "ServerRuntimeDecorator", "IdleReleaseDecorator", "ResourceManager"}


def safe_deepcopy(x, _depth=0):
    """Structural snapshot: containers and dataclass instances are copied, leaves (events, exceptions, user
    objects, classes) are kept by reference so that identity-based equality still works on them."""
    import dataclasses
    if _depth > 12:
        return x
    if isinstance(x, list):
        return [safe_deepcopy(e, _depth + 1) for e in x]
    if isinstance(x, tuple):
        return tuple(safe_deepcopy(e, _depth + 1) for e in x)
    if isinstance(x, dict):
        return {k: safe_deepcopy(v, _depth + 1) for k, v in x.items()}
    if isinstance(x, set):
        return set(x)
    import collections
    if isinstance(x, collections.deque):
        return collections.deque(safe_deepcopy(e, _depth + 1) for e in x)
    if type(x).__name__ in PLAIN_SNAPSHOT:
        # plain (non-dataclass) repository objects whose fields a contract's `old` must see as they were
        y = copy.copy(x)
        for k, v in vars(x).items():
            try:
                setattr(y, k, safe_deepcopy(v, _depth + 1))
            except Exception:
                pass
        return y
    if dataclasses.is_dataclass(x) and not isinstance(x, type):
        y = copy.copy(x)
        for f in dataclasses.fields(x):
            object.__setattr__(y, f.name, safe_deepcopy(getattr(x, f.name), _depth + 1))
        return y
    return x


def _patch_logged(contract_cls):
    """LOGGED_FUNCTIONS of the contract's spec file: the real module-level function is wrapped, for one evaluation,
    by a recorder of (args, kwargs, deep copy of the result); callers must look the name up at call time (module
    attribute or function-local import), which is what the symbolic side's static resolution assumes too."""
    import sys as _sys
    from . import dsl as _dsl
    _dsl._FLOG.clear()
    del _dsl._TLOG[:]
    undo = []
    for fq in getattr(_sys.modules.get(contract_cls.__module__), "LOGGED_FUNCTIONS", []):
        parts = fq.split(".")
        owner = None
        for cut in range(len(parts) - 1, 0, -1):
            try:
                owner = importlib.import_module(".".join(parts[:cut]))
            except ImportError:
                continue
            try:
                for p_ in parts[cut:-1]:
                    owner = getattr(owner, p_)
                break
            except AttributeError:
                owner = None
        if owner is None:
            raise ImportError(fq)
        short = parts[-1]
        orig = getattr(owner, short)

        if inspect.iscoroutinefunction(orig):
            async def wrapper(*a, __orig=orig, __short=short, **kw):
                rec_args = tuple(safe_deepcopy(x) for x in a)
                r = await __orig(*a, **kw)
                _dsl._FLOG.setdefault(__short, []).append((rec_args, dict(kw), r))
                return r
        else:
            def wrapper(*a, __orig=orig, __short=short, **kw):
                rec_args = tuple(safe_deepcopy(x) for x in a)
                r = __orig(*a, **kw)
                _dsl._FLOG.setdefault(__short, []).append((rec_args, dict(kw), r))
                return r

        setattr(owner, short, wrapper)
        undo.append((owner, short, orig))
    return undo


def check_once(contract_cls, fn, args: dict, clauses=None):
    """-> (status, failures)  status: ok | skipped | fail ; failures: [(clause, detail)]"""
    try:
        base = None
        if getattr(contract_cls, "inherits", None):
            # a variant contract: the inherited precondition and its own addition both have to hold
            import sys as _sys
            base = getattr(_sys.modules[contract_cls.__module__], contract_cls.inherits, None)
        for holder, nm in ((base, "requires"), (contract_cls, "requires"), (contract_cls, "requires_extra")):
            if holder is not None and hasattr(holder, nm) and not getattr(holder, nm)(**args):
                return "skipped", []
    except Exception as e:
        return "skipped", [("requires-raised", repr(e))]
    # assumed lemma instances (assume_*) are part of the hypotheses: inputs outside them are not counterexamples
    for name in dir(contract_cls):
        if name.startswith("assume_"):
            try:
                if not getattr(contract_cls, name)(**args):
                    return "skipped", []
            except Exception as e:
                from .dsl import NotNative
                if isinstance(e, NotNative):
                    continue
                return "skipped", [("requires-raised", repr(e))]
    old = SimpleNamespace(**{k: safe_deepcopy(v) for k, v in args.items()})
    failures = []
    raised = None
    result = None
    undo = _patch_logged(contract_cls)
    try:
        result = fn(**args)
        if inspect.iscoroutine(result):
            # an async function of the repository: run it to completion on a private event loop
            import asyncio
            result = asyncio.run(result)
    except Exception as e:  # noqa
        raised = e
    finally:
        for mod_, name_, orig_ in undo:
            setattr(mod_, name_, orig_)
    allowed = getattr(contract_cls, "raises", None)
    if allowed is None and getattr(contract_cls, "inherits", None):
        import sys as _sys
        allowed = getattr(getattr(_sys.modules[contract_cls.__module__], contract_cls.inherits, None), "raises", [])
    allowed = allowed or []
    if raised is not None:
        names = [c.__name__ for c in type(raised).__mro__]
        allowed_names = list(allowed) if not isinstance(allowed, dict) else list(allowed.keys())
        # "*user": exceptions raised by caller-supplied code (a callable argument, a user policy) pass through; the
        # native side cannot tell where an exception came from, so any exception is accepted for such contracts (the
        # symbolic side is precise about it)
        ok = any(n in allowed_names for n in names) or "*user" in allowed_names
        for n in names:
            cond = getattr(contract_cls, f"raises_{n}", None)
            if cond is not None:
                ok = bool(cond(old=old, **{k: getattr(old, k) for k in args}))
                break
        if not ok:
            failures.append(("raises", f"unexpected {type(raised).__name__}: {raised}"))
        # postconditions of this exceptional exit: raised_<Exc>(old, <params>, exc)
        for name in dir(contract_cls):
            if name.startswith("raised_") and (name.split("_")[1] in names or name.split("_")[1] == "any"):
                if clauses is not None and name not in clauses:
                    continue
                try:
                    kw_ = dict(args)
                    if "exc" in inspect.signature(getattr(contract_cls, name)).parameters:
                        kw_["exc"] = raised
                    if not getattr(contract_cls, name)(old=old, **kw_):
                        failures.append((name, "clause is False"))
                except Exception as e:
                    from .dsl import NotNative
                    if not isinstance(e, NotNative):
                        failures.append((name, f"clause raised {type(e).__name__}: {e}"))
        return ("fail" if failures else "ok"), failures
    for name in dir(contract_cls):
        if not name.startswith(("ensures", "native_")):
            continue  # native_*: clauses outside the symbolic encoding's reach (object identity), checked here only
        if clauses is not None and name not in clauses:
            continue
        try:
            ok = getattr(contract_cls, name)(old=old, result=result, **args)
        except Exception as e:
            from .dsl import NotNative
            if isinstance(e, NotNative):
                continue
            failures.append((name, f"clause raised {type(e).__name__}: {e}\n{traceback.format_exc()[-600:]}"))
            continue
        if not ok:
            failures.append((name, "clause is False"))
    return ("fail" if failures else "ok"), failures


def search(spec_module: str, contract_name: str, n: int, seed: int, clauses=None, stop_at: int = 3):
    """Random search for an input on which the real function violates its contract."""
    setup_paths()
    spec = importlib.import_module(f"specs.{spec_module}")
    cc = getattr(spec, contract_name)
    fn = resolve(cc.__target__)
    gens = importlib.import_module(f"natives.{spec_module}_gen")
    gen = getattr(gens, f"gen_{contract_name}")
    out = {"evaluations": 0, "skipped": 0, "failures": [], "distinct": 0,
           "native_only_clauses": [n_ for n_ in dir(cc) if n_.startswith("native_")]}
    seen = set()
    for i in range(n):
        rng = random.Random(f"{seed}:{contract_name}:{i}")
        try:
            args = gen(rng)
        except Exception as e:
            out.setdefault("gen_errors", []).append(repr(e))
            continue
        key = repr(args)[:2000]
        st, fails = check_once(cc, fn, args, clauses)
        if st == "skipped":
            out["skipped"] += 1
            continue
        out["evaluations"] += 1
        if key not in seen:
            seen.add(key)
            out["distinct"] += 1
        if st == "fail":
            out["failures"].append({"index": i, "clauses": fails, "input": key[:1500]})
            if len(out["failures"]) >= stop_at:
                break
    return out


REPLAY_TEMPLATE = '''#!/usr/bin/env python3
"""Replay of a contract violation found by /verif (generated file).

property   : {prop}
obligation : {obligation}
function   : {target}
clause(s)  : {clauses}

Re-generates the failing input deterministically (seed/index below), calls the REAL function from
/repo and evaluates the contract clause natively.  Exit 1 = violation reproduces, 0 = it does not.
"""
import os, sys
sys.path.insert(0, {verif!r})
os.environ.setdefault("VERIF_REPO", {repo!r})
from pyvc import native
import importlib, random
native.setup_paths()
spec = importlib.import_module("specs.{spec_module}")
cc = getattr(spec, {contract_name!r})
fn = native.resolve(cc.__target__)
gens = importlib.import_module("natives.{spec_module}_gen")
rng = random.Random({rngkey!r})
args = getattr(gens, "gen_{contract_name}")(rng)
print("input:", repr(args)[:3000])
st, fails = native.check_once(cc, fn, args, {clauses!r})
print("status:", st)
for c, d in fails:
    print("VIOLATED", c, "-", d)
sys.exit(1 if st == "fail" else 0)
'''


def write_replay(path, prop, obligation, target, spec_module, contract_name, seed, index, clauses):
    os.makedirs(os.path.dirname(path), exist_ok=True)
    with open(path, "w") as f:
        f.write(REPLAY_TEMPLATE.format(prop=prop, obligation=obligation, target=target, spec_module=spec_module,
                                       contract_name=contract_name, rngkey=f"{seed}:{contract_name}:{index}",
                                       clauses=clauses, verif=VERIF, repo=REPO))
    os.chmod(path, 0o755)
