"""Calls: builtins, library methods, constructors, contracts, inlining (mixin of Engine)."""
from __future__ import annotations

import ast
import itertools

import z3

from . import ty as T
from .sorts import Unsupported
from .values import (
    SV, BoundMethod, ClassRef, Closure, DictView, EnumerateV, FuncRef, LazySeq, ModuleRef, Namespace,
    PathEnd, PyTuple, RaiseSignal, RangeV, Ref, ReturnSignal,
)

from .spec import SpecFn

_cc = itertools.count(1)

NOOP_MODULE_CALLS = ("logger.", "logging.", "warnings.warn")


class CallMixin:
    # ---------------------------------------------------------------- entry
    def ev_Call(self, node):
        line = node.lineno
        fn_src = ast.unparse(node.func)
        if fn_src.startswith(NOOP_MODULE_CALLS) or fn_src.startswith("self.logger."):
            return SV(None, T.NONE)
        if isinstance(node.func, ast.Attribute) and isinstance(node.func.value, ast.Call) \
                and isinstance(node.func.value.func, ast.Name) and node.func.value.func.id == "super" \
                and not node.func.value.args:
            # super().m(...): the next definition of m in the MRO of the class the current method belongs to
            fr0 = next((f_ for f_ in reversed(self.frames) if "." in (f_.fn_name or "")), None)
            if fr0 is None:
                raise Unsupported(f"super() outside a method (line {line})")
            cname = fr0.fn_name.split(".")[0].split("#")[0]
            ci = self.w.repo.find_class(cname, fr0.module)
            if ci is None:
                raise Unsupported(f"super(): class {cname} not found (line {line})")
            for cn in self.w.repo.mro_names(ci)[1:]:
                c2 = self.w.repo.find_class(cn, ci.module)
                if c2 is not None and node.func.attr in c2.methods:
                    args, kwargs = self.eval_args(node)
                    return self.call_function(f"{c2.module}.{c2.name}.{node.func.attr}", args, kwargs, node,
                                              self_val=self.lookup("self", line))
            raise Unsupported(f"super().{node.func.attr}: no base class of {cname} defines it (line {line})")
        if isinstance(node.func, ast.Attribute) and node.func.attr == "join" \
                and isinstance(node.func.value, ast.Constant) and isinstance(node.func.value.value, str):
            a0 = node.args[0] if len(node.args) == 1 else None
            if isinstance(a0, ast.BinOp) and isinstance(a0.op, ast.Mult) and isinstance(a0.left, ast.List) \
                    and len(a0.left.elts) == 1 and isinstance(a0.left.elts[0], ast.Constant) \
                    and isinstance(a0.left.elts[0].value, str):
                # "sep".join(["c"] * n): n copies of a constant, joined - a function of n (e.g. SQL placeholders)
                n_ = self.coerce(self.evv(a0.right), T.INT, line)
                f_ = self.w.func(f"join_repeat<{node.func.value.value!r},{a0.left.elts[0].value!r}>", z3.IntSort(),
                                 self.w.StrSort)
                return SV(f_(n_.term), T.STR)
            # "sep".join(<iterable>): message text; its content is opaque and the argument is not evaluated
            # (assumed: a pure iterable of strings - anything else would be a TypeError in CPython)
            return SV(self.w.fresh(T.STR, "joined"), T.STR)
        fn = self.ev(node.func)
        if isinstance(fn, FuncRef) and fn.fq.startswith("builtin."):
            return self.call_builtin(fn.fq[8:], node)
        if isinstance(fn, FuncRef) and fn.fq.startswith("dsl."):
            return self.call_dsl(fn.fq[4:], node)
        args, kwargs = self.eval_args(node)
        if isinstance(fn, SpecFn):
            return self.call_specfn(fn, args, kwargs, line)
        if isinstance(fn, FuncRef):
            return self.call_function(fn.fq, args, kwargs, node)
        if isinstance(fn, ClassRef):
            return self.construct(fn, args, kwargs, node)
        if isinstance(fn, Closure):
            return self.call_closure(fn, args, kwargs, line)
        if isinstance(fn, BoundMethod):
            return self.call_method(fn, args, kwargs, node)
        if isinstance(fn, ModuleRef):
            return self.call_module_fn(fn.name, args, kwargs, node)
        if isinstance(fn, SV) and fn.ty.kind == "opt":
            fn = self.coerce(fn, fn.ty.args[0], line)  # TypeError: 'NoneType' object is not callable
        if isinstance(fn, SV) and fn.ty.kind == "opaque":
            return self.call_opaque(fn, "__call__", args, kwargs, node)
        if isinstance(fn, SV) and fn.ty.kind == "obj":
            return self.call_method(BoundMethod(fn, "__call__"), args, kwargs, node)
        raise Unsupported(f"call of {type(fn).__name__} (line {line})")

    def eval_args(self, node):
        args = []
        for a in node.args:
            if isinstance(a, ast.Starred):
                v = self.ev(a.value)
                if isinstance(v, PyTuple):
                    args.extend(v.items)
                else:
                    args.append(("*", v))
            else:
                args.append(self.ev(a))
        kwargs = {}
        for kw in node.keywords:
            if kw.arg is None:
                v = self.ev(kw.value)
                kwargs[f"**{len(kwargs)}"] = v
            else:
                kwargs[kw.arg] = self.ev(kw.value)
        return args, kwargs

    # ------------------------------------------------------------- builtins
    def call_builtin(self, name: str, node):
        line = node.lineno
        m = getattr(self, "bi_" + name, None)
        if m is None:
            raise Unsupported(f"builtin {name} (line {line})")
        return m(node)

    def _arg(self, node, i):
        v = self.ev(node.args[i])
        return v

    def bi_len(self, node):
        v = self._arg(node, 0)
        if isinstance(v, LazySeq):
            return SV(self.lazy_len(v), T.INT)
        if isinstance(v, PyTuple):
            return SV(z3.IntVal(len(v.items)), T.INT)
        if isinstance(v, DictView):
            v = v.d
        if not isinstance(v, SV):
            raise Unsupported("len() of a non-value")
        if v.ty.kind == "opt":
            v = self.coerce(v, v.ty.args[0], node.lineno)
        if v.ty.kind == "list":
            return SV(self.list_len(v), T.INT)
        if v.ty.kind == "dict":
            if v.term is None:
                return SV(z3.IntVal(0), T.INT)
            size, _, _ = self.dict_order(v)
            return SV(size, T.INT)
        if v.ty.kind == "str":
            f = self.w.func("strlen", self.w.StrSort, z3.IntSort())
            r = f(v.term)
            self.side_fact(r >= 0)
            self.side_fact((r == 0) == (v.term == self.w.strlit("")))
            return SV(r, T.INT)
        if v.ty.kind == "set":
            f = self.w.func(f"card<{self.w.sort(v.ty)}>", self.w.sort(v.ty), z3.IntSort())
            r = f(v.term)
            self.side_fact(r >= 0)
            return SV(r, T.INT)
        if v.ty.kind == "opaque":
            f = self.w.func(f"len<{v.ty.name}>", self.w.sort(v.ty), z3.IntSort())
            r = f(v.term)
            self.side_fact(r >= 0)
            return SV(r, T.INT)
        raise Unsupported(f"len of {v.ty}")

    def bi_bool(self, node):
        if not node.args:
            return SV(z3.BoolVal(False), T.BOOL)
        return SV(self.truthy(self._arg(node, 0)), T.BOOL)

    def class_test(self, v, cls, line, exact=False):
        """isinstance(v, cls) as a z3 Bool"""
        if isinstance(cls, PyTuple):
            return z3.Or(*[self.class_test(v, c, line, exact) for c in cls.items])
        if isinstance(cls, SV) and cls.ty == T.TYPE:
            vt = self.type_of(v, line)
            return vt == cls.term if exact else self.w.subclass_fn()(vt, cls.term)
        if isinstance(cls, LazySeq):
            cls = self.materialize(cls)
        if isinstance(cls, ModuleRef):
            cls = ClassRef(cls.name.split(".")[-1])  # a library class, e.g. datetime.timedelta
        if isinstance(cls, SV) and cls.ty.kind == "list" and cls.ty.args[0] == T.TYPE:
            # isinstance(v, tuple(list_of_classes)): some listed class is a base of type(v)
            if cls.term is None:
                return z3.BoolVal(False)
            vt = self.type_of(v, line)
            i = z3.Const(f"ci${len(self.binders)}", z3.IntSort())
            ti = self.list_get(cls, i)
            body = z3.And(0 <= i, i < self.list_len(cls), (vt == ti) if exact else self.w.subclass_fn()(vt, ti))
            return self._q("exists", i, body)
        if isinstance(cls, SV) and cls.ty.kind in ("list", "tuple"):
            raise Unsupported("isinstance with a symbolic class tuple")
        if isinstance(cls, FuncRef) and cls.fq == "builtin.type":
            # isinstance(v, type): is the value a class?  decided by the static type, an uninterpreted predicate on
            # dynamically typed (Any) values
            if not isinstance(v, SV):
                raise Unsupported("isinstance of non-value")
            if v.ty == T.TYPE:
                return z3.BoolVal(True)
            if v.ty == T.ANY:
                return self.w.func("any_is_class", self.w.sort(T.ANY), z3.BoolSort())(v.term)
            if v.ty.kind in ("int", "bool", "real", "str", "list", "dict", "set", "none", "obj", "enum", "tuple"):
                return z3.BoolVal(False)
            raise Unsupported(f"isinstance({v.ty}, type) (line {line})")
        if isinstance(cls, FuncRef) and cls.fq in ("builtin.int", "builtin.float", "builtin.str", "builtin.bool",
                                                   "builtin.list", "builtin.dict", "builtin.set"):
            # builtin classes: decided by the static type the value has in the encoding (bool is an int in python)
            if not isinstance(v, SV):
                raise Unsupported("isinstance of non-value")
            want = cls.fq[8:]
            t = v.ty
            if t.kind == "opt":
                s = self.w.sort(t)
                inner = SV(s.accessor(1, 0)(v.term), t.args[0])
                return z3.And(s.recognizer(1)(v.term), self.class_test(inner, cls, line, exact))
            kinds = {"int": ("int", "bool"), "float": ("real",), "str": ("str",), "bool": ("bool",),
                     "list": ("list",), "dict": ("dict",), "set": ("set",)}[want]
            if t.kind in ("int", "bool", "real", "str", "list", "dict", "set", "none", "obj", "enum", "tuple"):
                return z3.BoolVal(t.kind in kinds)
            raise Unsupported(f"isinstance({t}, {want}) (line {line})")
        if not isinstance(cls, ClassRef):
            raise Unsupported(f"isinstance with {type(cls).__name__} (line {line})")
        if not isinstance(v, SV):
            raise Unsupported("isinstance of non-value")
        t = v.ty
        if t.kind == "opt":
            s = self.w.sort(t)
            inner = SV(s.accessor(1, 0)(v.term), t.args[0])
            return z3.And(s.recognizer(1)(v.term), self.class_test(inner, cls, line, exact))
        if t.kind == "union":
            s = self.w.sort(t)
            alts = [i for i, a in enumerate(t.args) if self._obj_is(a, cls.name)]
            return z3.Or(*[s.recognizer(i)(v.term) for i in alts]) if alts else z3.BoolVal(False)
        if t.kind == "obj":
            return z3.BoolVal(self._obj_is(t.name, cls.name))
        if t.kind == "opaque":
            if t == T.ANY:
                f = self.w.func("any_type_of", self.w.sort(T.ANY), self.w.sort(T.TYPE))
                vt = f(v.term)
            else:
                vt = self.type_of(v, line)
            tc = self.w.type_const(cls.name)
            return vt == tc if exact else self.w.subclass_fn()(vt, tc)
        prim = {"int": ("int",), "real": ("float",), "bool": ("bool", "int"), "str": ("str",), "none": ()}
        if t.kind in prim:
            return z3.BoolVal(cls.name in prim[t.kind])
        if t.kind in ("list", "dict", "set", "tuple"):
            return z3.BoolVal(cls.name == t.kind)
        raise Unsupported(f"isinstance on {t} (line {line})")

    def _obj_is(self, objname: str, clsname: str) -> bool:
        if objname == clsname:
            return True
        ci = self.w.repo.find_class(objname)
        return ci is not None and clsname in self.w.repo.mro_names(ci)

    def type_of(self, v, line):
        if isinstance(v, ClassRef):
            raise Unsupported("type(type)")
        if not isinstance(v, SV):
            raise Unsupported("type() of non-value")
        if v.ty.kind == "opaque":
            f = self.w.func(f"type_of<{v.ty.name}>", self.w.sort(v.ty), self.w.sort(T.TYPE))
            return f(v.term)
        if v.ty.kind == "opt":
            s = self.w.sort(v.ty)
            inner = SV(s.accessor(1, 0)(v.term), v.ty.args[0])
            return z3.If(s.recognizer(0)(v.term), self.w.type_const("NoneType"), self.type_of(inner, line))
        if v.ty.kind == "obj":
            return self.w.type_const(v.ty.name)
        if v.ty.kind == "union":
            s = self.w.sort(v.ty)
            out = None
            for i, a in reversed(list(enumerate(v.ty.args))):
                tc = self.w.type_const(a)
                out = tc if out is None else z3.If(s.recognizer(i)(v.term), tc, out)
            return out
        prim = {"int": "int", "real": "float", "bool": "bool", "str": "str", "none": "NoneType", "list": "list",
                "dict": "dict"}
        if v.ty.kind in prim:
            return self.w.type_const(prim[v.ty.kind])
        raise Unsupported(f"type() of {v.ty} (line {line})")

    def bi_isinstance(self, node):
        v = self.ev(node.args[0])
        if isinstance(v, LazySeq):
            v = self.materialize(v)
        cls = self.ev(node.args[1])
        return SV(self.class_test(v, cls, node.lineno), T.BOOL)

    def bi_issubclass(self, node):
        a = self.ev(node.args[0])
        b = self.ev(node.args[1])
        at = self.w.type_const(a.name) if isinstance(a, ClassRef) else a.term
        if isinstance(b, PyTuple):
            return SV(z3.Or(*[self.w.subclass_fn()(at, self.w.type_const(x.name) if isinstance(x, ClassRef) else x.term)
                              for x in b.items]), T.BOOL)
        bt = self.w.type_const(b.name) if isinstance(b, ClassRef) else b.term
        return SV(self.w.subclass_fn()(at, bt), T.BOOL)

    def bi_type(self, node):
        v = self.ev(node.args[0])
        return SV(self.type_of(v, node.lineno), T.TYPE)

    def bi_str(self, node):
        if not node.args:
            return SV(self.w.strlit(""), T.STR)
        v = self.evv(node.args[0])
        if v.ty.kind == "str":
            return v
        f = self.w.func(f"str<{self.w.sort(v.ty)}>", self.w.sort(v.ty), self.w.StrSort)
        return SV(f(v.term), T.STR)

    bi_repr = bi_str

    def bi_int(self, node):
        v = self.evv(node.args[0])
        if v.ty.kind == "int":
            return v
        if v.ty.kind == "bool":
            return self.coerce(v, T.INT)
        if v.ty.kind == "real":
            # int() truncates toward zero
            t = v.term
            return SV(z3.If(t >= 0, z3.ToInt(t), -z3.ToInt(-t)), T.INT)
        base = [self.evv(a).term for a in node.args[1:]]
        f = self.w.func(f"int<{self.w.sort(v.ty)},{len(base)}>", self.w.sort(v.ty), *[b.sort() for b in base], z3.IntSort())
        return SV(f(v.term, *base), T.INT)

    def bi_float(self, node):
        v = self.evv(node.args[0])
        if v.ty.kind in ("int", "bool", "real"):
            return self.coerce(v, T.REAL)
        if v.ty.kind == "str":
            f = self.w.func("float<str>", self.w.StrSort, z3.RealSort())
            return SV(f(v.term), T.REAL)
        if v.ty.kind == "opaque":
            f = self.w.func(f"float<{v.ty.name}>", self.w.sort(v.ty), z3.RealSort())
            return SV(f(v.term), T.REAL)
        raise Unsupported(f"float() of {v.ty}")

    def bi_abs(self, node):
        v = self.evv(node.args[0])
        return SV(z3.If(v.term >= 0, v.term, -v.term), v.ty)

    def bi_round(self, node):
        v = self.evv(node.args[0])
        f = self.w.func("round", z3.RealSort(), z3.IntSort())
        return SV(f(self.coerce(v, T.REAL).term), T.INT)

    def bi_set(self, node):
        if not node.args:
            return SV(None, T.Set(T.UNKNOWN), fresh=True)
        v = self.ev(node.args[0])
        if isinstance(v, LazySeq):
            v2 = LazySeq(v.source, v.target, v.conds, v.elt, v.env, "set", v.module)
            return self.materialize(v2)
        if isinstance(v, SV) and v.ty.kind == "list":
            if v.term is None:
                return SV(None, T.Set(T.UNKNOWN), fresh=True)
            i = z3.Const(f"si${len(self.binders)}", z3.IntSort())
            x = z3.Const(f"sx${len(self.binders)}", self.w.sort(v.ty.args[0]))
            n = self.list_len(v)
            return SV(z3.Lambda([x], z3.Exists([i], z3.And(0 <= i, i < n, self.list_get(v, i) == x))),
                      T.Set(v.ty.args[0]), fresh=True)
        if isinstance(v, SV) and v.ty.kind == "set":
            return SV(v.term, v.ty, fresh=True)
        if isinstance(v, (SV, DictView)) and (isinstance(v, DictView) or v.ty.kind == "dict"):
            d = v.d if isinstance(v, DictView) else v
            _, has, _ = self.dct(d)
            return SV(has(d.term), T.Set(d.ty.args[0]), fresh=True)
        raise Unsupported(f"set() of {type(v).__name__} (line {node.lineno})")

    bi_frozenset = bi_set

    def bi_dict(self, node):
        if not node.args and not node.keywords:
            return SV(None, T.Dict(T.UNKNOWN, T.UNKNOWN), fresh=True)
        if node.args:
            v = self.ev(node.args[0])
            if isinstance(v, LazySeq):
                raise Unsupported("dict(generator)")
            if isinstance(v, SV) and v.ty.kind == "opt":
                v = self.coerce(v, v.ty.args[0], node.lineno)
            if isinstance(v, SV) and v.ty.kind == "dict":
                return SV(v.term, v.ty, fresh=True)  # shallow copy == same value
            raise Unsupported(f"dict() of {v.ty if isinstance(v, SV) else type(v).__name__} (line {node.lineno})")
        raise Unsupported("dict(**kwargs)")

    def bi_list(self, node):
        if not node.args:
            return SV(None, T.List(T.UNKNOWN), fresh=True)
        v = self.ev(node.args[0])
        if isinstance(v, LazySeq):
            return self.materialize(v)
        if isinstance(v, PyTuple):
            return self.coerce(v, T.List(self._join_all([x.ty for x in v.items])))
        if isinstance(v, SV) and v.ty.kind == "opt" and v.ty.args[0].kind in ("list", "dict", "set"):
            v = self.coerce(v, v.ty.args[0], node.lineno)  # list(None) is a TypeError: obliges `is not None`
        if isinstance(v, SV) and v.ty.kind == "list":
            return SV(v.term, v.ty, fresh=True)
        if isinstance(v, DictView) or (isinstance(v, SV) and v.ty.kind == "dict"):
            dv = v if isinstance(v, DictView) else DictView("keys", v)
            lz = LazySeq(dv, ast.Name("_x", ast.Store()), [], ast.Name("_x", ast.Load()), dict(self.st.env), "list")
            return self.materialize(lz)
        raise Unsupported(f"list() of {v.ty if isinstance(v, SV) else type(v).__name__} (line {node.lineno})")

    def bi_tuple(self, node):
        return self.bi_list(node)

    def bi_range(self, node):
        a = [self.coerce(self.evv(x), T.INT).term for x in node.args]
        if len(a) == 1:
            return RangeV(z3.IntVal(0), a[0])
        if len(a) == 2:
            return RangeV(a[0], a[1])
        raise Unsupported("range with step")

    def bi_enumerate(self, node):
        return EnumerateV(self.iter_source(node.args[0]))

    def bi_iter(self, node):
        return self.ev(node.args[0])

    def bi_sorted(self, node):
        v = self.ev(node.args[0])
        if isinstance(v, DictView):
            return DictView(v.kind, v.d, True)
        if isinstance(v, SV) and v.ty.kind == "dict":
            return DictView("keys", v, True)
        return self.sorted_list(v, node)

    def sorted_list(self, v, node):
        """sorted(list, key=...) : an unspecified permutation of the input (over-approximation of the order)."""
        if isinstance(v, LazySeq):
            v = self.materialize(v)
        if not isinstance(v, SV) or v.ty.kind != "list":
            raise Unsupported(f"sorted() of {type(v).__name__}")
        if v.term is None:
            return v
        n = self.list_len(v)
        out = self.w.fresh(v.ty, "sorted")
        osv = SV(out, v.ty, fresh=True)
        tag = next(_cc)
        perm = z3.Function(f"perm{tag}", z3.IntSort(), z3.IntSort())
        pinv = z3.Function(f"pinv{tag}", z3.IntSort(), z3.IntSort())
        i = z3.Const(f"pi{tag}", z3.IntSort())
        self.side_fact(self.list_len(osv) == n)
        self.side_fact(z3.ForAll([i], z3.Implies(z3.And(0 <= i, i < n),
                                                 z3.And(0 <= perm(i), perm(i) < n, pinv(perm(i)) == i,
                                                        self.list_get(osv, i) == self.list_get(v, perm(i)))),
                                 patterns=[perm(i), self.list_get(osv, i)]))
        # (a mention of an element of the sorted list / of the input triggers the permutation facts)
        src_pat = [self.list_get(v, i)] if self._pattern_safe(self.list_get(v, i)) else []
        self.side_fact(z3.ForAll([i], z3.Implies(z3.And(0 <= i, i < n),
                                                 z3.And(0 <= pinv(i), pinv(i) < n, perm(pinv(i)) == i)),
                                 patterns=[pinv(i)] + src_pat))
        return osv

    def bi_reversed(self, node):
        v = self.evv(node.args[0])
        if v.ty.kind != "list":
            raise Unsupported("reversed() of non-list")
        n = self.list_len(v)
        i = z3.Const(f"ri{next(_cc)}", z3.IntSort())
        return self.mk_list(v.ty.args[0], n, z3.Lambda([i], self.list_get(v, n - 1 - i)))

    def bi_next(self, node):
        v = self.ev(node.args[0])
        line = node.lineno
        if isinstance(v, BoundMethod) or not isinstance(v, (LazySeq, SV)):
            raise Unsupported(f"next() on {type(v).__name__} (line {line})")
        if isinstance(v, SV):
            if v.ty.kind != "list":
                raise Unsupported("next() on non-sequence")
            v = LazySeq(v, ast.Name("_x", ast.Store()), [], ast.Name("_x", ast.Load()), dict(self.st.env), "gen")
        val, found = self.lazy_first(v, line)
        if len(node.args) > 1:
            if self.in_pure_mode():
                d = self.ev(node.args[1])
                return self._select(found, val, d, line)
            if self.branch(found, f"next@{line}:"):
                return val
            return self.ev(node.args[1])
        if self.in_pure_mode():
            self.safety(found, "StopIteration", line)
            return val
        if self.branch(found, f"next@{line}:"):
            return val
        self.raise_builtin("StopIteration", line)

    def bi_filter(self, node):
        fn = self.ev(node.args[0])
        src = self.iter_source(node.args[1])
        if not isinstance(fn, Closure) or not fn.is_lambda or len(fn.params) != 1:
            raise Unsupported("filter() with a non-lambda")
        env = dict(fn.env)
        p = fn.params[0]
        return LazySeq(src, ast.Name(p, ast.Store()), [fn.body], ast.Name(p, ast.Load()), env, "gen", fn.module)

    def bi_map(self, node):
        fn = self.ev(node.args[0])
        src = self.iter_source(node.args[1])
        if not isinstance(fn, Closure) or not fn.is_lambda or len(fn.params) != 1:
            raise Unsupported("map() with a non-lambda")
        p = fn.params[0]
        return LazySeq(src, ast.Name(p, ast.Store()), [], fn.body, dict(fn.env), "gen", fn.module)

    def bi_any(self, node):
        v = self.ev(node.args[0])
        if isinstance(v, SV) and v.ty.kind == "list":
            v = LazySeq(v, ast.Name("_x", ast.Store()), [], ast.Name("_x", ast.Load()), dict(self.st.env), "gen")
        if not isinstance(v, LazySeq):
            raise Unsupported("any() of non-sequence")
        return SV(self.lazy_exists(v, truthy_elt=True), T.BOOL)

    def bi_all(self, node):
        v = self.ev(node.args[0])
        if isinstance(v, SV) and v.ty.kind == "list":
            v = LazySeq(v, ast.Name("_x", ast.Store()), [], ast.Name("_x", ast.Load()), dict(self.st.env), "gen")
        if not isinstance(v, LazySeq):
            raise Unsupported("all() of non-sequence")
        return SV(self.lazy_forall(v), T.BOOL)

    def _minmax(self, node, is_max: bool):
        line = node.lineno
        if len(node.args) >= 2:
            vals = [self.evv(a) for a in node.args]
            cur = vals[0]
            for nx in vals[1:]:
                a, b, t = self.unify(cur, nx, line)
                if t.kind not in ("int", "real"):
                    raise Unsupported(f"min/max on {t}")
                # python returns the first maximal / minimal argument
                c = (b.term > a.term) if is_max else (b.term < a.term)
                cur = SV(z3.If(c, b.term, a.term), t)
            return cur
        v = self.ev(node.args[0])
        if isinstance(v, LazySeq):
            v = self.materialize(v)
        if not isinstance(v, SV) or v.ty.kind != "list" or v.ty.args[0].kind not in ("int", "real"):
            raise Unsupported("min/max of a non numeric sequence")
        n = self.list_len(v)
        default = None
        for kw in node.keywords:
            if kw.arg == "default":
                default = self.evv(kw.value)
        r = self.w.fresh(v.ty.args[0], "mx")
        i = z3.Const(f"mi{next(_cc)}", z3.IntSort())
        w = self.w.fresh(T.INT, "mxw")
        cmp = (lambda a, b: a >= b) if is_max else (lambda a, b: a <= b)
        self.side_fact(z3.Implies(n > 0, z3.And(0 <= w, w < n, self.list_get(v, w) == r,
                                                z3.ForAll([i], z3.Implies(z3.And(0 <= i, i < n), cmp(r, self.list_get(v, i)))))))
        if default is None:
            self.safety(n > 0, "ValueError:empty-minmax", line)
            return SV(r, v.ty.args[0])
        d = self.coerce(default, v.ty.args[0])
        return SV(z3.If(n > 0, r, d.term), v.ty.args[0])

    def bi_min(self, node):
        return self._minmax(node, False)

    def bi_max(self, node):
        return self._minmax(node, True)

    def psum(self, elsort):
        key = f"psum<{elsort}>"
        if key not in self.w.funcs:
            f = z3.RecFunction(key, z3.ArraySort(z3.IntSort(), elsort), z3.IntSort(), elsort)
            a = z3.Const("psa", z3.ArraySort(z3.IntSort(), elsort))
            n = z3.Const("psn", z3.IntSort())
            zero = z3.RealVal(0) if elsort == z3.RealSort() else z3.IntVal(0)
            z3.RecAddDefinition(f, [a, n], z3.If(n <= 0, zero, f(a, n - 1) + z3.Select(a, n - 1)))
            self.w.funcs[key] = f
        return self.w.funcs[key]

    def bi_sum(self, node):
        v = self.ev(node.args[0])
        if isinstance(v, LazySeq):
            v = self.materialize(v)
        if not isinstance(v, SV) or v.ty.kind != "list":
            raise Unsupported("sum() of non-list")
        if v.term is None:
            return SV(z3.IntVal(0), T.INT)
        et = v.ty.args[0]
        if et.kind not in ("int", "real"):
            raise Unsupported(f"sum() of {et}")
        _, ln, arr = self.lst(v)
        f = self.psum(self.w.sort(et))
        return SV(f(arr(v.term), self.list_len(v)), et)

    def bi_getattr(self, node):
        obj = self.evv(node.args[0])
        name = self.ev(node.args[1])
        if isinstance(node.args[1], ast.Constant) and isinstance(node.args[1].value, str) and len(node.args) == 2:
            return self.getattr_(obj, node.args[1].value, node.lineno)
        name = self.coerce(name, T.STR)
        f = self.w.func(f"getattr<{self.w.sort(obj.ty)}>", self.w.sort(obj.ty), self.w.StrSort, self.w.sort(T.ANY))
        hasf = self.w.func(f"hasattr<{self.w.sort(obj.ty)}>", self.w.sort(obj.ty), self.w.StrSort, z3.BoolSort())
        got = SV(f(obj.term, name.term), T.ANY)
        if len(node.args) > 2:
            d = self.coerce(self.evv(node.args[2]), T.ANY) if not self._is_none_node(node.args[2]) else \
                SV(self.w.func("any_none", self.w.sort(T.ANY))(), T.ANY)
            return SV(z3.If(hasf(obj.term, name.term), got.term, d.term), T.ANY)
        self.safety(hasf(obj.term, name.term), "AttributeError:getattr", node.lineno)
        return got

    def _is_none_node(self, n):
        return isinstance(n, ast.Constant) and n.value is None

    def bi_hasattr(self, node):
        obj = self.evv(node.args[0])
        name = self.coerce(self.evv(node.args[1]), T.STR)
        hasf = self.w.func(f"hasattr<{self.w.sort(obj.ty)}>", self.w.sort(obj.ty), self.w.StrSort, z3.BoolSort())
        return SV(hasf(obj.term, name.term), T.BOOL)

    def bi_callable(self, node):
        v = self.ev(node.args[0])
        if isinstance(v, (Closure, FuncRef, BoundMethod, ClassRef)):
            return SV(z3.BoolVal(True), T.BOOL)
        if isinstance(v, SV) and v.ty.kind == "opaque":
            f = self.w.func(f"callable<{v.ty.name}>", self.w.sort(v.ty), z3.BoolSort())
            return SV(f(v.term), T.BOOL)
        return SV(z3.BoolVal(False), T.BOOL)

    def bi_cast(self, node):
        return self.ev(node.args[1])

    def bi_print(self, node):
        return SV(None, T.NONE)

    def bi_id(self, node):
        v = self.evv(node.args[0])
        f = self.w.func(f"id<{self.w.sort(v.ty)}>", self.w.sort(v.ty), z3.IntSort())
        return SV(f(v.term), T.INT)

    def bi_field(self, node):
        for kw in node.keywords:
            if kw.arg == "default_factory":
                return self.ev(ast.Call(kw.value, [], [], lineno=node.lineno, col_offset=0))
            if kw.arg == "default":
                return self.ev(kw.value)
        raise Unsupported("field() without default")

    def bi_replace(self, node):
        """dataclasses.replace(obj, **changes): shallow copy with fields replaced"""
        obj = self.evv(node.args[0])
        if obj.ty.kind != "obj":
            raise Unsupported("replace() on non-dataclass")
        cls = obj.ty.name
        s, ctor, accs = self.w.obj(cls)
        changes = {kw.arg: self.ev(kw.value) for kw in node.keywords}
        if not changes:
            return SV(obj.term, obj.ty, fresh=True)
        args = []
        for f, ft in self.w.obj_fields(cls):
            if f in changes:
                args.append(self.coerce(self.embed(changes[f], node.lineno), ft, node.lineno).term)
            else:
                args.append(accs[f](obj.term))
        for k in changes:
            if self.w.field_ty(cls, k) is None:
                self.safety(z3.BoolVal(False), f"TypeError:replace-unknown-field-{k}", node.lineno)
        return SV(ctor(*args), obj.ty, fresh=True)

    # ---------------------------------------------------------- exceptions
    def raise_builtin(self, clsname: str, line: int):
        e = SV(self.w.fresh(T.EXC, clsname), T.EXC)
        f = self.w.func("type_of<Exc>", self.w.sort(T.EXC), self.w.sort(T.TYPE))
        self.st.pc.append(f(e.term) == self.w.type_const(clsname))
        raise RaiseSignal(e, clsname, line)

    # -------------------------------------------------------- constructors
    def construct(self, cref: ClassRef, args, kwargs, node):
        line = node.lineno
        name = cref.name
        if name in self.w.plain_classes:
            return self.construct_plain(name, args, kwargs, node)
        if self.w.is_exc_class(name, cref.module):
            e = SV(self.w.fresh(T.EXC, name), T.EXC)
            f = self.w.func("type_of<Exc>", self.w.sort(T.EXC), self.w.sort(T.TYPE))
            self.side_fact(f(e.term) == self.w.type_const(name))
            if args and isinstance(args[0], SV) and args[0].ty.kind == "str":
                m = self.w.func("exc_msg", self.w.sort(T.EXC), self.w.StrSort)
                self.side_fact(m(e.term) == args[0].term)
            # payload: the positional constructor arguments stay attached to the exception value
            for i_, a_ in enumerate(args):
                if isinstance(a_, LazySeq):
                    a_ = self.materialize(a_)
                if isinstance(a_, SV) and a_.term is not None:
                    pf = self.w.func(f"exc_arg{i_}<{a_.term.sort()}>", self.w.sort(T.EXC), a_.term.sort())
                    self.side_fact(pf(e.term) == a_.term)
            return e
        ci = self.w.repo.find_class(name, cref.module)
        if ci is None:
            raise Unsupported(f"constructor of unknown class {name} (line {line})")
        if self.w.is_event_class(name, cref.module):
            return self.construct_event(ci, args, kwargs, node)
        if ci.kind in ("dataclass", "pydantic"):
            return self.construct_obj(ci, args, kwargs, node)
        spec = self.specs.opaque_ctor(name)
        if spec is not None:
            return SV(self.w.fresh(T.Opaque(name), name), T.Opaque(name))
        raise Unsupported(f"constructor of class {name} ({ci.kind}) (line {line})")

    def construct_obj(self, ci, args, kwargs, node):
        line = node.lineno
        fields = self.w.obj_fields(ci.name)
        finfo = {f.name: f for f in self.w.repo.class_fields(ci)}
        if ci.kind == "pydantic" and args:
            raise Unsupported("positional args to pydantic model")
        given = {}
        for (fname, _), a in zip(fields, args):
            given[fname] = a
        for k, v in kwargs.items():
            if k.startswith("**"):
                raise Unsupported("** in constructor call")
            if k in given:
                self.safety(z3.BoolVal(False), f"TypeError:duplicate-arg-{k}", line)
            given[k] = v
        vals = []
        for fname, ft in fields:
            if fname in given:
                v = given[fname]
            else:
                fi = finfo.get(fname)
                if fi is None or fi.default is None:
                    self.safety(z3.BoolVal(False), f"TypeError:missing-arg-{fname}", line)
                    raise PathEnd()
                v = self.eval_default(fi.default, ci.module)
            vals.append(self.coerce(self.embed(v, line), ft, line).term)
        for k in given:
            if k not in dict(fields):
                self.safety(z3.BoolVal(False), f"TypeError:unexpected-arg-{k}", line)
        _, ctor, _ = self.w.obj(ci.name)
        return SV(ctor(*vals), T.Obj(ci.name), fresh=True)

    def eval_default(self, dnode, module):
        fr_mod = self.frames[-1].module
        self.frames[-1].module = module
        try:
            with self.scope({}, {}):
                if isinstance(dnode, ast.Call) and ast.unparse(dnode.func) in ("field", "dataclasses.field", "Field"):
                    for kw in dnode.keywords:
                        if kw.arg == "default_factory":
                            return self.ev(ast.Call(kw.value, [], [], lineno=dnode.lineno, col_offset=0))
                        if kw.arg == "default":
                            return self.ev(kw.value)
                    if dnode.args:
                        return self.ev(dnode.args[0])
                    raise Unsupported("field() without default")
                return self.ev(dnode)
        finally:
            self.frames[-1].module = fr_mod

    def construct_event(self, ci, args, kwargs, node):
        """Engine event classes: an opaque Event with its class and the given fields recorded as ground facts."""
        line = node.lineno
        e = SV(self.w.fresh(T.EVENT, ci.name), T.EVENT, fresh=True)
        f = self.w.func("type_of<Event>", self.w.sort(T.EVENT), self.w.sort(T.TYPE))
        self.side_fact(f(e.term) == self.w.type_const(ci.name))
        fields = {fi.name: fi for fi in self.w.repo.class_fields(ci) if not fi.name.startswith("_")}
        names = list(fields)
        given = dict(kwargs)
        for n_, a in zip(names, args):
            given[n_] = a
        for k, v in given.items():
            if k.startswith("**"):
                raise Unsupported("** in event constructor")
            fty = self.specs.event_field(k)
            if fty is None:
                if k in fields:
                    fty = self.w.resolve_ann(fields[k].ann, ci.module)
                else:
                    fty = v.ty if isinstance(v, SV) else T.ANY
                self.specs.register_event_field(k, fty)
            if isinstance(v, LazySeq):
                v = self.materialize(v)
            fn = self.w.func(f"Event.{k}", self.w.sort(T.EVENT), self.w.sort(fty))
            self.side_fact(fn(e.term) == self.coerce(v, fty, line).term)
        for k, fi in fields.items():
            if k not in given and fi.default is None:
                self.safety(z3.BoolVal(False), f"ValidationError:missing-field-{k}", line)
        return e

    def construct_plain(self, name, args, kwargs, node):
        """ordinary (non-dataclass) class whose fields the spec declares: the object is built by executing the
        class's real __init__ on a fresh instance (fields unset = arbitrary until assigned)"""
        ci = self.w.repo.find_class(name)
        init = None
        if ci is not None:
            for cn in self.w.repo.mro_names(ci):
                c2 = self.w.repo.find_class(cn, ci.module)
                if c2 is not None and "__init__" in c2.methods:
                    init = c2.methods["__init__"]
                    break
        t = T.Obj(name)
        if init is None:
            fields = self.w.plain_classes[name]
            given = dict(kwargs)
            for (f, _), a in zip(fields, args):
                given[f] = a
            vals = []
            for f, ft in fields:
                if f not in given:
                    raise Unsupported(f"plain class {name}: missing field {f} at construction")
                vals.append(self.coerce(given[f], ft, node.lineno).term)
            _, ctor, _ = self.w.obj(name)
            return SV(ctor(*vals), t, fresh=True)
        obj = SV(self.w.fresh(t, f"new_{name}"), t, fresh=True)
        ref = self.new_cell(obj)
        self_val = self.read_ref(ref)
        self.inline_call(init, args, kwargs, node.lineno, self_val=self_val)
        out = self.read_ref(ref)
        return SV(out.term, t, fresh=True)

    # ---------------------------------------------------------- functions
    def bind_params(self, fnode, args, kwargs, module, self_val=None):
        a = fnode.args
        names = [x.arg for x in a.posonlyargs + a.args]
        bound = {}
        pos = list(args)
        if self_val is not None:
            pos = [self_val] + pos
        if len(pos) > len(names):
            if a.vararg is None:
                raise Unsupported(f"too many positional args for {fnode.name}")
            bound[a.vararg.arg] = PyTuple(pos[len(names):])
            pos = pos[: len(names)]
        elif a.vararg is not None:
            bound[a.vararg.arg] = PyTuple([])
        for n_, v in zip(names, pos):
            bound[n_] = v
        kwonly = [x.arg for x in a.kwonlyargs]
        for k, v in kwargs.items():
            if k.startswith("**"):
                continue
            if k in bound:
                raise Unsupported(f"duplicate argument {k}")
            if k not in names and k not in kwonly:
                raise Unsupported(f"unexpected keyword {k} for {fnode.name}")
            bound[k] = v
        # defaults
        defaults = dict(zip(names[len(names) - len(a.defaults):], a.defaults))
        for k, d in zip(kwonly, a.kw_defaults):
            if d is not None:
                defaults[k] = d
        for n_ in names + kwonly:
            if n_ not in bound:
                if n_ not in defaults:
                    raise Unsupported(f"missing argument {n_} for {fnode.name}")
                bound[n_] = self.eval_default(defaults[n_], module)
        return bound

    def call_function(self, fq: str, args, kwargs, node, self_val=None):
        line = node.lineno
        c = self.specs.contract(fq)
        fi = self.w.repo.function(fq)
        if self_val is not None and any(d.split(".")[-1] == "staticmethod" for d in fi.decorators):
            self_val = None  # obj.static_method(...): no receiver is passed
        if any(d.split(".")[-1] == "classmethod" for d in fi.decorators) and fi.cls:
            self_val = SV(self.w.type_const(fi.cls), T.TYPE)  # Cls.class_method(...): the class is the first argument
        if c is not None and not c.inline:
            bound = self.bind_params(fi.node, args, kwargs, fi.module, self_val)
            if fq in self.specs.logged_functions and not self.spec_mode:
                # a call the caller's contract talks about: fcalls("f"), fcall_pos("f", k, i), fcall_ret("f", k)
                if self.frames and self.frames[0].loop_ctx:
                    raise Unsupported(f"logged call {fq} inside a loop (line {line})")
                rec = {"recv": None, "ty": "fn", "method": fq.split(".")[-1],
                       "args": [a if isinstance(a, SV) else None for a in args],
                       "kwargs": {k_: (v_ if isinstance(v_, SV) else None) for k_, v_ in kwargs.items()},
                       "line": line}
                self.st.__dict__.setdefault("call_log", []).append(rec)
                rec["ret"] = self.apply_contract(c, fi, bound, line)
                return rec["ret"]
            return self.apply_contract(c, fi, bound, line)
        if (c is not None and c.inline) or self.specs.may_inline(fq):
            return self.inline_call(fi, args, kwargs, line, self_val)
        if c is None and self._small_helper(fi) and (not fi.is_async or len(list(ast.walk(fi.node))) < 60):
            # (small async forwarders - `await self._decorated.m(x)` - are inlined as well: an await is a call here)
            # a helper without a contract (e.g. one a refactoring extracted): its body is executed in place
            return self.inline_call(fi, args, kwargs, line, self_val)
        raise Unsupported(f"call to {fq} which has no contract and is not marked inline (line {line})")

    def _small_helper(self, fi) -> bool:
        import ast as _ast
        if any(f.fn_name == fi.qualname for f in self.frames):
            return False  # recursion
        n = sum(1 for _ in _ast.walk(fi.node))
        loops = any(isinstance(x, (_ast.For, _ast.While, _ast.AsyncFor)) for x in _ast.walk(fi.node))
        return n < 400 and not loops

    def inline_call(self, fi, args, kwargs, line, self_val=None):
        from .symex import Frame
        if len(self.frames) > 12:
            raise Unsupported("inlining depth")
        bound = self.bind_params(fi.node, args, kwargs, fi.module, self_val)
        saved_env = self.st.env
        self.st.env = {}
        self.frames.append(Frame(fi.module, fi.qualname))
        try:
            ann = {a.arg: a.annotation for a in fi.node.args.posonlyargs + fi.node.args.args + fi.node.args.kwonlyargs}
            for k, v in bound.items():
                if isinstance(v, SV) and ann.get(k) is not None and k != "self":
                    t = self.w.resolve_ann(ann[k], fi.module)
                    if t != T.ANY and v.ty != t and not (v.ref is not None):
                        try:
                            v = self.coerce(v, t, line)
                        except Unsupported:
                            pass
                self.assign_name(k, v, line)
            try:
                self.exec_block(fi.node.body)
                ret = SV(None, T.NONE)
            except ReturnSignal as r:
                ret = r.value
            return ret
        finally:
            self.frames.pop()
            self.st.env = saved_env

    def call_closure(self, fn: Closure, args, kwargs, line):
        if fn.is_lambda:
            with self.scope(dict(zip(fn.params, [self._bindable(a) for a in args])), fn.env):
                return self.ev(fn.body)
        # a nested def: its body runs in place, in the environment it closes over (captured names are the same
        # cells, so `clauses.append(...)` inside the helper is seen by the enclosing function) plus its parameters.
        # Rebinding a captured name (nonlocal) is not supported: the assignment would stay local, as in Python
        # without a `nonlocal` declaration.
        from .symex import Frame
        if len(self.frames) > 12:
            raise Unsupported("inlining depth")
        bound = {}
        pos = list(fn.params)
        if len(args) > len(pos):
            raise Unsupported(f"nested def called with too many positional arguments (line {line})")
        for nme, v in zip(pos, args):
            bound[nme] = v
        for k_, v in kwargs.items():
            if k_ not in fn.params and k_ not in fn.defaults:
                raise Unsupported(f"nested def has no parameter '{k_}' (line {line})")
            bound[k_] = v
        saved_env = self.st.env
        self.st.env = dict(fn.env)
        self.frames.append(Frame(fn.module, "<nested def>"))
        try:
            for nme, dnode in fn.defaults.items():
                if nme not in bound:
                    bound[nme] = self.ev(dnode)
            missing = [p_ for p_ in fn.params if p_ not in bound]
            if missing:
                raise Unsupported(f"nested def called without argument(s) {missing} (line {line})")
            for k_, v in bound.items():
                self.assign_name(k_, v, line)
            try:
                self.exec_block(fn.body)
                ret = SV(None, T.NONE)
            except ReturnSignal as r:
                ret = r.value
            return ret
        finally:
            self.frames.pop()
            self.st.env = saved_env

    # ------------------------------------------------------------ contracts
    def ret_type(self, fi):
        return self.w.resolve_ann(fi.node.returns, fi.module) if fi.node.returns is not None else T.NONE

    def fresh_value(self, t: T.Ty, hint: str):
        if t.kind == "tuple":
            return PyTuple([self.fresh_value(x, hint) for x in t.args])
        if t.kind == "none":
            return SV(None, T.NONE)
        if self.binders:
            vs = [v for b in self.binders for v in b["vars"]]
            f = z3.Function(f"{hint}!{next(_cc)}", *[v.sort() for v in vs], self.w.sort(t))
            return SV(f(*vs), t, fresh=True)
        return SV(self.w.fresh(t, hint), t, fresh=True)

    def snapshot(self, v):
        if isinstance(v, SV):
            return SV(v.term, v.ty)
        if isinstance(v, PyTuple):
            return PyTuple([self.snapshot(x) for x in v.items])
        return v

    def apply_contract(self, c, fi, bound: dict, line: int):
        name = fi.qualname
        # type the arguments as the callee declares them
        ptypes = self.param_types(fi, c)
        for k in list(bound):
            if k in ptypes and isinstance(bound[k], (SV, LazySeq, PyTuple)):
                v = bound[k]
                if isinstance(v, SV) and v.ref is not None and k in c.modifies:
                    continue
                bound[k] = self.coerce(v, ptypes[k], line)
        pre_vals = {k: self.snapshot(v) for k, v in bound.items()}
        if c.requires is not None:
            pre = self.eval_spec(c.requires, pre_vals, c)
            self.oblige("requires@call", name, pre, line)
        # havoc what the callee may modify
        post_vals = dict(pre_vals)
        for pname in c.modifies:
            arg = bound.get(pname)
            if not isinstance(arg, SV):
                raise Unsupported(f"modifies target {pname} is not a value")
            nv = SV(self.w.fresh(arg.ty, f"{pname}'"), arg.ty)
            if arg.ref is not None:
                self.mutate(arg, nv, line)
            elif not arg.fresh:
                raise Unsupported(f"callee {name} mutates argument '{pname}' passed through an untracked alias (line {line})")
            post_vals[pname] = nv
        old = Namespace(pre_vals)
        # exceptional outcomes allowed by the contract
        if c.raises:
            alts = list(c.raises.items())
            ch = self.choose(len(alts) + 1, f"call@{line}:")
            if ch > 0:
                exc_name, cond_fn = alts[ch - 1]
                if cond_fn is not None:
                    self.st.pc.append(self.eval_spec(cond_fn, {**post_vals, "old": old}, c))
                if not self.feasible():
                    raise PathEnd()
                # what the callee's contract says about its exceptional exits (raised_<Exc>_*, raised_any_*): proved
                # for the callee, assumed here; clauses that mention the exception value see a fresh one
                from .stmt import BUILTIN_EXC_MRO as _MRO
                keys = list(_MRO.get(exc_name, [exc_name])) + ["any"]
                for k_ in keys:
                    for cname, efn in c.raised.get(k_, {}).items():
                        if (c.fq, cname) in self.specs.unproved:
                            continue
                        vals = {**post_vals, "old": old}
                        if "exc" in [a_.arg for a_ in efn.node.args.args]:
                            vals["exc"] = SV(self.w.fresh(T.EXC, "callee_exc"), T.EXC)
                        self.side_fact(self.eval_spec(efn, vals, c))
                self.raise_builtin(exc_name, line)
        result = self.fresh_value(self.ret_type(fi) if c.ret_type is None else c.ret_type, f"{name}.ret")
        for cname, efn in c.ensures.items():
            if (c.fq, cname) in self.specs.unproved:
                continue  # a recorded known finding: the clause does not hold, so it is not assumed here
            f = self.eval_spec(efn, {**post_vals, "old": old, "result": result}, c)
            self.side_fact(f)
        return result

    def param_types(self, fi, c=None) -> dict:
        out = {}
        a = fi.node.args
        for p in a.posonlyargs + a.args + a.kwonlyargs:
            if p.arg == "self" and fi.cls:
                out["self"] = self.specs.self_type(fi) or T.Obj(fi.cls)
                continue
            if c is not None and p.arg in c.param_types:
                out[p.arg] = c.param_types[p.arg]
            elif p.annotation is not None:
                out[p.arg] = self.w.resolve_ann(p.annotation, fi.module)
            else:
                out[p.arg] = T.ANY
        return out

    # ------------------------------------------------------------- methods
    def call_method(self, bm: BoundMethod, args, kwargs, node):
        line = node.lineno
        recv, name = bm.recv, bm.name
        if isinstance(recv, ModuleRef):
            return self.call_module_fn(recv.name + "." + name, args, kwargs, node)
        if isinstance(recv, LazySeq):
            recv = self.materialize(recv)
        if isinstance(recv, BoundMethod) or not isinstance(recv, SV):
            raise Unsupported(f"method {name} on {type(recv).__name__} (line {line})")
        k = recv.ty.kind
        if k == "list":
            return self.list_method(recv, name, args, kwargs, line)
        if k == "dict":
            return self.dict_method(recv, name, args, kwargs, line)
        if k == "set":
            return self.set_method(recv, name, args, kwargs, line)
        if k == "str":
            return self.str_method(recv, name, args, kwargs, line)
        if k == "obj":
            ci = self.w.repo.find_class(recv.ty.name)
            if ci is not None:
                for cn in self.w.repo.mro_names(ci):
                    c2 = self.w.repo.find_class(cn, ci.module)
                    if c2 is not None and name in c2.methods:
                        return self.call_function(f"{c2.module}.{c2.name}.{name}", args, kwargs, node, self_val=recv)
            if recv.ty.name in self.w.plain_classes:
                ci2 = self.w.repo.find_class(recv.ty.name)
                if ci2 is not None:
                    for cn in self.w.repo.mro_names(ci2):
                        c2 = self.w.repo.find_class(cn, ci2.module)
                        if c2 is not None and name in c2.methods:
                            return self.call_function(f"{c2.module}.{c2.name}.{name}", args, kwargs, node, self_val=recv)
            raise Unsupported(f"method {recv.ty.name}.{name} not found (line {line})")
        if k == "opaque":
            return self.call_opaque(recv, name, args, kwargs, node)
        raise Unsupported(f"method {name} on {recv.ty} (line {line})")

    def list_append_val(self, lst: SV, x: SV) -> SV:
        mk, ln, arr = self.lst(lst)
        n = ln(lst.term)
        return SV(mk(n + 1, z3.Store(arr(lst.term), n, x.term)), lst.ty, fresh=True)

    def list_concat(self, a: SV, b: SV, line):
        if a.term is None:
            return b
        if b.term is None:
            return a
        a, b, t = self.unify(a, b, line)
        na, nb = self.list_len(a), self.list_len(b)
        i = z3.Const(f"cc{next(_cc)}", z3.IntSort())
        return self.mk_list(t.args[0], na + nb, z3.Lambda([i], z3.If(i < na, self.list_get(a, i), self.list_get(b, i - na))))

    def _typed_list(self, recv: SV, elt_hint: T.Ty | None, line) -> SV:
        """resolve an empty literal of unknown element type at first use"""
        if recv.term is not None:
            return recv
        if elt_hint is None:
            raise Unsupported("operation on an untyped empty list")
        t = T.List(elt_hint)
        nv = self.empty_list(elt_hint)
        if recv.ref is not None:
            cur = self.st.cells[recv.ref.cell]
            if not recv.ref.path:
                self.st.cells[recv.ref.cell] = SV(nv.term, t)
                return SV(nv.term, t, ref=recv.ref)
        return SV(nv.term, t, ref=recv.ref, fresh=recv.fresh)

    def kill_refs_through(self, ref: Ref | None, removed=None, inserted=None, line: int = 0, same_as: Ref | None = None):
        """Structural mutation of the list at `ref`.  Variables that alias elements of it are kept meaningful:
        an alias of the removed element becomes a detached object (python: the object lives on outside the list),
        aliases of other elements get their index shifted.  Must be called BEFORE the list itself is updated."""
        if ref is None:
            return
        n = len(ref.path)
        for name, v in list(self.st.env.items()):
            if not (isinstance(v, Ref) and v.cell == ref.cell and len(v.path) > n
                    and all(self._step_eq(a, b) for a, b in zip(v.path, ref.path)) and v.path[n][0] == "i"):
                continue
            idx = v.path[n][1]
            if removed is None and inserted is None:
                self.st.dead_refs.add(v)  # clear() etc.: no meaningful new place
                continue
            if removed is not None:
                same = z3.eq(z3.simplify(idx), z3.simplify(removed))
                if not same and same_as is not None and len(same_as.path) > n and same_as.cell == v.cell \
                        and all(self._step_eq(a, b) for a, b in zip(v.path[: n + 1], same_as.path[: n + 1])):
                    # lst.remove(x) with x an alias of an element: it is x itself that goes, provided no earlier
                    # element compares equal to it (obligation)
                    self.safety(idx == removed, "list.remove(x)-removes-x-itself", line)
                    same = True
                if not same:
                    # is this alias the removed element?  decide by proof obligation in the common direction
                    s = z3.Solver()
                    s.set("timeout", 300)
                    for p in self.st.pc:
                        s.add(p)
                    s.add(idx != removed)
                    same = s.check() == z3.unsat
                if same:
                    elem = self.read_ref(Ref(v.cell, v.path[: n + 1]))
                    cell = self.new_cell(SV(elem.term, elem.ty))
                    self.st.env[name] = Ref(cell.cell, v.path[n + 1:])
                    continue
                self.safety(idx != removed, "alias-of-removed-list-element", line)
                nidx = z3.If(idx > removed, idx - 1, idx)
            else:
                nidx = z3.If(idx >= inserted, idx + 1, idx)
            self.st.env[name] = Ref(v.cell, v.path[:n] + (("i", z3.simplify(nidx)),) + v.path[n + 1:])

    def _step_eq(self, a, b):
        if a[0] != b[0]:
            return False
        if a[0] in ("i", "k"):
            return z3.eq(a[1], b[1])
        return a == b

    def named_list(self, new: SV, old: SV | None = None, keep=None) -> SV:
        """Give a freshly computed list value a name (field-wise definition), so that quantifier triggers over it
        are plain `select(arr(name), i)` terms; `keep` = number of leading elements shared with `old` (forward
        trigger: every old[j] makes name[j] appear)."""
        if self.binders or new.term is None:
            return new
        named = self.w.fresh(new.ty, "lst")
        s = self.w.sort(new.ty)
        _, nlen, narr = self.lst(new)
        self.st.pc.append(s.accessor(0, 0)(named) == nlen(new.term))
        self.st.pc.append(s.accessor(0, 1)(named) == narr(new.term))
        if old is not None and old.term is not None and keep is not None:
            jj = z3.Const(f"kp${len(self.binders)}", z3.IntSort())
            o = self.list_get(old, jj)
            if self._pattern_safe(o):
                try:
                    self.side_fact(z3.ForAll([jj], z3.Implies(z3.And(0 <= jj, jj < keep),
                                                              z3.Select(s.accessor(0, 1)(named), jj) == o),
                                             patterns=[o], qid="list-keep"))
                except z3.Z3Exception:
                    pass  # only a trigger hint
        return SV(named, new.ty, fresh=True)

    def _shift_axiom(self, old: SV, new: SV, where, n, skip=None):
        """forward trigger for structural list updates: every element term old[j] makes its image new[where(j)]
        appear (the lambda definition of `new` alone only rewrites selects that already exist)"""
        jj = z3.Const(f"sh${len(self.binders)}", z3.IntSort())
        o = self.list_get(old, jj)
        guard = z3.And(0 <= jj, jj < n)
        if skip is not None:
            guard = z3.And(guard, jj != skip)
        named = self.w.fresh(new.ty, "shifted")
        s = self.w.sort(new.ty)
        # field-wise definition (not `named == mk(..)`): the solver's equation solving would otherwise substitute
        # the name away and with it every trigger that mentions it
        _, nlen, narr = self.lst(new)
        self.st.pc.append(s.accessor(0, 0)(named) == nlen(new.term))
        self.st.pc.append(s.accessor(0, 1)(named) == narr(new.term))
        if self._pattern_safe(o):
            try:
                self.side_fact(z3.ForAll([jj], z3.Implies(guard, z3.Select(s.accessor(0, 1)(named), where(jj)) == o),
                                         patterns=[o], qid="list-shift"))
            except z3.Z3Exception:
                pass  # only a trigger hint
        return SV(named, new.ty, fresh=True)

    def list_method(self, recv: SV, name, args, kwargs, line):
        if name == "append":
            x = args[0]
            if isinstance(x, LazySeq):
                x = self.materialize(x)
            if isinstance(x, PyTuple):
                x = self.coerce(x, T.Tuple(*[i.ty for i in x.items]))
            recv = self._typed_list(recv, x.ty if isinstance(x, SV) else None, line)
            x = self.coerce(self.embed(x, line), recv.ty.args[0], line)
            self.mutate(recv, self.named_list(self.list_append_val(recv, x), recv, self.list_len(recv)), line)
            return SV(None, T.NONE)
        if name == "extend":
            other = args[0]
            if isinstance(other, LazySeq):
                other = self.materialize(other)
            if isinstance(other, PyTuple):
                if not other.items:
                    return SV(None, T.NONE)
                other = self.coerce(other, T.List(self._join_all([x.ty for x in other.items])))
            if other.term is None:
                return SV(None, T.NONE)
            recv = self._typed_list(recv, other.ty.args[0], line)
            other = self.coerce(other, recv.ty, line)
            self.mutate(recv, self.named_list(self.list_concat(recv, other, line), recv, self.list_len(recv)), line)
            return SV(None, T.NONE)
        if name == "insert":
            x = args[1]
            recv = self._typed_list(recv, x.ty if isinstance(x, SV) else None, line)
            x = self.coerce(self.embed(x, line), recv.ty.args[0], line)
            n = self.list_len(recv)
            i0 = z3.simplify(self.coerce(args[0], T.INT).term)
            j = z3.Const(f"ins{next(_cc)}", z3.IntSort())
            _, _, arr = self.lst(recv)
            if z3.is_int_value(i0) and i0.as_long() == 0:
                # the common case insert(0, x): no clamping, plain shift by one
                new = self.mk_list(recv.ty.args[0], n + 1,
                                   z3.Lambda([j], z3.If(j == 0, x.term, z3.Select(arr(recv.term), j - 1))))
                new = self._shift_axiom(recv, new, lambda jj: jj + 1, n)
            else:
                i0 = z3.If(i0 < 0, z3.If(i0 + n < 0, 0, i0 + n), z3.If(i0 > n, n, i0))
                new = self.mk_list(recv.ty.args[0], n + 1,
                                   z3.Lambda([j], z3.If(j < i0, z3.Select(arr(recv.term), j),
                                                        z3.If(j == i0, x.term, z3.Select(arr(recv.term), j - 1)))))
                new = self._shift_axiom(recv, new, lambda jj: z3.If(jj < i0, jj, jj + 1), n)
            self.kill_refs_through(recv.ref, inserted=i0, line=line)
            self.mutate(recv, new, line)
            return SV(None, T.NONE)
        if recv.term is None:
            if name in ("pop", "popleft", "remove", "index"):
                self.safety(z3.BoolVal(False), f"{name}-on-empty-list", line)
                raise PathEnd()
            if name in ("clear", "sort", "reverse"):
                return SV(None, T.NONE)
            if name == "copy":
                return recv
            if name == "count":
                return SV(z3.IntVal(0), T.INT)
        mk, ln, arr = self.lst(recv)
        n = self.list_len(recv)
        el_t = recv.ty.args[0]
        if name in ("pop", "popleft"):
            if name == "popleft":  # collections.deque modelled as a list
                i0 = z3.IntVal(0)
            elif args:
                i0 = self.coerce(args[0], T.INT).term
                i0 = z3.If(i0 < 0, i0 + n, i0)
            else:
                i0 = n - 1
            self.safety(z3.And(0 <= i0, i0 < n), "IndexError:pop", line)
            val = SV(z3.Select(arr(recv.term), i0), el_t, fresh=True)
            valc = self.w.fresh(el_t, "popped")
            self.st.pc.append(valc == val.term)
            j = z3.Const(f"pop{next(_cc)}", z3.IntSort())
            i0s = z3.simplify(i0)
            if z3.is_int_value(i0s) and i0s.as_long() == 0:
                new = self.mk_list(el_t, n - 1, z3.Lambda([j], z3.Select(arr(recv.term), j + 1)))
                new = self._shift_axiom(recv, new, lambda jj: jj - 1, n, skip=z3.IntVal(0))
            else:
                new = self.mk_list(el_t, n - 1, z3.Lambda([j], z3.If(j < i0, z3.Select(arr(recv.term), j),
                                                                     z3.Select(arr(recv.term), j + 1))))
                new = self._shift_axiom(recv, new, lambda jj: z3.If(jj < i0, jj, jj - 1), n, skip=i0)
            self.kill_refs_through(recv.ref, removed=i0, line=line)
            self.mutate(recv, new, line)
            return SV(valc, el_t, fresh=True)
        if name == "sort" and recv.term is not None:
            # in-place sort: the list becomes an (unspecified) permutation of itself - the ORDER is not modelled
            self.mutate(recv, self.sorted_list(recv, None), line)
            return SV(None, T.NONE)
        if name == "remove":
            x = args[0]
            idx = self.w.fresh(T.INT, "rmidx")
            i = z3.Const(f"rm{next(_cc)}", z3.IntSort())
            eq_at = lambda k_: self.py_eq(SV(z3.Select(arr(recv.term), k_), el_t), x, line)
            found = z3.Exists([i], z3.And(0 <= i, i < n, eq_at(i)))
            self.safety(found, "ValueError:list.remove", line)
            self.st.pc.append(z3.And(0 <= idx, idx < n, eq_at(idx),
                                     z3.ForAll([i], z3.Implies(z3.And(0 <= i, i < idx), z3.Not(eq_at(i))))))
            j = z3.Const(f"rmj{next(_cc)}", z3.IntSort())
            new = self.mk_list(el_t, n - 1, z3.Lambda([j], z3.If(j < idx, z3.Select(arr(recv.term), j),
                                                                 z3.Select(arr(recv.term), j + 1))))
            new = self._shift_axiom(recv, new, lambda jj: z3.If(jj < idx, jj, jj - 1), n, skip=idx)
            self.kill_refs_through(recv.ref, removed=idx, line=line,
                                   same_as=x.ref if isinstance(x, SV) else None)
            self.mutate(recv, new, line)
            self.last_removed_index = idx
            return SV(None, T.NONE)
        if name == "clear":
            self.kill_refs_through(recv.ref)
            self.mutate(recv, SV(mk(z3.IntVal(0), arr(recv.term)), recv.ty), line)
            return SV(None, T.NONE)
        if name == "copy":
            return SV(recv.term, recv.ty, fresh=True)
        if name == "index":
            x = args[0]
            idx = self.w.fresh(T.INT, "idx")
            i = z3.Const(f"ix{next(_cc)}", z3.IntSort())
            eq_at = lambda k_: self.py_eq(SV(z3.Select(arr(recv.term), k_), el_t), x, line)
            self.safety(z3.Exists([i], z3.And(0 <= i, i < n, eq_at(i))), "ValueError:list.index", line)
            self.st.pc.append(z3.And(0 <= idx, idx < n, eq_at(idx),
                                     z3.ForAll([i], z3.Implies(z3.And(0 <= i, i < idx), z3.Not(eq_at(i))))))
            return SV(idx, T.INT)
        raise Unsupported(f"list.{name} (line {line})")

    def dict_method(self, recv: SV, name, args, kwargs, line):
        if name in ("items", "keys", "values"):
            return DictView(name, recv)
        if recv.term is None:
            if name == "get":
                return args[1] if len(args) > 1 else SV(None, T.NONE)
            if name in ("clear",):
                return SV(None, T.NONE)
            if name == "copy":
                return recv
            if name == "pop":
                if len(args) > 1:
                    return args[1]
                self.safety(z3.BoolVal(False), "KeyError:pop", line)
                raise PathEnd()
            if name in ("setdefault", "update", "__setitem__"):
                raise Unsupported(f"{name} on an untyped empty dict literal (annotate the variable)")
        mk, has, val = self.dct(recv)
        kt, vt = recv.ty.args
        if name == "get":
            k = self.coerce(args[0], kt, line).term
            got = SV(z3.Select(val(recv.term), k), vt)
            present = z3.Select(has(recv.term), k)
            d = args[1] if len(args) > 1 else kwargs.get("default", SV(None, T.NONE))
            if isinstance(d, SV) and d.ty.kind == "none":
                ot = T.Opt(vt)
                return SV(z3.If(present, self.coerce(got, ot).term, self.coerce(d, ot).term), ot)
            d = self.coerce(d, vt, line) if not (isinstance(d, SV) and d.term is None) else self.coerce(d, vt, line)
            return SV(z3.If(present, got.term, d.term), vt)
        if name == "setdefault":
            k = self.coerce(args[0], kt, line).term
            d = self.coerce(args[1] if len(args) > 1 else SV(None, T.NONE), vt, line)
            present = z3.Select(has(recv.term), k)
            newv = z3.If(present, z3.Select(val(recv.term), k), d.term)
            new = SV(mk(z3.Store(has(recv.term), k, True), z3.Store(val(recv.term), k, newv)), recv.ty)
            self.mutate(recv, new, line)
            ref = recv.ref.ext(("k", k)) if recv.ref else None
            return SV(newv, vt, ref=ref, fresh=recv.fresh and ref is None)
        if name == "pop":
            k = self.coerce(args[0], kt, line).term
            present = z3.Select(has(recv.term), k)
            got = SV(z3.Select(val(recv.term), k), vt)
            if len(args) > 1:
                d = args[1]
                if isinstance(d, SV) and d.ty.kind == "none":
                    ot = T.Opt(vt)
                    ret = SV(z3.If(present, self.coerce(got, ot).term, self.coerce(d, ot).term), ot)
                else:
                    ret = SV(z3.If(present, got.term, self.coerce(d, vt, line).term), vt)
            else:
                self.safety(present, "KeyError:pop", line)
                ret = got
            retc = self.fresh_value(ret.ty, "dpop")
            self.st.pc.append(retc.term == ret.term)
            new = SV(mk(z3.Store(has(recv.term), k, False), val(recv.term)), recv.ty)
            self.mutate(recv, new, line)
            return retc
        if name == "clear":
            self.mutate(recv, SV(mk(z3.K(self.w.sort(kt), z3.BoolVal(False)), val(recv.term)), recv.ty), line)
            return SV(None, T.NONE)
        if name == "copy":
            return SV(recv.term, recv.ty, fresh=True)
        if name == "update":
            o = args[0]
            if isinstance(o, SV) and o.term is None:
                return SV(None, T.NONE)
            o = self.coerce(o, recv.ty, line)
            k = z3.Const(f"uk{next(_cc)}", self.w.sort(kt))
            nh = z3.Lambda([k], z3.Or(z3.Select(has(recv.term), k), z3.Select(has(o.term), k)))
            nv = z3.Lambda([k], z3.If(z3.Select(has(o.term), k), z3.Select(val(o.term), k), z3.Select(val(recv.term), k)))
            self.mutate(recv, SV(mk(nh, nv), recv.ty), line)
            return SV(None, T.NONE)
        raise Unsupported(f"dict.{name} (line {line})")

    def set_method(self, recv: SV, name, args, kwargs, line):
        if name == "add":
            x = args[0]
            if recv.term is None:
                t = T.Set(x.ty)
                base = z3.K(self.w.sort(x.ty), z3.BoolVal(False))
                if recv.ref is not None and not recv.ref.path:
                    self.st.cells[recv.ref.cell] = SV(z3.Store(base, x.term, True), t)
                    return SV(None, T.NONE)
                raise Unsupported("add on untyped empty set")
            x = self.coerce(x, recv.ty.args[0], line)
            self.mutate(recv, SV(z3.Store(recv.term, x.term, True), recv.ty), line)
            return SV(None, T.NONE)
        if name == "update":
            o = args[0]
            if isinstance(o, LazySeq):
                o = self.materialize(LazySeq(o.source, o.target, o.conds, o.elt, o.env, "set", o.module))
            if not (isinstance(o, SV) and o.ty.kind == "set"):
                raise Unsupported(f"set.update with {type(o).__name__} (line {line})")
            if o.term is None:
                return SV(None, T.NONE)
            if recv.term is None:
                if recv.ref is not None and not recv.ref.path:
                    self.st.cells[recv.ref.cell] = SV(o.term, o.ty)
                    return SV(None, T.NONE)
                raise Unsupported("update on untyped empty set")
            o = self.coerce(o, recv.ty, line)
            x = z3.Const(f"su{next(_cc)}", self.w.sort(recv.ty.args[0]))
            self.mutate(recv, SV(z3.Lambda([x], z3.Or(z3.Select(recv.term, x), z3.Select(o.term, x))), recv.ty), line)
            return SV(None, T.NONE)
        if name in ("discard", "remove"):
            if recv.term is None:
                return SV(None, T.NONE)
            x = self.coerce(args[0], recv.ty.args[0], line)
            if name == "remove":
                self.safety(z3.Select(recv.term, x.term), "KeyError:set.remove", line)
            self.mutate(recv, SV(z3.Store(recv.term, x.term, False), recv.ty), line)
            return SV(None, T.NONE)
        if name == "clear":
            if recv.term is None:
                return SV(None, T.NONE)
            self.mutate(recv, SV(z3.K(self.w.sort(recv.ty.args[0]), z3.BoolVal(False)), recv.ty), line)
            return SV(None, T.NONE)
        raise Unsupported(f"set.{name} (line {line})")

    def str_method(self, recv: SV, name, args, kwargs, line):
        a = []
        for x in args:
            if isinstance(x, LazySeq):
                x = self.materialize(x)
            if isinstance(x, PyTuple):
                x = self.coerce(x, T.List(T.STR))
            if not isinstance(x, SV):
                raise Unsupported(f"str.{name} argument")
            if x.term is None and x.ty.kind == "list":
                x = self.empty_list(T.STR)
            a.append(x)
        rt = {"join": T.STR, "lower": T.STR, "upper": T.STR, "strip": T.STR, "startswith": T.BOOL,
              "endswith": T.BOOL, "encode": T.STR, "format": T.STR, "replace": T.STR, "lstrip": T.STR,
              "rstrip": T.STR, "isalnum": T.BOOL, "isdigit": T.BOOL, "split": T.List(T.STR),
              "rsplit": T.List(T.STR), "hexdigest": T.STR, "decode": T.STR, "isalpha": T.BOOL}.get(name)
        if rt is None:
            raise Unsupported(f"str.{name} (line {line})")
        f = self.w.func(f"str.{name}/{len(a)}<{','.join(str(x.term.sort()) for x in a)}>", self.w.StrSort,
                        *[x.term.sort() for x in a], self.w.sort(rt))
        return SV(f(recv.term, *[x.term for x in a]), rt)

    # ------------------------------------------------- opaque / module calls
    def call_opaque(self, recv: SV, name, args, kwargs, node):
        line = node.lineno
        spec = self.specs.opaque_method(recv.ty.name, name)
        if spec is None:
            raise Unsupported(f"call of undeclared opaque method {recv.ty.name}.{name} (line {line})")
        if spec.get("log"):
            # an effectful call on a collaborator: recorded in the path's call log (ghost state the contract can
            # talk about: calls(obj, "m"), call_kw(obj, "m", k, "name"), call_pos(...), call_seq(...))
            if self.frames and self.frames[0].loop_ctx:
                raise Unsupported(f"logged call {recv.ty.name}.{name} inside a loop (line {line})")
            log = self.st.__dict__.setdefault("call_log", [])
            log.append({"recv": recv.term, "ty": recv.ty.name, "method": name,
                        "args": [a if isinstance(a, SV) else None for a in args],
                        "kwargs": {k_: (v_ if isinstance(v_, SV) else None) for k_, v_ in kwargs.items()},
                        "line": line})
        return self.apply_opaque(spec, recv, name, args, kwargs, line)

    def apply_opaque(self, spec, recv, name, args, kwargs, line):
        """spec: dict(ret=Ty, may_raise=bool, pure=bool, args=int)"""
        rt = spec["ret"]
        if spec.get("arg_types"):
            # declared parameter types: e.g. an Optional argument that the code has just tested is passed as its
            # value (the coercion obliges `is not None` under the current guards)
            args = [self.coerce(a, t, line) if isinstance(a, SV) and a.term is not None else a
                    for a, t in zip(args, spec["arg_types"])] + list(args[len(spec["arg_types"]):])
        if spec.get("may_raise"):
            if self.in_pure_mode():
                pass  # exceptions inside comprehension elements are not modelled (DESIGN assumption)
            elif self.choose(2, f"ucall@{line}:") == 1:
                e = SV(self.w.fresh(T.EXC, "user_exc"), T.EXC)
                raise RaiseSignal(e, None, line)
        if rt.kind == "none":
            return SV(None, T.NONE)
        if spec.get("pure"):
            av = []
            for x in list(args) + [kwargs[k] for k in sorted(kwargs)]:
                if isinstance(x, BoundMethod) and isinstance(x.recv, SV) and x.recv.term is not None:
                    x = x.recv  # a bound method of a value: the value identifies it
                if isinstance(x, (ModuleRef, ClassRef)):
                    continue  # library constants (timezone.utc, ...) do not vary
                if isinstance(x, SV) and x.term is not None:
                    av.append(x.term)
                elif isinstance(x, SV) and x.ty.kind == "none":
                    continue
                else:
                    raise Unsupported(f"opaque pure call {name}: non-value argument")
            rs = [recv.term] if recv is not None else []
            tag = recv.ty.name if recv is not None else "mod"
            kws = ",".join(sorted(kwargs))
            f = self.w.func(f"call<{tag}.{name}({kws})/{','.join(str(x.sort()) for x in av)}>",
                            *[x.sort() for x in rs + av], self.w.sort(rt))
            out = SV(f(*(rs + av)), rt)
        else:
            out = self.fresh_value(rt, f"{name}.ret")
        if spec.get("post"):
            # assumed library contract, e.g. random.uniform(a, b) lies in [a, b]
            pfn = self.specs.fns[spec["post"]]
            self.side_fact(self.truthy(self.call_specfn(pfn, list(args) + [out], {}, line)))
        return out

    def call_module_fn(self, fq: str, args, kwargs, node):
        line = node.lineno
        if fq in ("dataclasses.replace",):
            return self.bi_replace(node)
        if fq in ("dataclasses.field",):
            return self.bi_field(node)
        spec = self.specs.module_fn(fq, next((fr_.module for fr_ in reversed(self.frames) if fr_.module), None))
        if spec is None and fq.split(".")[-1] in ("TimeoutError", "CancelledError") and fq.startswith("asyncio."):
            # asyncio.TimeoutError is the builtin TimeoutError (python >= 3.11)
            return self.construct(ClassRef(fq.split(".")[-1], None), args, kwargs, node)
        if spec is None:
            raise Unsupported(f"call of undeclared library function {fq} (line {line})")
        if "handler" in spec:
            return spec["handler"](self, args, kwargs, node)
        return self.apply_opaque(spec, None, fq, args, kwargs, line)
