"""Sidecar contracts: loading of spec modules (by AST) and their symbolic evaluation (mixin of Engine)."""
from __future__ import annotations

import ast
import itertools
import os
from dataclasses import dataclass, field

import z3

from . import ty as T
from .sorts import Unsupported, World
from .values import (
    SV, BoundMethod, ClassRef, Closure, DictView, FuncRef, LazySeq, ModuleRef, Namespace, PathEnd, PyTuple,
    RangeV, Ref, ReturnSignal,
)

_qc = itertools.count(1)

DSL_NAMES = {"forall", "exists", "forall_range", "exists_range", "forall_keys", "exists_key", "forall_int",
             "forall_of", "exists_of", "implies", "iff", "ite", "same", "type_is", "old", "pre", "dpos", "dpos_exact", "dsize",
             "opt_val", "str_of_int", "type_name", "str_of_type", "result_is_fresh", "uf", "fpow", "exc_arg", "calls", "call_kw", "call_pos", "call_seq",
             "fcalls", "fcall_pos", "fcall_ret", "tcalls", "tcall_recv", "tcall_pos"}


def _mentions_any(t) -> bool:
    if t == T.ANY:
        return True
    return any(_mentions_any(a) for a in t.args if isinstance(a, T.Ty))


def _const_eval(node):
    """literal_eval that also accepts dict(key=value, ...)"""
    if isinstance(node, ast.Call) and isinstance(node.func, ast.Name) and node.func.id == "dict" and not node.args:
        return {kw.arg: _const_eval(kw.value) for kw in node.keywords}
    if isinstance(node, ast.Dict):
        return {_const_eval(k): _const_eval(v) for k, v in zip(node.keys, node.values)}
    if isinstance(node, (ast.List, ast.Tuple)):
        vals = [_const_eval(e) for e in node.elts]
        return vals if isinstance(node, ast.List) else tuple(vals)
    return ast.literal_eval(node)


@dataclass
class SpecFn:
    name: str
    node: ast.FunctionDef
    module: str  # spec module name


@dataclass
class Contract:
    fq: str
    name: str
    spec_module: str
    target_module: str | None = None
    requires: object = None
    ensures: dict = field(default_factory=dict)
    modifies: list = field(default_factory=list)
    raises: dict = field(default_factory=dict)  # exc class name -> SpecFn | None (condition over old state)
    loop_inv: dict = field(default_factory=dict)
    param_types: dict = field(default_factory=dict)
    local_types: dict = field(default_factory=dict)
    only_kinds: list = field(default_factory=list)  # variant contracts: obligation kinds this contract is about
    inherits: str | None = None  # class name of the contract whose requires / invariants / raises are taken over
    public_io_only: bool = False  # the native generator feeds only the function's public inputs and the clauses read
    # only its public result: a native counterexample counts even when the symbolic side cannot decide the function
    extras: dict = field(default_factory=dict)  # requires_extra / inv_extra_<k> of a variant
    ret_type: T.Ty | None = None
    inline: bool = False
    trusted: bool = False
    raised: dict = field(default_factory=dict)  # exc class -> {clause name: SpecFn}: postconditions of raising exits
    assumes: dict = field(default_factory=dict)  # extra assumptions (lemma instances) at entry: name -> SpecFn
    frame_exempt: list = field(default_factory=list)
    properties: list = field(default_factory=list)
    clause_props: dict = field(default_factory=dict)  # clause -> [property ids]
    notes: str = ""


class SpecSet:
    def __init__(self, world_factory=None):
        self.contracts: dict[str, Contract] = {}
        self.fns: dict[str, SpecFn] = {}
        self.inline: set[str] = set()
        self.field_types_src: dict = {}
        self.plain_classes_src: dict = {}
        self.opaque_methods_src: dict = {}
        self.opaque_attrs_src: dict = {}
        self.module_fns_src: dict = {}
        self.event_fields_src: dict = {}
        self.lock_types: set[str] = {"Lock", "asyncio.Lock"}
        self.frozen_write_ok: set[str] = set()
        self.extra_subclass: dict = {}
        self.self_types: dict = {}
        self.modules: list[str] = []
        self.default_module: dict[str, str] = {}
        self.assumption_scan: list[str] = []
        self.w: World | None = None
        self._event_fields: dict[str, T.Ty] = {}
        self._opaque_methods: dict = {}
        self._opaque_attrs: dict = {}
        self._module_fns: dict = {}
        self.handlers: dict = {}
        self.logged_functions: set = set()  # contracted functions whose calls are recorded in the ghost call log
        self.opaque_globals: dict = {}  # module-level objects of library types (e.g. a pydantic TypeAdapter): name -> type
        # postconditions recorded as known findings are FALSE on the current tree: a caller must never assume them
        self.unproved: set = set()
        import json as _json
        kf = os.path.join(os.path.dirname(os.path.dirname(os.path.abspath(__file__))), "KNOWN_FINDINGS.jsonl")
        if os.path.exists(kf):
            for ln in open(kf):
                ln = ln.strip()
                if ln and not ln.startswith("#"):
                    d = _json.loads(ln)
                    if d.get("kind") == "finding" and d.get("function") and d.get("clause"):
                        self.unproved.add((d["function"], d["clause"]))

    # ---------------------------------------------------------------- load
    def load(self, path: str):
        with open(path, encoding="utf-8") as f:
            text = f.read()
        tree = ast.parse(text, filename=path)
        modname = os.path.splitext(os.path.basename(path))[0]
        self.modules.append(modname)
        consts = {}
        for st in tree.body:
            if isinstance(st, ast.Assign) and len(st.targets) == 1 and isinstance(st.targets[0], ast.Name):
                try:
                    consts[st.targets[0].id] = _const_eval(st.value)
                except Exception:
                    if st.targets[0].id.isupper():
                        raise Unsupported(f"{path}: configuration constant {st.targets[0].id} is not a literal")
            elif isinstance(st, ast.FunctionDef):
                if st.name in self.fns and self.fns[st.name].module != modname:
                    # spec helpers share one namespace: a silent override would change other contracts' meaning
                    raise Unsupported(f"{path}: spec function '{st.name}' is already defined in "
                                      f"{self.fns[st.name].module}.py")
                self.fns[st.name] = SpecFn(st.name, st, modname)
            elif isinstance(st, ast.ClassDef):
                self._load_contract(st, modname, consts)
        self.default_module[modname] = consts.get("MODULE", "")
        self.field_types_src.update(consts.get("FIELD_TYPES", {}))
        self.plain_classes_src.update(consts.get("PLAIN_CLASSES", {}))
        self.opaque_methods_src.update(consts.get("OPAQUE_METHODS", {}))
        self.opaque_attrs_src.update(consts.get("OPAQUE_ATTRS", {}))
        for fq_, sp_ in consts.get("MODULE_FNS", {}).items():
            # library functions are declared per target module (the MODULE of the spec file): two spec files may
            # model the same library call differently for the code they are about; the unscoped key is a fallback
            self.module_fns_src[(consts.get("MODULE", ""), fq_)] = sp_
            self.module_fns_src.setdefault(fq_, sp_)
        self.event_fields_src.update(consts.get("EVENT_FIELDS", {}))
        self.inline.update(consts.get("INLINE", []))
        self.opaque_globals.update(consts.get("OPAQUE_GLOBALS", {}))
        # repository classes whose instances are library-like collaborators of the function under contract: the
        # constructor call yields one fresh opaque object (its __init__ is NOT executed), methods via OPAQUE_METHODS
        self.__dict__.setdefault("opaque_ctors", set()).update(consts.get("OPAQUE_CTORS", []))
        self.logged_functions.update(consts.get("LOGGED_FUNCTIONS", []))
        self.lock_types.update(consts.get("LOCK_TYPES", []))
        self.frozen_write_ok.update(consts.get("FROZEN_WRITE_OK", []))
        self.extra_subclass.update(consts.get("EXTRA_SUBCLASS", {}))
        self.self_types.update(consts.get("SELF_TYPES", {}))
        for kw in ("assume", "trusted", "axiom", "inline"):
            for i, ln in enumerate(text.splitlines(), 1):
                s = ln.strip()
                if s.startswith("#"):
                    continue
                if (kw + " =" in s or kw + "=" in s or s.startswith(kw.upper())) and kw in s.lower():
                    self.assumption_scan.append(f"{modname}.py:{i}: {s[:140]}")

    def _load_contract(self, node: ast.ClassDef, modname: str, consts: dict):
        fq = None
        for d in node.decorator_list:
            if isinstance(d, ast.Call) and ast.unparse(d.func) == "contract":
                fq = ast.literal_eval(d.args[0])
                for kw in d.keywords:
                    if kw.arg == "variant":
                        # a second contract on the same function (a stronger precondition, its own clauses): verified
                        # on its own, never used at call sites (those use the plain contract of the function)
                        fq = f"{fq}@{ast.literal_eval(kw.value)}"
        if fq is None:
            return
        c = Contract(fq=fq, name=node.name, spec_module=modname)
        for st in node.body:
            if isinstance(st, ast.Assign) and len(st.targets) == 1 and isinstance(st.targets[0], ast.Name):
                k = st.targets[0].id
                v = ast.literal_eval(st.value)
                if k == "modifies":
                    c.modifies = list(v)
                elif k == "raises":
                    if isinstance(v, (list, tuple)):
                        c.raises = {x: None for x in v}
                    else:
                        c.raises = {x: y for x, y in v.items()}
                elif k == "inline":
                    c.inline = bool(v)
                elif k == "trusted":
                    c.trusted = bool(v)
                elif k == "param_types":
                    c.param_types = dict(v)
                elif k == "local_types":
                    c.local_types = dict(v)
                elif k == "only_kinds":
                    c.only_kinds = list(v)
                elif k == "inherits":
                    c.inherits = v
                elif k == "public_io_only":
                    c.public_io_only = bool(v)
                elif k == "ret_type":
                    c.ret_type = v
                elif k == "module":
                    c.target_module = v
                elif k == "frame_exempt":
                    c.frame_exempt = list(v)
                elif k == "properties":
                    c.properties = list(v)
                elif k == "clause_props":
                    c.clause_props = dict(v)
                elif k == "notes":
                    c.notes = v
            elif isinstance(st, ast.FunctionDef):
                fn = SpecFn(f"{node.name}.{st.name}", st, modname)
                if st.name == "requires":
                    c.requires = fn
                elif st.name.startswith("ensures"):
                    c.ensures[st.name] = fn
                elif st.name == "requires_extra":
                    c.extras["requires"] = fn
                elif st.name.startswith("inv_extra_"):
                    c.extras[int(st.name[10:])] = fn
                elif st.name.startswith("inv_"):
                    c.loop_inv[int(st.name[4:])] = fn
                elif st.name.startswith("raises_"):
                    c.raises[st.name[7:]] = fn
                elif st.name.startswith("raised_"):
                    # postcondition of an exceptional exit: raised_<Exc>(old, <params>, exc)
                    c.raised.setdefault(st.name.split("_")[1], {})[st.name] = fn
                elif st.name.startswith("assume_"):
                    c.assumes[st.name] = fn
        for k, v in list(c.raises.items()):
            if isinstance(v, str):
                c.raises[k] = None
        self.contracts[fq] = c

    # ------------------------------------------------------------- binding
    def bind_world(self, w: World):
        self.w = w
        mod = "workflows.runtime.control_loop"

        def ty(s, m=None):
            if isinstance(s, T.Ty):
                return s
            if s.startswith("opaque:") and s[7:].isidentifier():
                return T.Opaque(s[7:])
            s = s.replace("opaque:", "Opaque__")
            node = ast.parse(s, mode="eval").body
            # a type name is looked up in the module each spec file declares (MODULE = ...)
            cands = [m] if m else [x for x in dict.fromkeys(self.default_module.values()) if x] + [mod]
            best = None
            for cm in cands:
                r = w.resolve_ann(node, cm)
                if best is None:
                    best = r
                if not _mentions_any(r):
                    return r
            return best

        for (cls, fld), s in self.field_types_src.items():
            w.field_types[(cls, fld)] = ty(s)
        for cls, fs in self.plain_classes_src.items():
            w.plain_classes[cls] = [(f, None) for f, _ in fs if f != "*"]
        for cls, fs in self.plain_classes_src.items():
            out_ = [(f, ty(s)) for f, s in fs if f != "*"]
            if any(f == "*" for f, _ in fs):
                # ("*", "init-annotated"): every `self.x: T = ...` of the real class's __init__ that the spec does
                # not declare is a field too (so a field a change adds is seen, with the type the code gives it)
                ci_ = None
                for m_ in dict.fromkeys(self.default_module.values()):
                    try:
                        if m_ and cls in w.repo.module(m_).classes:
                            ci_ = w.repo.module(m_).classes[cls]
                            break
                    except Exception:
                        continue
                init_ = ci_.methods.get("__init__") if ci_ is not None else None
                have_ = {f for f, _ in out_}
                for n_ in (ast.walk(init_.node) if init_ is not None else ()):
                    if isinstance(n_, ast.AnnAssign) and isinstance(n_.target, ast.Attribute) \
                            and isinstance(n_.target.value, ast.Name) and n_.target.value.id == "self" \
                            and n_.target.attr not in have_:
                        try:
                            t_ = w.resolve_ann(n_.annotation, ci_.module)
                        except Exception:
                            continue
                        if not _mentions_any(t_):
                            out_.append((n_.target.attr, t_))
                            have_.add(n_.target.attr)
            w.plain_classes[cls] = out_
        for k, s in self.event_fields_src.items():
            self._event_fields[k] = ty(s)
        for (tn, m_), spec in self.opaque_methods_src.items():
            d = dict(spec)
            d["ret"] = ty(d.get("ret", "None"))
            if "arg_types" in d:
                d["arg_types"] = [ty(a) for a in d["arg_types"]]
            self._opaque_methods[(tn, m_)] = d
        for (tn, a), s in self.opaque_attrs_src.items():
            self._opaque_attrs[(tn, a)] = ("field", ty(s))
        for fq, spec in self.module_fns_src.items():
            d = dict(spec)
            d["ret"] = ty(d.get("ret", "None"))
            self._module_fns[fq] = d
        w.extra_subclass.update(self.extra_subclass)
        for c in self.contracts.values():
            if c.inherits:
                base = next((b for b in self.contracts.values() if b.name == c.inherits), None)
                if base is None:
                    raise Unsupported(f"contract {c.name} inherits from unknown contract {c.inherits}")
                c.requires = [base.requires, c.extras.get("requires")]
                for k_, inv_ in base.loop_inv.items():
                    c.loop_inv[k_] = [inv_, c.extras.get(k_)]
                if not c.raises:
                    c.raises = dict(base.raises)
                if not c.modifies:
                    c.modifies = list(base.modifies)
                if not c.param_types:
                    c.param_types = dict(base.param_types)
                if c.ret_type is None:
                    c.ret_type = base.ret_type
                c.assumes = {**base.assumes, **c.assumes}
        for c in self.contracts.values():
            c.param_types = {k: ty(v) for k, v in c.param_types.items()}
            c.local_types = {k: ty(v) for k, v in c.local_types.items()}
            if c.ret_type is not None:
                c.ret_type = ty(c.ret_type)

    # ------------------------------------------------------------- queries
    def lookup_name(self, name: str):
        if name in self.fns:
            return self.fns[name]
        if name in DSL_NAMES:
            return FuncRef("dsl." + name)
        return None

    def contract(self, fq: str | None):
        return self.contracts.get(fq) if fq else None

    def may_inline(self, fq: str) -> bool:
        return fq in self.inline

    def opaque_attr(self, tyname, attr):
        if (tyname, attr) in self._opaque_attrs:
            return self._opaque_attrs[(tyname, attr)]
        if (tyname, attr) in self._opaque_methods:
            return ("method", None)
        return None

    def opaque_method(self, tyname, name):
        return self._opaque_methods.get((tyname, name))

    def opaque_item(self, tyname):
        return None

    def opaque_ctor(self, name):
        return True if name in self.__dict__.get("opaque_ctors", ()) else None

    def event_field(self, name):
        return self._event_fields.get(name)

    def register_event_field(self, name, t):
        self._event_fields[name] = t

    def self_type(self, fi):
        s = self.self_types.get(fi.cls)
        if s is None:
            return None
        return self.w.resolve_ann(ast.parse(s, mode="eval").body, fi.module)

    def module_fn(self, fq, module=None):
        if fq in self.handlers:
            return {"handler": self.handlers[fq]}
        if module is not None and (module, fq) in self._module_fns:
            return self._module_fns[(module, fq)]
        return self._module_fns.get(fq)

    def allow_frozen_write(self, cls):
        return cls in self.frozen_write_ok

    def is_lock_type(self, name):
        return name in self.lock_types


def auto_patterns(vars_, body):
    """pick trigger terms: minimal uninterpreted applications / selects that mention the bound variables"""
    vset = {v.get_id() for v in vars_}
    cands = []
    seen = set()

    def mentions(e):
        out = set()
        stack = [e]
        while stack:
            x = stack.pop()
            if x.get_id() in vset:
                out.add(x.get_id())
            if z3.is_app(x):
                stack.extend(x.children())
        return out

    def ok_head(e):
        if not z3.is_app(e) or e.num_args() == 0:
            return False
        k = e.decl().kind()
        return k in (z3.Z3_OP_SELECT, z3.Z3_OP_UNINTERPRETED, z3.Z3_OP_DT_ACCESSOR)

    def clean(e):
        # no interpreted arithmetic / boolean structure inside a pattern
        stack = [e]
        while stack:
            x = stack.pop()
            if z3.is_quantifier(x) or z3.is_var(x):
                return False
            if z3.is_app(x):
                k = x.decl().kind()
                if x.num_args() > 0 and k not in (z3.Z3_OP_SELECT, z3.Z3_OP_UNINTERPRETED, z3.Z3_OP_DT_ACCESSOR,
                                                  z3.Z3_OP_DT_CONSTRUCTOR):
                    return False
                stack.extend(x.children())
        return True

    def walk(e):
        if e.get_id() in seen:
            return
        seen.add(e.get_id())
        if z3.is_quantifier(e):
            walk(e.body())
            return
        if z3.is_app(e):
            if ok_head(e) and e.decl().kind() != z3.Z3_OP_DT_ACCESSOR:
                m = mentions(e)
                if m and clean(e):
                    cands.append((e, m))
            for ch in e.children():
                walk(ch)

    walk(body)
    if not cands:
        return None
    # minimal terms first
    cands.sort(key=lambda c: len(c[0].sexpr()))
    full = [c for c in cands if c[1] == vset]
    if full:
        # every *minimal* candidate (no other candidate inside it) is an alternative trigger: an instance is
        # produced whenever any one of them occurs in the ground context
        def contains(big, small):
            stack = [big]
            sid = small.get_id()
            while stack:
                x = stack.pop()
                if x.get_id() == sid:
                    return True
                if z3.is_app(x):
                    stack.extend(x.children())
            return False

        pats = []
        for e, _ in full:
            if any(z3.eq(e, p) for p in pats):
                continue
            if any(contains(e, p) for p in pats):
                continue
            pats.append(e)
            if len(pats) >= 6:
                break
        return pats
    chosen, covered = [], set()
    for e, m in cands:
        if not m <= covered:
            chosen.append(e)
            covered |= m
        if covered == vset:
            return [z3.MultiPattern(*chosen)] if len(chosen) > 1 else chosen
    return None


def mk_quant(kind, vars_, body, pats=None, qid=""):
    q = z3.ForAll if kind == "forall" else z3.Exists
    if pats:
        try:
            return q(vars_, body, patterns=pats, qid=qid)
        except z3.Z3Exception:
            pass  # a candidate trigger was rejected by z3: let it choose
    return q(vars_, body, qid=qid)


class DslMixin:
    # ----------------------------------------------------------- evaluate
    def eval_spec(self, fn: SpecFn, bindings: dict | None, c: Contract | None):
        """evaluate a spec function to a z3 Bool.  bindings=None: evaluate in the current code frame
        (loop invariants)."""
        from .symex import Frame
        if isinstance(fn, (list, tuple)):
            # several clauses that are to hold together (an inherited invariant plus the variant's own addition)
            return z3.And(*[self.eval_spec(f_, bindings, c) for f_ in fn if f_ is not None])
        self.spec_mode += 1
        target_mod = None
        if c is not None:
            target_mod = c.target_module or self.specs.default_module.get(c.spec_module) or \
                self.w.repo.function(c.fq).module
        pushed = False
        if bindings is not None:
            self.frames.append(Frame(target_mod or (self.frames[-1].module if self.frames else None), fn.name))
            pushed = True
            saved_env = self.st.env
            pnames = [a.arg for a in fn.node.args.args]
            env = {}
            for p in pnames:
                if p not in bindings:
                    raise Unsupported(f"spec function {fn.name}: parameter '{p}' has no binding")
                env[p] = bindings[p]
            self.st.env = env
        try:
            v = self.eval_pure_body(fn.node.body)
            return self.truthy(v)
        finally:
            if pushed:
                self.frames.pop()
                self.st.env = saved_env
            self.spec_mode -= 1

    def call_specfn(self, fn: SpecFn, args, kwargs, line):
        pnames = [a.arg for a in fn.node.args.args]
        if len(args) > len(pnames):
            raise Unsupported(f"too many args to spec function {fn.name}")
        env = dict(zip(pnames, args))
        env.update(kwargs)
        defaults = dict(zip(pnames[len(pnames) - len(fn.node.args.defaults):], fn.node.args.defaults))
        for p in pnames:
            if p not in env:
                if p in defaults:
                    env[p] = self.ev(defaults[p])
                else:
                    raise Unsupported(f"spec function {fn.name}: missing argument {p} (line {line})")
        if all(a.annotation is not None for a in fn.node.args.args) and fn.node.args.args:
            return self.call_defined(fn, [env[p] for p in pnames], line)
        saved = self.st.env
        self.st.env = {k: (self._bindable(v) if self.spec_mode == 0 else v) for k, v in env.items()}
        self.spec_mode += 1
        try:
            return self.eval_pure_body(fn.node.body)
        finally:
            self.spec_mode -= 1
            self.st.env = saved

    def call_defined(self, fn: SpecFn, args, line):
        """A spec function whose parameters are all type-annotated is *opaque*: it becomes an uninterpreted
        function with one definitional axiom  forall params. f(params) == body  (trigger: the application).
        Big formulas then mention atoms, and the solver unfolds a definition only where an application occurs."""
        from .symex import Frame
        key = f"def:{fn.name}"
        defined = self.w.__dict__.setdefault("defined", {})
        if key not in defined:
            mod = self.specs.default_module.get(fn.module) or (self.frames[-1].module if self.frames else None)

            def ann_ty(a):
                node = a
                if isinstance(node, ast.Constant) and isinstance(node.value, str):
                    node = ast.parse(node.value, mode="eval").body
                best = self.w.resolve_ann(node, mod)
                if _mentions_any(best):
                    # the name may live in another module of the repository than the spec's MODULE
                    for m2 in list(self.specs.default_module.values()) + list(self.w.repo.modules):
                        if m2 and m2 != mod:
                            r = self.w.resolve_ann(node, m2)
                            if not _mentions_any(r):
                                return r
                return best

            ptys = [ann_ty(a.annotation) for a in fn.node.args.args]
            rty = ann_ty(fn.node.returns) if fn.node.returns is not None else T.BOOL
            f = z3.Function(key, *[self.w.sort(t) for t in ptys], self.w.sort(rty))
            defined[key] = (f, ptys, rty)
            vs = [z3.Const(f"{fn.name}.{a.arg}", self.w.sort(t)) for a, t in zip(fn.node.args.args, ptys)]
            saved = (self.st.env, self.binders, self.facts, self.spec_mode, self.frames)
            self.st.env = {a.arg: SV(v, t) for a, v, t in zip(fn.node.args.args, vs, ptys)}
            self.binders, self.facts, self.spec_mode = [], None, 1
            self.frames = list(self.frames) + [Frame(mod, fn.name)]
            try:
                with self.binder(vs, []) as bfacts:
                    body = self.eval_pure_body(fn.node.body)
                    if rty == T.BOOL:
                        bterm = self.truthy(body)
                    else:
                        bterm = self.coerce(body, rty, line).term
                    bfacts = list(bfacts)
            finally:
                self.st.env, self.binders, self.facts, self.spec_mode, self.frames = saved
            self.w.axioms.append(z3.ForAll(vs, f(*vs) == bterm, patterns=[f(*vs)], qid=key))
            # Side facts produced while evaluating the body (lengths are non-negative, iteration-order axioms of a
            # dict parameter, ...) are NOT valid for every value of the parameter sorts (the list / dict sorts also
            # contain ill-formed values, e.g. a negative length): they are re-stated for the actual arguments at each
            # application instead.  Facts that mention a constant created while evaluating the body (a name given to
            # an intermediate term) do not transfer and are dropped.
            ok_ids = {v.get_id() for v in vs}

            def closed_over_params(e):
                stack, seen = [e], set()
                while stack:
                    x = stack.pop()
                    if x.get_id() in seen:
                        continue
                    seen.add(x.get_id())
                    if z3.is_quantifier(x):
                        stack.append(x.body())
                    elif z3.is_app(x):
                        if x.num_args() == 0 and x.decl().kind() == z3.Z3_OP_UNINTERPRETED \
                                and x.get_id() not in ok_ids and not x.decl().name().startswith(("str:", "T:")):
                            return False
                        stack.extend(x.children())
                return True

            defined[key] = (f, ptys, rty, vs, [bf for bf in bfacts if closed_over_params(bf)])
        f, ptys, rty = defined[key][:3]
        av = []
        for a, t in zip(args, ptys):
            if isinstance(a, LazySeq):
                a = self.materialize(a)
            av.append(self.coerce(a, t, line).term)
        if len(defined[key]) > 3:
            for bf in defined[key][4]:
                self.side_fact(z3.substitute(bf, *list(zip(defined[key][3], av))))
        return SV(f(*av), rty)

    def eval_pure_body(self, stmts):
        """straight-line assignments, if/else returning values, final return  ->  value (ite-merged)"""
        for idx, st in enumerate(stmts):
            if isinstance(st, ast.Expr) and isinstance(st.value, ast.Constant):
                continue
            if isinstance(st, ast.Assign):
                v = self.ev(st.value)
                for t in st.targets:
                    if isinstance(t, ast.Name):
                        self.st.env[t.id] = v
                    elif isinstance(t, ast.Tuple) and isinstance(v, PyTuple):
                        for tt, vv in zip(t.elts, v.items):
                            self.st.env[tt.id] = vv
                    else:
                        raise Unsupported("assignment target in spec function")
                continue
            if isinstance(st, ast.Return):
                return self.ev(st.value)
            if isinstance(st, ast.If):
                c = self.truthy(self.ev(st.test))
                saved = dict(self.st.env)
                rest = stmts[idx + 1:]
                a = self.eval_pure_body(list(st.body) + rest)
                self.st.env = dict(saved)
                b = self.eval_pure_body(list(st.orelse or []) + rest)
                self.st.env = saved
                if isinstance(a, SV) and isinstance(b, SV) and a.ty.kind == "bool" and b.ty.kind == "bool":
                    return SV(z3.If(c, a.term, b.term), T.BOOL)
                return self._select(c, a, b, st.lineno)
            raise Unsupported(f"statement {type(st).__name__} in a spec function (line {st.lineno})")
        raise Unsupported("spec function without return")

    def _ends_in_return(self, body):
        return bool(body) and isinstance(body[-1], ast.Return)

    # -------------------------------------------------------- quantifiers
    def quant(self, kind: str, var, guard, lam: Closure, arg_value, line):
        with self.binder([var], [guard] if guard is not None else []) as facts:
            with self.scope({lam.params[0]: arg_value}, lam.env):
                body = self.truthy(self.ev(lam.body))
            facts = list(facts)
        if facts:
            # type facts about the terms under the binder hold for every value of the bound variable in the
            # domain: they are asserted on their own (never as antecedents, which a hypothesis could not use)
            fb = z3.And(*facts)
            fq = z3.Implies(guard, fb) if guard is not None else fb
            fp = auto_patterns([var], fq)
            self.side_fact(mk_quant("forall", [var], fq, fp, "type-facts"))
        hyps = [guard] if guard is not None else []
        if kind == "forall":
            f = z3.Implies(z3.And(*hyps), body) if hyps else body
        else:
            f = z3.And(*hyps, body) if hyps else body
        pats = auto_patterns([var], f)
        qid = f"{self.frames[-1].fn_name if self.frames else ''}:{line}"
        return mk_quant(kind, [var], f, pats, qid)

    def _lam(self, node, idx):
        v = self.ev(node.args[idx])
        if not isinstance(v, Closure) or not v.is_lambda:
            raise Unsupported(f"quantifier body must be a lambda (line {node.lineno})")
        return v

    def call_dsl(self, name: str, node):
        line = node.lineno
        n = next(_qc)
        if name in ("forall", "exists"):
            hi = self.coerce(self.evv(node.args[0]), T.INT).term
            lam = self._lam(node, 1)
            i = z3.Const(f"{lam.params[0]}${len(self.binders)}",z3.IntSort())
            return SV(self.quant(name, i, z3.And(0 <= i, i < hi), lam, SV(i, T.INT), line), T.BOOL)
        if name in ("forall_range", "exists_range"):
            lo = self.coerce(self.evv(node.args[0]), T.INT).term
            hi = self.coerce(self.evv(node.args[1]), T.INT).term
            lam = self._lam(node, 2)
            i = z3.Const(f"{lam.params[0]}${len(self.binders)}",z3.IntSort())
            return SV(self.quant(name.split("_")[0], i, z3.And(lo <= i, i < hi), lam, SV(i, T.INT), line), T.BOOL)
        if name in ("forall_keys", "exists_key"):
            d = self.evv(node.args[0])
            lam = self._lam(node, 1)
            if d.ty.kind == "opt":
                d = self.coerce(d, d.ty.args[0], line)
            if d.ty.kind == "set":
                k = z3.Const(f"{lam.params[0]}${len(self.binders)}",self.w.sort(d.ty.args[0]))
                g = z3.Select(d.term, k)
                return SV(self.quant("forall" if name == "forall_keys" else "exists", k, g, lam, SV(k, d.ty.args[0]), line), T.BOOL)
            if d.ty.kind != "dict":
                raise Unsupported(f"{name} on {d.ty}")
            if d.term is None:
                return SV(z3.BoolVal(name == "forall_keys"), T.BOOL)
            k = z3.Const(f"{lam.params[0]}${len(self.binders)}",self.w.sort(d.ty.args[0]))
            _, has, _ = self.dct(d)
            g = z3.Select(has(d.term), k)
            return SV(self.quant("forall" if name == "forall_keys" else "exists", k, g, lam, SV(k, d.ty.args[0]), line), T.BOOL)
        if name == "forall_int":
            lam = self._lam(node, 0)
            i = z3.Const(f"{lam.params[0]}${len(self.binders)}",z3.IntSort())
            return SV(self.quant("forall", i, None, lam, SV(i, T.INT), line), T.BOOL)
        if name in ("forall_of", "exists_of"):
            tn = ast.literal_eval(node.args[0])
            t = self.w.resolve_ann(ast.parse(tn, mode="eval").body, self.frames[-1].module)
            lam = self._lam(node, 1)
            v = z3.Const(f"{lam.params[0]}${len(self.binders)}",self.w.sort(t))
            return SV(self.quant(name.split("_")[0], v, None, lam, SV(v, t), line), T.BOOL)
        if name == "implies":
            a = self.truthy(self.ev(node.args[0]))
            b = self.truthy(self.ev(node.args[1]))
            return SV(z3.Implies(a, b), T.BOOL)
        if name == "iff":
            return SV(self.truthy(self.ev(node.args[0])) == self.truthy(self.ev(node.args[1])), T.BOOL)
        if name == "ite":
            c = self.truthy(self.ev(node.args[0]))
            return self._select(c, self.ev(node.args[1]), self.ev(node.args[2]), line)
        if name == "same":
            a, b = self.evv(node.args[0]), self.evv(node.args[1])
            a, b, _ = self.unify(a, b, line)
            return SV(a.term == b.term, T.BOOL)
        if name == "type_is":
            v = self.evv(node.args[0])
            return SV(self.class_test(v, self.ev(node.args[1]), line, exact=True), T.BOOL)
        if name == "old":
            fr = self._code_frame()
            return self._eval_in(fr.old_env, fr.old_cells, node.args[0])
        if name == "pre":
            fr = self._code_frame()
            if not fr.loop_ctx:
                raise Unsupported("pre() outside a loop invariant")
            env, cells = fr.loop_ctx[-1]
            return self._eval_in(env, cells, node.args[0])
        if name in ("dpos", "dpos_exact"):
            d = self.evv(node.args[0])
            k = self.coerce(self.evv(node.args[1]), d.ty.args[0]).term
            sorted_ = len(node.args) > 2
            if d.ty.kind == "set":  # position of a member in the set's (arbitrary but fixed) iteration order
                _, order, posf = self._keyset_order(d.term, self.w.sort(d.ty.args[0]), "set")
                if name == "dpos_exact":
                    self.side_fact(z3.Implies(z3.Select(d.term, k), z3.Select(order, posf(None, k)) == k))
                return SV(posf(None, k), T.INT)
            _, order, posf = self.dict_order(d, sorted_)
            if name == "dpos_exact":
                # the instance  order[pos(k)] == k  for this very key (the general axiom is left out of dict_order:
                # it makes every key term spawn new terms); lets a proof go from a key to its iteration index
                _, has, _ = self.dct(d)
                self.side_fact(z3.Implies(z3.Select(has(d.term), k), z3.Select(order, posf(d.term, k)) == k))
            return SV(posf(d.term, k), T.INT)
        if name == "dsize":
            d = self.evv(node.args[0])
            size, _, _ = self.dict_order(d, len(node.args) > 1)
            return SV(size, T.INT)
        if name == "opt_val":
            v = self.evv(node.args[0])
            if v.ty.kind != "opt":
                return v
            s = self.w.sort(v.ty)
            return SV(s.accessor(1, 0)(v.term), v.ty.args[0])
        if name == "str_of_int":
            v = self.coerce(self.evv(node.args[0]), T.INT)
            f = self.w.func(f"str<{z3.IntSort()}>", z3.IntSort(), self.w.StrSort)
            return SV(f(v.term), T.STR)
        if name == "type_name":
            v = self.ev(node.args[0])
            t = self.w.type_const(v.name) if isinstance(v, ClassRef) else v.term
            f = self.w.func("type__name__", self.w.sort(T.TYPE), self.w.StrSort)
            return SV(f(t), T.STR)
        if name == "str_of_type":
            v = self.ev(node.args[0])
            t = self.w.type_const(v.name) if isinstance(v, ClassRef) else v.term
            f = self.w.func(f"str<{self.w.sort(T.TYPE)}>", self.w.sort(T.TYPE), self.w.StrSort)
            return SV(f(t), T.STR)
        if name in ("calls", "call_kw", "call_pos", "call_seq"):
            # ghost call log of effectful calls on collaborators (OPAQUE_METHODS entries with log=True)
            obj = self.evv(node.args[0])
            meth = ast.literal_eval(node.args[1])
            log = [r for r in self.st.__dict__.get("call_log", [])
                   if r["method"] == meth and r["recv"] is not None and obj.term is not None
                   and z3.eq(z3.simplify(r["recv"]), z3.simplify(obj.term))]
            if name == "calls":
                return SV(z3.IntVal(len(log)), T.INT)
            k = ast.literal_eval(node.args[2])
            if not (0 <= k < len(log)):
                # no such call on this path: the expression denotes None (contracts guard it with calls(...) == n;
                # spec conjunctions / disjunctions are evaluated eagerly)
                return SV(None, T.NONE)
            if name == "call_seq":
                allc = self.st.__dict__.get("call_log", [])
                return SV(z3.IntVal(next(i for i, r in enumerate(allc) if r is log[k])), T.INT)
            if name == "call_kw":
                v = log[k]["kwargs"].get(ast.literal_eval(node.args[3]))
            else:
                i = ast.literal_eval(node.args[3])
                v = log[k]["args"][i] if i < len(log[k]["args"]) else None
            if v is None:
                return SV(None, T.NONE)  # the argument was not passed (or is not a value)
            return v
        if name in ("tcalls", "tcall_recv", "tcall_pos"):
            # the ghost call log queried by receiver TYPE: tcalls("Cursor", "execute") counts the logged calls of that
            # method on any value of that opaque type; tcall_recv gives the receiver of the k-th (so that a contract
            # can state which object it was - decided by the solver, not by syntactic comparison), tcall_pos its args
            tname = ast.literal_eval(node.args[0])
            meth = ast.literal_eval(node.args[1])
            log = [r for r in self.st.__dict__.get("call_log", [])
                   if r["recv"] is not None and r["ty"] == tname and r["method"] == meth]
            if name == "tcalls":
                return SV(z3.IntVal(len(log)), T.INT)
            k = ast.literal_eval(node.args[2])
            if not (0 <= k < len(log)):
                return SV(None, T.NONE)
            if name == "tcall_recv":
                return SV(log[k]["recv"], T.Opaque(tname))
            i = ast.literal_eval(node.args[3])
            v = log[k]["args"][i] if i < len(log[k]["args"]) else None
            return v if v is not None else SV(None, T.NONE)
        if name in ("fcalls", "fcall_pos", "fcall_ret"):
            # ghost log of calls to contracted repository functions (spec const LOGGED_FUNCTIONS)
            fname = ast.literal_eval(node.args[0])
            log = [r for r in self.st.__dict__.get("call_log", []) if r["recv"] is None and r["method"] == fname]
            if name == "fcalls":
                return SV(z3.IntVal(len(log)), T.INT)
            k = ast.literal_eval(node.args[1])
            if not (0 <= k < len(log)):
                return SV(None, T.NONE)
            if name == "fcall_ret":
                return log[k].get("ret") or SV(None, T.NONE)
            i = ast.literal_eval(node.args[2])
            v = log[k]["args"][i] if i < len(log[k]["args"]) else None
            return v if v is not None else SV(None, T.NONE)
        if name == "exc_arg":
            # exc_arg(e, i, "Type"): the i-th positional constructor argument of the raised exception e
            e = self.evv(node.args[0])
            i = ast.literal_eval(node.args[1])
            rt = self.w.resolve_ann(ast.parse(ast.literal_eval(node.args[2]), mode="eval").body, self.frames[-1].module)
            f = self.w.func(f"exc_arg{i}<{self.w.sort(rt)}>", self.w.sort(T.EXC), self.w.sort(rt))
            return SV(f(e.term), rt)
        if name == "fpow":
            # float power as a mathematical value (no range check); natively: inf beyond the float range
            return self.power(self.evv(node.args[0]), self.evv(node.args[1]), line)
        if name == "uf":
            # uf("name", "ret type", args...) : an uninterpreted function shared between contracts
            fname = ast.literal_eval(node.args[0])
            rts = ast.literal_eval(node.args[1])
            if rts.startswith("opaque:"):
                rt = T.Opaque(rts.split(":", 1)[1])
            else:
                rt = self.w.resolve_ann(ast.parse(rts, mode="eval").body, self.frames[-1].module)
            av = [self.evv(a) for a in node.args[2:]]
            f = self.w.func(f"uf:{fname}", *[a.term.sort() for a in av], self.w.sort(rt))
            return SV(f(*[a.term for a in av]), rt)
        raise Unsupported(f"dsl function {name}")

    def _code_frame(self):
        for fr in self.frames:
            if fr.old_env is not None:
                return fr
        raise Unsupported("old() without a function entry snapshot")

    def _eval_in(self, env, cells, node):
        saved_env, saved_cells, saved_moved, saved_dead = self.st.env, self.st.cells, self.st.moved, self.st.dead_refs
        # snapshot names take precedence; quantifier-bound variables of the enclosing spec stay visible
        merged = {k: v for k, v in saved_env.items() if isinstance(v, SV) and v.ref is None}
        merged.update(env)
        self.st.env, self.st.cells, self.st.moved, self.st.dead_refs = merged, dict(cells), {}, set()
        try:
            v = self.ev(node)
            if isinstance(v, SV):
                return SV(v.term, v.ty)
            return v
        finally:
            self.st.env, self.st.cells, self.st.moved, self.st.dead_refs = saved_env, saved_cells, saved_moved, saved_dead
