"""Statement execution (mixin of Engine)."""
from __future__ import annotations

import ast

import z3

from . import ty as T
from .sorts import Unsupported
from .values import (
    SV, BoundMethod, BreakSignal, ClassRef, Closure, ContinueSignal, DictView, EnumerateV, FuncRef, LazySeq,
    ModuleRef, Namespace, PathEnd, PyTuple, RaiseSignal, RangeV, Ref, ReturnSignal,
)

MUTATING_METHODS = {"append", "extend", "insert", "pop", "remove", "clear", "setdefault", "update", "add",
                    "discard", "sort", "reverse", "popitem", "appendleft", "popleft"}

BUILTIN_EXC_MRO = {
    "Exception": ["Exception", "BaseException"],
    "BaseException": ["BaseException"],
    "ValueError": ["ValueError", "Exception", "BaseException"],
    "TypeError": ["TypeError", "Exception", "BaseException"],
    "RuntimeError": ["RuntimeError", "Exception", "BaseException"],
    "NotImplementedError": ["NotImplementedError", "RuntimeError", "Exception", "BaseException"],
    "KeyError": ["KeyError", "LookupError", "Exception", "BaseException"],
    "IndexError": ["IndexError", "LookupError", "Exception", "BaseException"],
    "LookupError": ["LookupError", "Exception", "BaseException"],
    "AttributeError": ["AttributeError", "Exception", "BaseException"],
    "StopIteration": ["StopIteration", "Exception", "BaseException"],
    "OverflowError": ["OverflowError", "ArithmeticError", "Exception", "BaseException"],
    "ZeroDivisionError": ["ZeroDivisionError", "ArithmeticError", "Exception", "BaseException"],
    "ArithmeticError": ["ArithmeticError", "Exception", "BaseException"],
    "TimeoutError": ["TimeoutError", "OSError", "Exception", "BaseException"],
    "AssertionError": ["AssertionError", "Exception", "BaseException"],
    "CancelledError": ["CancelledError", "BaseException"],
    "KeyboardInterrupt": ["KeyboardInterrupt", "BaseException"],
}


def assigned_names(stmts) -> tuple[set, set]:
    """(names rebound, root names mutated in place) in a statement list — syntactic."""
    names, roots = set(), set()

    def root_of(e):
        while isinstance(e, (ast.Attribute, ast.Subscript, ast.Call)):
            e = e.value if not isinstance(e, ast.Call) else e.func
        return e.id if isinstance(e, ast.Name) else None

    def tgt(t):
        if isinstance(t, ast.Name):
            names.add(t.id)
        elif isinstance(t, (ast.Tuple, ast.List)):
            for x in t.elts:
                tgt(x)
        elif isinstance(t, (ast.Attribute, ast.Subscript)):
            r = root_of(t)
            if r:
                roots.add(r)
        elif isinstance(t, ast.Starred):
            tgt(t.value)

    for st in stmts:
        for n in ast.walk(st):
            if isinstance(n, ast.Assign):
                for t in n.targets:
                    tgt(t)
            elif isinstance(n, (ast.AugAssign, ast.AnnAssign)):
                tgt(n.target)
            elif isinstance(n, (ast.For, ast.AsyncFor)):
                tgt(n.target)
            elif isinstance(n, ast.NamedExpr):
                tgt(n.target)
            elif isinstance(n, (ast.With, ast.AsyncWith)):
                for it in n.items:
                    if it.optional_vars is not None:
                        tgt(it.optional_vars)
            elif isinstance(n, ast.ExceptHandler) and n.name:
                names.add(n.name)
            elif isinstance(n, ast.Delete):
                for t in n.targets:
                    tgt(t)
            elif isinstance(n, ast.Call):
                if isinstance(n.func, ast.Attribute) and n.func.attr in MUTATING_METHODS:
                    r = root_of(n.func.value)
                    if r:
                        roots.add(r)
    return names, roots


class StmtMixin:
    def exec_block(self, stmts):
        for st in stmts:
            self.exec_stmt(st)

    def exec_stmt(self, st):
        m = getattr(self, "ex_" + type(st).__name__, None)
        if m is None:
            raise Unsupported(f"statement {type(st).__name__} at line {st.lineno}")
        self.cur_line = st.lineno
        return m(st)

    # ------------------------------------------------------------ simple
    def ex_Pass(self, st):
        pass

    def ex_Expr(self, st):
        if isinstance(st.value, ast.Constant):
            return
        self.ev(st.value)

    def ex_Return(self, st):
        if isinstance(st.value, ast.Name) and len(self.frames) == 1:
            # `return x` of the function under contract: nothing runs afterwards, so reading a value that was also
            # stored elsewhere (x embedded in a field, then returned) is the plain value - like `return self.f`
            self._final_read = True
            try:
                v = self.ev(st.value)
            finally:
                self._final_read = False
        else:
            v = self.ev(st.value) if st.value is not None else SV(None, T.NONE)
        raise ReturnSignal(v)

    def ex_Break(self, st):
        raise BreakSignal()

    def ex_Continue(self, st):
        raise ContinueSignal()

    def ex_Assert(self, st):
        self.safety(self.truthy(self.ev(st.test)), "AssertionError", st.lineno)

    def ex_Import(self, st):
        pass

    def ex_ImportFrom(self, st):
        pass

    def ex_Global(self, st):
        raise Unsupported("global statement")

    def ex_Raise(self, st):
        if st.exc is None:
            cur = getattr(self, "_handling", None)
            if not cur:
                raise Unsupported("bare raise outside handler")
            raise cur[-1]
        v = self.ev(st.exc)
        cls = None
        if isinstance(v, ClassRef):
            cls = v.name
            v = self.construct(v, [], {}, st)
        elif isinstance(st.exc, ast.Call):
            fn = st.exc.func
            cls = fn.id if isinstance(fn, ast.Name) else (fn.attr if isinstance(fn, ast.Attribute) else None)
        if not isinstance(v, SV) or v.ty != T.EXC:
            raise Unsupported(f"raise of a non-exception value (line {st.lineno})")
        raise RaiseSignal(v, cls, st.lineno)

    def ex_FunctionDef(self, st):
        if st.args.vararg or st.args.kwarg or st.args.posonlyargs:
            raise Unsupported(f"nested def with *args / **kwargs / positional-only parameters (line {st.lineno})")
        pos = [a.arg for a in st.args.args]
        defaults = dict(zip(pos[len(pos) - len(st.args.defaults):], st.args.defaults))
        for a, d in zip(st.args.kwonlyargs, st.args.kw_defaults):
            if d is not None:
                defaults[a.arg] = d
        clo = Closure(pos + [a.arg for a in st.args.kwonlyargs], st.body, self.st.env, False, self.frames[-1].module,
                      defaults)
        self.st.env[st.name] = clo

    ex_AsyncFunctionDef = ex_FunctionDef

    def ex_Delete(self, st):
        for t in st.targets:
            if isinstance(t, ast.Subscript):
                base = self.evv(t.value)
                if base.ty.kind == "dict":
                    self.dict_method(base, "pop", [self.evv(t.slice)], {}, st.lineno)
                    continue
            raise Unsupported(f"del of {type(t).__name__}")

    # -------------------------------------------------------- assignment
    def assign_name(self, name: str, v, line: int, ann: T.Ty | None = None):
        if isinstance(v, LazySeq) and v.kind != "gen":
            pass  # keep lazy (value-captured at creation)
        if isinstance(v, SV):
            if ann is not None:
                v2 = self.coerce(v, ann, line)
                if v2 is not v and v.ref is not None and v2.ref is None and T.is_mutable(v.ty) and v.ty != ann:
                    # coercion copied a tracked mutable: only safe when value was fresh
                    pass
                v = v2
            if T.is_mutable(v.ty):
                if v.ref is not None:
                    self.st.env[name] = v.ref
                else:
                    self.st.env[name] = self.new_cell(v)
                return
            self.st.env[name] = SV(v.term, v.ty)
            return
        self.st.env[name] = v

    def assign_target(self, target, v, line: int, ann: T.Ty | None = None):
        if isinstance(target, ast.Name):
            self.assign_name(target.id, v, line, ann)
            return
        if isinstance(target, (ast.Tuple, ast.List)):
            if isinstance(v, SV) and v.ty.kind == "opt" and v.ty.args[0].kind == "tuple":
                # unpacking an Optional tuple: `TypeError: cannot unpack non-iterable NoneType` unless it is a value
                v = self.coerce(v, v.ty.args[0], line)
            if isinstance(v, PyTuple):
                items = v.items
            elif isinstance(v, SV) and v.ty.kind == "tuple":
                s = self.w.sort(v.ty)
                items = [SV(s.accessor(0, i)(v.term), t) for i, t in enumerate(v.ty.args)]
            else:
                raise Unsupported(f"unpacking a non-tuple (line {line})")
            if len(items) != len(target.elts):
                raise Unsupported("unpack arity mismatch")
            for t, x in zip(target.elts, items):
                self.assign_target(t, x, line)
            return
        if isinstance(v, LazySeq):
            v = self.materialize(v)
        if isinstance(v, ClassRef):
            v = SV(self.w.type_const(v.name), T.TYPE)
        if isinstance(v, PyTuple) and isinstance(target, ast.Attribute):
            # a tuple stored into a declared field: takes the field's (tuple / Optional tuple) type
            b_ = self.ev(target.value)
            ft_ = self.w.field_ty(b_.ty.name, target.attr) if isinstance(b_, SV) and b_.ty.kind == "obj" else None
            if ft_ is not None and (ft_.kind == "tuple" or (ft_.kind == "opt" and ft_.args[0].kind == "tuple")):
                v = self.coerce(PyTuple([self.embed(x, line) if isinstance(x, SV) else x for x in v.items]), ft_, line)
        if not isinstance(v, SV):
            raise Unsupported(f"storing a {type(v).__name__} into an object (line {line})")
        if isinstance(target, ast.Attribute):
            base = self.ev(target.value)
            if not isinstance(base, SV):
                raise Unsupported(f"attribute assignment on {type(base).__name__} (line {line})")
            if base.ty.kind == "opt":
                base = self.coerce(base, base.ty.args[0], line)
            if base.ty.kind == "obj":
                cls = base.ty.name
                ft = self.w.field_ty(cls, target.attr)
                if ft is None:
                    raise Unsupported(f"assignment to unknown field {cls}.{target.attr} (line {line})")
                ci = self.w.repo.find_class(cls)
                if ci is not None and ci.frozen and not self.specs.allow_frozen_write(cls):
                    self.safety(z3.BoolVal(False), f"FrozenInstanceError:{cls}.{target.attr}", line)
                if base.ref is None:
                    if base.fresh:
                        return
                    raise Unsupported(f"attribute assignment through an untracked alias (line {line})")
                nv = self.coerce(self.embed(v, line), ft, line)
                if base.ref in self.st.dead_refs:
                    raise Unsupported(f"write through an invalidated place (line {line})")
                self.write_ref(base.ref.ext(("f", cls, target.attr)), nv, line)
                return
            if base.ty.kind == "union" and base.ref is not None:
                s = self.w.sort(base.ty)
                cands = [(i, a) for i, a in enumerate(base.ty.args) if self.w.field_ty(a, target.attr) is not None]
                if len(cands) == 1:
                    i, a = cands[0]
                    self.safety(s.recognizer(i)(base.term), f"is-{a}", line)
                    ft = self.w.field_ty(a, target.attr)
                    self.write_ref(base.ref.ext(("inj", a)).ext(("f", a, target.attr)),
                                   self.coerce(self.embed(v, line), ft, line), line)
                    return
            raise Unsupported(f"attribute assignment on {base.ty} (line {line})")
        if isinstance(target, ast.Subscript):
            base = self.ev(target.value)
            if not isinstance(base, SV):
                raise Unsupported("subscript assignment on non-value")
            idx = self.evv(target.slice)
            if base.ty.kind == "dict":
                if base.term is None:
                    base = self._typed_dict(base, idx.ty, v.ty, line)
                mk, has, val = self.dct(base)
                kt, vt = base.ty.args
                k = self.coerce(idx, kt, line).term
                nv = self.coerce(self.embed(v, line), vt, line)
                new = SV(mk(z3.Store(has(base.term), k, True), z3.Store(val(base.term), k, nv.term)), base.ty)
                self.mutate(base, new, line)
                return
            if base.ty.kind == "list":
                mk, ln, arr = self.lst(base)
                i = self.coerce(idx, T.INT, line).term
                n = self.list_len(base)
                self.safety(z3.And(0 <= i, i < n), "IndexError:store", line)
                nv = self.coerce(self.embed(v, line), base.ty.args[0], line)
                self.mutate(base, SV(mk(n, z3.Store(arr(base.term), i, nv.term)), base.ty), line)
                return
            raise Unsupported(f"subscript assignment on {base.ty} (line {line})")
        raise Unsupported(f"assignment target {type(target).__name__} (line {line})")

    def _typed_dict(self, recv: SV, kt, vt, line):
        nv = self.empty_dict(kt, vt)
        if recv.ref is not None and not recv.ref.path:
            self.st.cells[recv.ref.cell] = SV(nv.term, nv.ty)
            return SV(nv.term, nv.ty, ref=recv.ref)
        raise Unsupported("store into an untyped empty dict that is not a plain local")

    def ex_Assign(self, st):
        v = self.ev(st.value)
        if isinstance(v, LazySeq) and v.conds and not self.binders and not self.spec_mode \
                and getattr(v, "kind", "list") == "list" and self._calls_contract_fn(list(v.conds) + [v.elt]):
            # python builds a filtered list here, once: later uses (also inside quantified invariants) must all
            # denote this one list, not a fresh materialisation each
            try:
                v = self.materialize(v)
            except Unsupported:
                pass
        for t in st.targets:
            lt = getattr(self.frames[-1], "local_types", None)
            if lt and isinstance(t, ast.Name) and t.id in lt and isinstance(v, SV) and v.term is None:
                # an un-annotated empty container whose element type the contract declares (local_types)
                self.assign_target(t, v, st.lineno, lt[t.id])
                continue
            self.assign_target(t, v, st.lineno)

    def _calls_contract_fn(self, nodes) -> bool:
        """does one of these expressions call a repository function that is used through its contract?  (each
        evaluation of such a call yields a fresh result constrained only by the postcondition)"""
        for n in nodes:
            for c in ast.walk(n):
                if isinstance(c, ast.Call):
                    try:
                        fq = self.static_callee(c)
                    except Exception:
                        fq = None
                    if fq and fq in self.specs.contracts and not self.specs.contracts[fq].inline \
                            and fq not in self.specs.inline:
                        return True
        return False

    def ex_AnnAssign(self, st):
        ann = self.w.resolve_ann(st.annotation, self.frames[-1].module)
        if st.value is None:
            return
        v = self.ev(st.value)
        if isinstance(v, LazySeq):
            v = self.materialize(v)
        if ann == T.ANY and isinstance(v, SV):
            ann = None
        self.assign_target(st.target, v, st.lineno, ann if isinstance(st.target, ast.Name) else None)

    def ex_AugAssign(self, st):
        cur = self.ev(st.target)
        rhs = self.ev(st.value)
        if isinstance(cur, SV) and cur.ty.kind == "list" and isinstance(st.op, ast.Add):
            self.list_method(cur, "extend", [rhs], {}, st.lineno)
            return
        self.assign_target(st.target, self.binop(st.op, cur, rhs, st.lineno), st.lineno)

    # ------------------------------------------------------------ control
    def ex_If(self, st):
        c = self.truthy(self.ev(st.test))
        if self.branch(c, f"if@{st.lineno}:"):
            self.exec_block(st.body)
        else:
            self.exec_block(st.orelse)

    def loop_ordinal(self, node) -> int:
        fr = self.frames[-1]
        return fr.loop_ids[id(node)]

    def havoc_for_loop(self, body_stmts, extra_names=()):
        """Forget what the loop body may change.  Mutations happen through names; each such name denotes a place
        (a Ref): only that place is havocked, so everything outside it stays the *same term* as before the loop.
        Names that are (re)bound inside the loop are resolved to the names their right-hand sides are rooted in."""
        names, _coarse_roots = assigned_names(body_stmts)
        names |= set(extra_names)
        env = self.st.env
        roots: set = set()
        fine_refs: list = []

        def add_target(expr):
            """expr denotes an object mutated in the loop: havoc exactly its place when that place does not
            depend on anything the loop rebinds, else fall back to the whole root variable"""
            if expr is None:
                return
            free = {n.id for n in ast.walk(expr) if isinstance(n, ast.Name)}
            simple = all(isinstance(n, (ast.Name, ast.Attribute, ast.Subscript, ast.Constant, ast.Load, ast.Index))
                         for n in ast.walk(expr))
            if simple and not (free & names) and all(f in env for f in free):
                self.spec_mode += 1  # no obligations for this look-ahead evaluation
                try:
                    v = self.ev(expr)
                    if isinstance(v, SV) and v.ref is not None:
                        fine_refs.append(v.ref)
                        return
                except Unsupported:
                    pass
                finally:
                    self.spec_mode -= 1
            r = root_name(expr)
            if r:
                roots.add(r)

        def root_name(e):
            while isinstance(e, (ast.Attribute, ast.Subscript, ast.Call, ast.Starred, ast.Await)):
                if isinstance(e, ast.Call):
                    e = e.func if not (isinstance(e.func, ast.Name)) else (e.args[0] if e.args else e.func)
                else:
                    e = e.value
            return e.id if isinstance(e, ast.Name) else None

        alias: dict[str, set] = {}

        def add_alias(t, src):
            if isinstance(t, ast.Name):
                r = root_name(src)
                if r:
                    alias.setdefault(t.id, set()).add(r)
            elif isinstance(t, (ast.Tuple, ast.List)):
                for x in t.elts:
                    add_alias(x, src)

        def add_store_target(t):
            if isinstance(t, (ast.Attribute, ast.Subscript)):
                add_target(t.value)
            elif isinstance(t, (ast.Tuple, ast.List)):
                for x in t.elts:
                    add_store_target(x)

        for st in body_stmts:
            for n in ast.walk(st):
                if isinstance(n, ast.Assign):
                    for t in n.targets:
                        add_store_target(t)
                elif isinstance(n, (ast.AugAssign, ast.AnnAssign)):
                    add_store_target(n.target)
                    if isinstance(n, ast.AugAssign) and isinstance(n.target, ast.Name):
                        add_target(n.target)  # x += [...] mutates a list in place
                elif isinstance(n, ast.Delete):
                    for t in n.targets:
                        add_store_target(t)
                elif isinstance(n, ast.Call) and isinstance(n.func, ast.Attribute) and n.func.attr in MUTATING_METHODS:
                    add_target(n.func.value)
        for st in body_stmts:
            for n in ast.walk(st):
                if isinstance(n, ast.Assign):
                    for t in n.targets:
                        add_alias(t, n.value)
                elif isinstance(n, ast.AnnAssign) and n.value is not None:
                    add_alias(n.target, n.value)
                elif isinstance(n, (ast.For, ast.AsyncFor)):
                    add_alias(n.target, n.iter)
                elif isinstance(n, ast.NamedExpr):
                    add_alias(n.target, n.value)
                elif isinstance(n, ast.Call):
                    # calls to contract functions that modify an argument
                    fq = self.static_callee(n)
                    c = self.specs.contract(fq) if fq else None
                    if c is not None and c.modifies:
                        fi = self.w.repo.function(fq)
                        pnames = [a.arg for a in fi.node.args.args]
                        for m in c.modifies:
                            if m in pnames:
                                i = pnames.index(m)
                                arg = n.args[i] if i < len(n.args) else next(
                                    (k.value for k in n.keywords if k.arg == m), None)
                                add_target(arg)
        # close the mutated roots under "is (re)bound in the loop from something rooted at ..."
        frontier = set(roots)
        changed = True
        while changed:
            changed = False
            for r in list(frontier):
                if r in names:
                    for a in alias.get(r, ()):
                        if a not in frontier:
                            frontier.add(a)
                            changed = True
        places = []
        for r in sorted(frontier):
            v = env.get(r)
            if isinstance(v, Ref):
                places.append((r, v))
        covered = [v for _, v in places]

        def inside(rf, c):
            return rf.cell == c.cell and len(rf.path) >= len(c.path) and all(
                self._step_eq(a, b) for a, b in zip(rf.path, c.path))

        for rf in sorted(fine_refs, key=lambda r_: len(r_.path)):
            # skip places inside an already havocked bigger place
            if any(inside(rf, c) for c in covered):
                continue
            covered.append(rf)
            places.append(("place", rf))
        for r, v in places:
            cur = self.read_ref(v)
            if cur.term is None:
                raise Unsupported(f"loop mutates '{r}', an untyped empty container (annotate it)")
            if v in self.st.dead_refs:
                continue
            self.write_ref(v, SV(self.w.fresh(cur.ty, f"loop_{r}"), cur.ty))
        for nme in names:
            v = env.get(nme)
            if v is None:
                continue
            if isinstance(v, SV):
                if v.term is None and v.ty.kind != "none":
                    raise Unsupported(f"loop assigns '{nme}' whose type is not yet known")
                env[nme] = SV(self.w.fresh(v.ty, nme), v.ty) if v.ty.kind != "none" else v
            elif isinstance(v, Ref):
                if v.path:
                    del env[nme]  # alias rebound in loop: unknown place afterwards
                else:
                    cur = self.st.cells[v.cell]
                    if cur.term is None:
                        raise Unsupported(f"loop assigns '{nme}', an untyped empty container")
                    self.st.cells[v.cell] = SV(self.w.fresh(cur.ty, nme), cur.ty)
            else:
                del env[nme]

    def static_callee(self, call: ast.Call) -> str | None:
        f = call.func
        fr = self.frames[-1]
        if isinstance(f, ast.Name):
            m = self.w.repo.module(fr.module)
            if f.id in m.functions:
                return f"{fr.module}.{f.id}"
            if f.id in m.imports:
                return m.imports[f.id]
        return None

    def eval_inv(self, inv_fn, ordinal: int, what: str, line: int, extra: dict):
        c = self.cur_contract
        if isinstance(inv_fn, (list, tuple)) and what in ("entry", "step") and c is not None and c.inherits:
            # a variant contract: the inherited invariant is established and preserved under the function's plain
            # contract (weaker precondition, weaker loop-head assumption) - only the variant's own addition is to be
            # shown here; at the loop head both are assumed
            own = [f_ for f_ in inv_fn[1:] if f_ is not None]
            if not own:
                return z3.BoolVal(True)
            inv_fn = own
        with self.scope(extra):
            return self.eval_spec(inv_fn, None, c)

    def ex_For(self, st):
        line = st.lineno
        if st.orelse:
            raise Unsupported("for/else")
        k = self.loop_ordinal(st)
        c = self.cur_contract
        inv = c.loop_inv.get(k) if c is not None and len(self.frames) == 1 else None
        if inv is None:
            src = self.iter_source(st.iter)
            if isinstance(src, PyTuple):
                for item in src.items:  # literal tuple: unroll
                    try:
                        with_bind = self.bind_target(st.target, item)
                        self.st.env.update(with_bind)
                        self.exec_block(st.body)
                    except ContinueSignal:
                        continue
                    except BreakSignal:
                        break
                return
            raise Unsupported(f"loop #{k} at line {line} of {self.frames[-1].fn_name} has no invariant")
        fr = self.frames[-1]
        # invariant on entry, with _i = 0
        entry_env, entry_cells = dict(self.st.env), dict(self.st.cells)
        fr.loop_ctx.append((entry_env, entry_cells))
        try:
            f0 = self.eval_inv(inv, k, "entry", line, {"_i": SV(z3.IntVal(0), T.INT)})
            self.oblige("inv-entry", f"loop{k}", f0, line)
            self.havoc_for_loop(st.body + [ast.Assign([st.target], st.iter, lineno=line)])
            head_types = {n_: v_.ty for n_, v_ in self.st.env.items() if isinstance(v_, SV) and v_.term is not None}
            src = self.iter_source(st.iter)
            var, dom, el, pos, size = self.domain(src, "it")
            if pos is None or size is None:
                raise Unsupported("loop over unordered source")
            i = self.w.fresh(T.INT, "_i")
            self.st.pc.append(z3.And(0 <= i, i <= size))
            self.st.pc.append(self.eval_inv(inv, k, "assume", line, {"_i": SV(i, T.INT)}))
            ch = self.choose(2, f"loop{k}@{line}:")
            if ch == 1:
                self.st.pc.append(i == size)
                if not self.feasible():
                    raise PathEnd()
                return
            self.st.pc.append(i < size)
            if not self.feasible():
                raise PathEnd()
            # the index of this loop stays visible to the invariants of loops nested in its body, as _i<ordinal>
            self.st.env[f"_i{k}"] = SV(i, T.INT)
            # current element: the one at position i
            cur = self.element_at(src, var, dom, el, pos, i)
            self.st.env.update(self.bind_target(st.target, cur))
            src_before = self._src_term(src)
            try:
                self.exec_block(st.body)
            except ContinueSignal:
                pass
            except BreakSignal:
                return
            src_after = self._src_term(self.iter_source(st.iter))
            if src_before is not None and src_after is not None and not z3.eq(src_before, src_after):
                self.oblige("loop-source-stable", f"loop{k}", src_before == src_after, line)
            self._check_loop_types(head_types, line)
            f1 = self.eval_inv(inv, k, "step", line, {"_i": SV(i + 1, T.INT)})
            self.oblige("inv-step", f"loop{k}", f1, line)
            raise PathEnd()
        finally:
            fr.loop_ctx.pop()

    def _check_loop_types(self, head_types: dict, line: int):
        """the value a variable holds at the end of an iteration must fit the type it was havocked with at the head
        (python does not care, the encoding does): narrowing obligations are generated, anything else is refused"""
        for n_, ht in head_types.items():
            v = self.st.env.get(n_)
            if isinstance(v, SV) and v.term is not None and v.ty != ht:
                try:
                    self.st.env[n_] = SV(self.coerce(v, ht, line).term, ht)
                except Unsupported:
                    raise Unsupported(f"loop changes the type of '{n_}' from {ht} to {v.ty} (line {line})")

    def _src_term(self, src):
        if isinstance(src, SV):
            if src.ty.kind == "list" and src.term is not None:
                # python's list iterator is index based: only the length decides which indices are visited
                return z3.simplify(self.lst(src)[1](src.term))
            if src.ty.kind == "dict" and src.term is not None:
                return z3.simplify(self.dct(src)[1](src.term))
            return src.term
        if isinstance(src, DictView):
            if src.d.term is None:
                return None
            _, has, _ = self.dct(src.d)
            return has(src.d.term)  # only the key set matters for iteration
        if isinstance(src, EnumerateV):
            return self._src_term(src.seq)
        return None

    def element_at(self, src, var, dom, el, pos, i):
        """value of the loop variable in the iteration with index i"""
        if isinstance(src, DictView):
            _, order, _ = self.dict_order(src.d, src.sorted_)
            key = z3.Select(order, i)
            kc = self.w.fresh_sort(key.sort(), "key")
            self.st.pc.append(kc == key)
            self.st.pc.append(z3.substitute(dom, (var, kc)))
            self.st.pc.append(z3.substitute(pos, (var, kc)) == i)
            return self._subst_value(el, var, kc)
        if isinstance(src, SV) and src.ty.kind == "set":
            _, order, _ = self._keyset_order(src.term, self.w.sort(src.ty.args[0]), "set")
            key = z3.Select(order, i)
            kc = self.w.fresh_sort(key.sort(), "member")
            self.st.pc.append(kc == key)
            self.st.pc.append(z3.substitute(dom, (var, kc)))
            self.st.pc.append(z3.substitute(pos, (var, kc)) == i)
            return self._subst_value(el, var, kc)
        if isinstance(src, RangeV):
            return self._subst_value(el, var, src.lo + i)
        if isinstance(src, EnumerateV):
            inner = src.seq
            if isinstance(inner, DictView):
                raise Unsupported("enumerate over dict view in a loop")
            return self._subst_value(el, var, i)
        return self._subst_value(el, var, i)

    def ex_AsyncFor(self, st):
        # `async for` over a stream: the stream is treated as the finite sequence of items it yields (the contract
        # of the function says so in its notes); awaits between items do not touch the function's locals
        return self.ex_For(st)

    def ex_While(self, st):
        line = st.lineno
        if st.orelse:
            raise Unsupported("while/else")
        k = self.loop_ordinal(st)
        c = self.cur_contract
        inv = c.loop_inv.get(k) if c is not None and len(self.frames) == 1 else None
        if inv is None:
            raise Unsupported(f"loop #{k} at line {line} of {self.frames[-1].fn_name} has no invariant")
        fr = self.frames[-1]
        fr.loop_ctx.append((dict(self.st.env), dict(self.st.cells)))
        try:
            self.oblige("inv-entry", f"loop{k}", self.eval_inv(inv, k, "entry", line, {}), line)
            self.havoc_for_loop(st.body)
            head_types = {n_: v_.ty for n_, v_ in self.st.env.items() if isinstance(v_, SV) and v_.term is not None}
            self.st.pc.append(self.eval_inv(inv, k, "assume", line, {}))
            g = self.truthy(self.ev(st.test))
            ch = self.choose(2, f"loop{k}@{line}:")
            if ch == 1:
                self.st.pc.append(z3.Not(g))
                if not self.feasible():
                    raise PathEnd()
                return
            self.st.pc.append(g)
            if not self.feasible():
                raise PathEnd()
            try:
                self.exec_block(st.body)
            except ContinueSignal:
                pass
            except BreakSignal:
                return
            self._check_loop_types(head_types, line)
            self.oblige("inv-step", f"loop{k}", self.eval_inv(inv, k, "step", line, {}), line)
            raise PathEnd()
        finally:
            fr.loop_ctx.pop()

    # ---------------------------------------------------------- try/with
    def exc_matches(self, r: RaiseSignal, handler: ast.ExceptHandler) -> bool:
        if handler.type is None:
            return True
        names = []
        t = handler.type
        elts = t.elts if isinstance(t, ast.Tuple) else [t]
        for e in elts:
            names.append(e.id if isinstance(e, ast.Name) else e.attr if isinstance(e, ast.Attribute) else ast.unparse(e))
        if r.cls is None:
            # exception from user code: assumed to be an Exception (not KeyboardInterrupt / CancelledError)
            if "Exception" in names or "BaseException" in names:
                return True
            tf = self.w.func("type_of<Exc>", self.w.sort(T.EXC), self.w.sort(T.TYPE))
            cond = z3.Or(*[self.w.subclass_fn()(tf(r.exc.term), self.w.type_const(n)) for n in names])
            return self.branch(cond, f"except@{handler.lineno}:")
        mro = BUILTIN_EXC_MRO.get(r.cls)
        if mro is None:
            ci = self.w.repo.find_class(r.cls)
            mro = self.w.repo.mro_names(ci) if ci else [r.cls]
            ext = []
            for m_ in mro:
                ext.extend(BUILTIN_EXC_MRO.get(m_, [m_]))
            mro = ext + ["Exception", "BaseException"]
        return any(n in mro for n in names)

    def ex_Try(self, st):
        def run_finally():
            if st.finalbody:
                self.exec_block(st.finalbody)

        names = []
        for h in st.handlers:
            if h.type is None:
                names = []
                break
            elts = h.type.elts if isinstance(h.type, ast.Tuple) else [h.type]
            names.extend(e.id if isinstance(e, ast.Name) else getattr(e, "attr", "?") for e in elts)
        if not hasattr(self, "try_handlers"):
            self.try_handlers = []
        try:
            try:
                self.try_handlers.append(names if st.handlers else ["<finally-only>"])
                try:
                    self.exec_block(st.body)
                finally:
                    self.try_handlers.pop()
            except RaiseSignal as r:
                for h in st.handlers:
                    if self.exc_matches(r, h):
                        if h.name:
                            self.st.env[h.name] = SV(r.exc.term, T.EXC)
                        hs = getattr(self, "_handling", [])
                        self._handling = hs + [r]
                        try:
                            self.exec_block(h.body)
                        finally:
                            self._handling = hs
                        break
                else:
                    raise
            else:
                self.exec_block(st.orelse)
        except (RaiseSignal, ReturnSignal, BreakSignal, ContinueSignal):
            run_finally()
            raise
        run_finally()

    def ex_With(self, st):
        for item in st.items:
            cm = self.ev(item.context_expr)
            self.enter_context(cm, item, st)
        try:
            self.exec_block(st.body)
        finally:
            for item in reversed(st.items):
                self.exit_context(item, st)

    ex_AsyncWith = ex_With

    def enter_context(self, cm, item, st):
        if isinstance(cm, SV) and cm.ty.kind == "opt" and cm.ty.args[0].kind == "opaque":
            cm = self.coerce(cm, cm.ty.args[0], st.lineno)  # `with None:` is an error: obliges `is not None`
        if isinstance(cm, SV) and cm.ty.kind == "opaque" and self.specs.is_lock_type(cm.ty.name):
            self.lock_depth = getattr(self, "lock_depth", 0) + 1
            self.__dict__.setdefault("_ctx_kinds", []).append("lock")
            return
        if isinstance(cm, SV) and cm.ty.kind == "opaque" and self.specs.opaque_method(cm.ty.name, "__enter__"):
            # a context manager of a library / trusted type whose `__enter__` is declared (OPAQUE_METHODS): the `as`
            # target is what it yields; leaving the block has no effect the contracts talk about (closing a
            # connection is the business of the ownership obligations, C21)
            got = self.call_opaque(cm, "__enter__", [], {}, st)
            if item.optional_vars is not None:
                self.assign_target(item.optional_vars, got, st.lineno)
            self.__dict__.setdefault("_ctx_kinds", []).append("plain")
            return
        raise Unsupported(f"with-statement on {cm.ty if isinstance(cm, SV) else type(cm).__name__} (line {st.lineno})")

    def exit_context(self, item, st):
        kinds = self.__dict__.setdefault("_ctx_kinds", [])
        if kinds and kinds.pop() == "plain":
            return
        self.lock_depth = getattr(self, "lock_depth", 1) - 1

    def await_(self, node):
        # inside one task, code between awaits is atomic; a plain await of a call is evaluated as the call
        return self.ev(node.value)
