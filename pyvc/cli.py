"""python -m pyvc.cli <spec files...> -- <function fq> ...   (developer entry: verify functions, print obligations)"""
import sys, json, glob, os
from .spec import SpecSet
from .verify import make_world, verify_function

def main(argv):
    specs_paths = sorted(glob.glob(os.path.join(os.path.dirname(__file__), "..", "specs", "*.py")))
    specs = SpecSet()
    for p in specs_paths:
        specs.load(p)
    w = make_world(specs)
    verbose = "-v" in argv
    argv = [a for a in argv if a != "-v"]
    fqs = argv or [k for k, c in specs.contracts.items() if not c.trusted]
    bad = 0
    for fq in fqs:
        if fq not in specs.contracts:
            cands = [k for k in specs.contracts if k.endswith(fq)]
            fq = cands[0] if cands else fq
        rep = verify_function(w, specs, fq)
        print(f"== {fq}: paths={rep.paths} terminal={rep.terminal_paths} obligations={len(rep.obligations)} "
              f"requires={rep.requires_sat} solver={rep.solver_s:.2f}s wall={rep.wall_s:.2f}s")
        if rep.error:
            print("   ERROR:", rep.error); bad += 1
        for o in rep.obligations:
            if o["status"] != "proved" or verbose:
                print(f"   [{o['status']}] {o['id']} ({o['time']}s)")
                if o["status"] != "proved":
                    bad += 1
                    print("        reason:", o.get("reason"))
                    print("        part:", (o.get("failed_part") or "")[:600])
    return 1 if bad else 0

if __name__ == "__main__":
    sys.exit(main(sys.argv[1:]))
