"""Symbolic values, places (references into mutable roots) and Python-level helper values."""
from __future__ import annotations

from dataclasses import dataclass, field

import z3

from . import ty as T


@dataclass(frozen=True)
class Ref:
    cell: int
    path: tuple = ()  # steps: ('f', cls, fld) | ('i', z3 int) | ('k', z3 key) | ('some',) | ('inj', alt)

    def ext(self, step) -> "Ref":
        return Ref(self.cell, self.path + (step,))


@dataclass
class SV:
    term: object  # z3 expr (None for python-level values)
    ty: T.Ty
    ref: Ref | None = None
    fresh: bool = False  # freshly constructed mutable value (no other alias exists)

    def __repr__(self):
        return f"SV<{self.ty}:{self.term}>"


@dataclass
class PyTuple:
    items: list


@dataclass
class Closure:
    params: list[str]
    body: object  # ast expr (lambda) or list of stmts (def)
    env: dict
    is_lambda: bool = True
    module: str | None = None
    defaults: dict = field(default_factory=dict)


@dataclass
class ClassRef:
    name: str
    module: str | None = None


@dataclass
class FuncRef:
    fq: str


@dataclass
class ModuleRef:
    name: str


@dataclass
class BoundMethod:
    recv: object  # SV or python-level value
    name: str


@dataclass
class Namespace:
    d: dict


@dataclass
class RangeV:
    lo: object  # z3 int
    hi: object


@dataclass
class DictView:
    kind: str  # items | keys | values
    d: SV
    sorted_: bool = False


@dataclass
class EnumerateV:
    seq: object


@dataclass
class LazySeq:
    """A comprehension / generator expression that has not been materialised.

    source: SV(list) | RangeV | DictView | EnumerateV ; target: ast target ; conds: [ast] ; elt: ast ; env snapshot.
    """
    source: object
    target: object
    conds: list
    elt: object
    env: dict
    kind: str = "gen"  # gen | list | set
    module: str | None = None


class PathEnd(Exception):
    """Current path is finished (infeasible, or cut at a loop back edge)."""


class ReturnSignal(Exception):
    def __init__(self, value):
        self.value = value


class RaiseSignal(Exception):
    def __init__(self, exc: SV, cls: str | None, line: int):
        self.exc = exc
        self.cls = cls
        self.line = line


class BreakSignal(Exception):
    pass


class ContinueSignal(Exception):
    pass
