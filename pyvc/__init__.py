import z3 as _z3

# All quantifiers produced by pyvc carry explicit triggers; model-based instantiation only makes `unknown`
# answers slow (and its timeouts are advisory).  E-matching only.
_z3.set_param("smt.mbqi", False)
