"""Contracts for the reducer, part 6: rebuilding state from a recorded tick log (C11, C13)."""
from pyvc.dsl import *  # noqa

try:  # native side only
    from specs.control_loop import *  # noqa
    from specs.control_loop import I1, I2, wf_ws, wf, Inv1, Inv2, quiescent  # noqa
    from specs.control_loop_b import same_keys, same_shape  # noqa
    from specs.control_loop_d import is_exit, no_forged_telemetry  # noqa
except ImportError:  # pragma: no cover
    pass

MODULE = "workflows.runtime.control_loop"


def ticks_wellformed(state: "BrokerState", ticks: "list[WorkflowTick]"):
    """a recorded log only contains step results of steps that exist"""
    return forall(
        len(ticks),
        lambda i: (not isinstance(ticks[i], TickStepResult))
        or (ticks[i].step_name in state.workers and no_forged_telemetry(ticks[i])),
    )


@contract("workflows.runtime.control_loop.rebuild_state_from_ticks")
class RebuildFromTicks:
    properties = ["C11"]
    # a log that does not belong to the state may name a worker that is not in progress
    raises = ["ValueError"]

    def requires(state, ticks):
        return wf(state) and ticks_wellformed(state, ticks)

    def inv_1():
        return (
            same_shape(state, old(state))
            and wf(state)
            and Inv1(state)
            and ticks_wellformed(state, ticks)
            and (_i > 0 or Inv2(state))
        )

    def ensures_input_untouched(old, state, ticks, result):
        return same(state, old.state) and same(ticks, old.ticks)

    def ensures_inv(old, state, ticks, result):
        # the rebuilt state is a legal engine state for the same workflow
        return same_shape(result, state) and wf(result) and Inv1(result)

    def ensures_starts_like_the_runner(old, state, ticks, result):
        # the live runner rewinds (restarts queued / interrupted work) before the first tick: so must the rebuild.
        # With no ticks at all the result is exactly a rewound state: nothing queued while a slot is free.
        return (not (len(ticks) == 0)) or Inv2(result)


@contract("workflows.runtime.control_loop.replay_ticks_stream")
class ReplayTicksStream:
    properties = ["C11", "C13"]
    param_types = {"ticks": "list[WorkflowTick]"}
    raises = ["ValueError"]
    notes = ("the asynchronous tick stream is treated as the finite sequence of ticks it yields (the function keeps "
             "no state across awaits other than its locals)")

    def requires(state, ticks):
        return wf(state) and ticks_wellformed(state, ticks)

    # loop 1: async for tick in ticks ; loop 2: for command in commands
    def inv_1():
        return (
            same_shape(state, old(state))
            and wf(state)
            and Inv1(state)
            and ticks_wellformed(state, ticks)
            and (exit_command is None or is_exit(exit_command))
            and (_i > 0 or (Inv2(state) and exit_command is None))
        )

    def inv_2():
        return (exit_command is None or is_exit(exit_command)) and same(state, pre(state))

    def ensures_inv(old, state, ticks, result):
        return same_shape(result.state, state) and wf(result.state) and Inv1(result.state)

    def ensures_exit_command(old, state, ticks, result):
        # C13: what is reported as the run's outcome is an exit command the reducer really emitted (or nothing)
        return result.exit_command is None or is_exit(result.exit_command)

    def ensures_starts_like_the_runner(old, state, ticks, result):
        return (not (len(ticks) == 0)) or (Inv2(result.state) and result.exit_command is None)
