"""Contracts for the reducer, part 3: routing of an added event (_process_add_event_tick)."""
from pyvc.dsl import *  # noqa

try:  # native side only
    from specs.control_loop import *  # noqa
    from specs.control_loop import I1, I2, wf_ws, wf, Inv1, Inv2, quiescent  # noqa
    from specs.control_loop_b import same_keys, same_shape  # noqa
except ImportError:  # pragma: no cover
    pass

MODULE = "workflows.runtime.control_loop"


# ------------------------------------------------------------------ vocabulary
def matches(w: "StepWorkerWaiter", ev: "Event"):
    """a waiter accepts the event: it is still waiting (C10: a wait is answered at most once - not yet answered, not
    timed out), the event has exactly the awaited type and every requirement is equal"""
    return (
        w.resolved_event is None
        and (not w.timed_out)
        and type(ev) is w.waiting_for_event
        and all(getattr(ev, k, None) == v for k, v in w.requirements.items())
    )


def any_match(ws: "InternalStepWorkerState", ev: "Event"):
    return exists(len(ws.collected_waiters), lambda j: matches(ws.collected_waiters[j], ev))


def waiter_after(w2: "StepWorkerWaiter", w: "StepWorkerWaiter", ev: "Event"):
    """what the waiter pass does to one waiter: a matching waiter gets the event, everything else is kept"""
    return (
        w2.waiter_id == w.waiter_id
        and same(w2.event, w.event)
        and w2.waiting_for_event == w.waiting_for_event
        and same(w2.requirements, w.requirements)
        and w2.has_requirements == w.has_requirements
        and w2.timed_out == w.timed_out
        and (same(w2.resolved_event, ev) if matches(w, ev) else same(w2.resolved_event, w.resolved_event))
    )


def waiters_pass_done(ws2: "InternalStepWorkerState", ws: "InternalStepWorkerState", ev: "Event"):
    """a step after the waiter pass"""
    return (
        wf_ws(ws2)
        and I1(ws2)
        and ((not I2(ws)) or I2(ws2))
        and same(ws2.config, ws.config)
        and same(ws2.collected_events, ws.collected_events)
        and len(ws2.collected_waiters) == len(ws.collected_waiters)
        and forall(
            len(ws.collected_waiters), lambda j: waiter_after(ws2.collected_waiters[j], ws.collected_waiters[j], ev)
        )
        # a step none of whose waiters matches is not touched at all by the waiter pass
        and (any_match(ws, ev) or same(ws2, ws))
    )


def accepts(state: "BrokerState", s: "str", tick: "TickAddEvent"):
    return (type(tick.event) in state.config.steps[s].accepted_events) and (
        tick.step_name is None or tick.step_name == s
    )


def is_start_cmd(c: "WorkflowCommand"):
    """commands produced by starting / enqueueing work: never an UnhandledEvent"""
    return isinstance(c, CommandRunWorker) or (
        isinstance(c, CommandPublishEvent) and type_is(c.event, StepStateChanged)
    )


def routed_one(ws2: "InternalStepWorkerState", ws: "InternalStepWorkerState", tick: "TickAddEvent"):
    """exactly one more attempt in the step, carrying the tick's event; nothing else changed"""
    return (
        wf_ws(ws2)
        and I1(ws2)
        and ((not I2(ws)) or I2(ws2))
        and same(ws2.config, ws.config)
        and same(ws2.collected_events, ws.collected_events)
        and same(ws2.collected_waiters, ws.collected_waiters)
        and len(ws2.queue) + len(ws2.in_progress) == len(ws.queue) + len(ws.in_progress) + 1
        and (
            (
                len(ws2.in_progress) == len(ws.in_progress) + 1
                and same(ws2.queue, ws.queue)
                and same(ws2.in_progress[len(ws.in_progress)].event, tick.event)
                and ws2.in_progress[len(ws.in_progress)].attempts == (0 if tick.attempts is None else tick.attempts)
                and same(ws2.in_progress[len(ws.in_progress)].recovery_counts, tick.recovery_counts)
            )
            if len(ws.in_progress) < ws.config.num_workers
            else (
                same(ws2.in_progress, ws.in_progress)
                and len(ws2.queue) == len(ws.queue) + 1
                and same(ws2.queue[len(ws.queue)].event, tick.event)
                and same(ws2.queue[len(ws.queue)].attempts, tick.attempts)
                and same(ws2.queue[len(ws.queue)].first_attempt_at, tick.first_attempt_at)
                and same(ws2.queue[len(ws.queue)].recovery_counts, tick.recovery_counts)
            )
        )
    )


# ------------------------------------------------------------------ contract
@contract("workflows.runtime.control_loop._process_add_event_tick")
class AddEventTick:
    properties = ["C02", "C10", "C01", "C03", "C04", "C35"]
    clause_props = {
        "ensures_resolved_waiter_kept": ["C10"],
    }
    raises = []

    def requires(tick, init, now_seconds):
        return wf(init) and Inv1(init)

    # loop 1: waiter pass over the steps
    def inv_1():
        return (
            same_shape(state, init)
            and state.is_running == (init.is_running or isinstance(tick.event, StartEvent))
            and forall_keys(
                state.workers,
                lambda s: implies(
                    not (s in state.config.steps and dpos(state.config.steps, s) < _i),
                    same(state.workers[s], init.workers[s]),
                ),
            )
            and forall_keys(
                state.config.steps,
                lambda s: implies(
                    dpos(state.config.steps, s) < _i,
                    waiters_pass_done(state.workers[s], init.workers[s], tick.event)
                    and (s in waiter_resolved_steps) == any_match(init.workers[s], tick.event),
                ),
            )
            and forall_of(
                "str",
                lambda s: implies(
                    s in waiter_resolved_steps, s in state.config.steps and dpos(state.config.steps, s) < _i
                ),
            )
            and handled
            == exists_key(
                state.config.steps,
                lambda s: dpos(state.config.steps, s) < _i and any_match(init.workers[s], tick.event),
            )
            and forall(len(commands), lambda i: is_start_cmd(commands[i]))
            and ((len(commands) >= 1) if handled else (len(commands) == 0))
        )

    # loop 2: the waiters of one step
    def inv_2():
        return (
            wf_ws(state.workers[step_name])
            and I1(state.workers[step_name])
            and ((not I2(pre(state.workers[step_name]))) or I2(state.workers[step_name]))
            and same(state.workers[step_name].config, pre(state.workers[step_name]).config)
            and same(state.workers[step_name].collected_events, pre(state.workers[step_name]).collected_events)
            and len(state.workers[step_name].collected_waiters)
            == len(pre(state.workers[step_name]).collected_waiters)
            and forall(
                len(state.workers[step_name].collected_waiters),
                lambda j: (
                    waiter_after(
                        state.workers[step_name].collected_waiters[j],
                        pre(state.workers[step_name]).collected_waiters[j],
                        tick.event,
                    )
                    if j < _i
                    else same(
                        state.workers[step_name].collected_waiters[j],
                        pre(state.workers[step_name]).collected_waiters[j],
                    )
                ),
            )
            and (
                exists(_i, lambda j: matches(pre(state.workers[step_name]).collected_waiters[j], tick.event))
                or same(state.workers[step_name], pre(state.workers[step_name]))
            )
            and handled
            == (
                pre(handled)
                or exists(_i, lambda j: matches(pre(state.workers[step_name]).collected_waiters[j], tick.event))
            )
            and forall_of(
                "str",
                lambda s: (s in waiter_resolved_steps)
                == (
                    (s in pre(waiter_resolved_steps))
                    or (
                        s == step_name
                        and exists(
                            _i, lambda j: matches(pre(state.workers[step_name]).collected_waiters[j], tick.event)
                        )
                    )
                ),
            )
            and forall(len(commands), lambda i: is_start_cmd(commands[i]))
            and ((len(commands) >= 1) if handled else (len(commands) == 0))
        )

    # loop 3: normal routing, skipping the steps woken through a waiter
    def inv_3():
        return (
            same_shape(state, init)
            and state.is_running == pre(state.is_running)
            and forall_keys(
                state.workers,
                lambda s: implies(
                    not (s in state.config.steps and dpos(state.config.steps, s) < _i),
                    same(state.workers[s], pre(state.workers)[s]),
                ),
            )
            and forall_keys(
                state.config.steps,
                lambda s: implies(
                    dpos(state.config.steps, s) < _i,
                    (
                        routed_one(state.workers[s], pre(state.workers)[s], tick)
                        if ((not (s in waiter_resolved_steps)) and accepts(state, s, tick))
                        else same(state.workers[s], pre(state.workers)[s])
                    ),
                ),
            )
            and handled
            == (
                pre(handled)
                or exists_key(
                    state.config.steps,
                    lambda s: dpos(state.config.steps, s) < _i
                    and (not (s in waiter_resolved_steps))
                    and accepts(state, s, tick),
                )
            )
            and forall(len(commands), lambda i: is_start_cmd(commands[i]))
            and ((len(commands) >= 1) if handled else (len(commands) == 0))
        )

    # ----------------------------------------------------------- postconditions
    def ensures_input_untouched(old, tick, init, now_seconds, result):
        return same(init, old.init)

    def ensures_shape(old, tick, init, now_seconds, result):
        return same_shape(result[0], init) and result[0].is_running == (
            init.is_running or isinstance(tick.event, StartEvent)
        )

    def ensures_inv(old, tick, init, now_seconds, result):
        return wf(result[0]) and Inv1(result[0]) and ((not Inv2(init)) or Inv2(result[0]))

    def ensures_routing(old, tick, init, now_seconds, result):
        # C02: per step, exactly one of: woken through a waiter / handed the event once / untouched
        st = result[0]
        return forall_keys(
            init.config.steps,
            lambda s: (
                waiters_pass_done(st.workers[s], init.workers[s], tick.event)
                if any_match(init.workers[s], tick.event)
                else (
                    routed_one(st.workers[s], init.workers[s], tick)
                    if accepts(init, s, tick)
                    else same(st.workers[s], init.workers[s])
                )
            ),
        ) and forall_keys(
            init.workers, lambda s: implies(not (s in init.config.steps), same(st.workers[s], init.workers[s]))
        )

    def ensures_waiters(old, tick, init, now_seconds, result):
        # C10: a waiter receives exactly an event of its type that satisfies its requirements
        st = result[0]
        return forall_keys(
            init.config.steps,
            lambda s: len(st.workers[s].collected_waiters) == len(init.workers[s].collected_waiters)
            and forall(
                len(init.workers[s].collected_waiters),
                lambda j: waiter_after(
                    st.workers[s].collected_waiters[j], init.workers[s].collected_waiters[j], tick.event
                ),
            ),
        )

    def ensures_resolved_waiter_kept(old, tick, init, now_seconds, result):
        # C10: a wait is answered once - a waiter that already holds its event keeps it
        st = result[0]
        return forall_keys(
            init.config.steps,
            lambda s: forall(
                len(init.workers[s].collected_waiters),
                lambda j: implies(
                    init.workers[s].collected_waiters[j].resolved_event is not None
                    and j < len(st.workers[s].collected_waiters),
                    same(
                        st.workers[s].collected_waiters[j].resolved_event,
                        init.workers[s].collected_waiters[j].resolved_event,
                    ),
                ),
            ),
        )

    def ensures_unhandled(old, tick, init, now_seconds, result):
        # C02: UnhandledEvent exactly when nothing took the event (and it is not an InputRequiredEvent)
        st = result[0]
        cmds = result[1]
        handled = exists_key(
            init.config.steps, lambda s: any_match(init.workers[s], tick.event) or accepts(init, s, tick)
        )
        return (
            (forall(len(cmds), lambda i: is_start_cmd(cmds[i])) and len(cmds) >= 1)
            if handled
            else (
                (len(cmds) == 0)
                if isinstance(tick.event, InputRequiredEvent)
                else (
                    len(cmds) == 1
                    and isinstance(cmds[0], CommandPublishEvent)
                    and type_is(cmds[0].event, UnhandledEvent)
                    and cmds[0].event.idle == quiescent(st)
                    and same(cmds[0].event.step_name, tick.step_name)
                )
            )
        )
