"""Contracts for the reducer, part 2: rewind, waiter timeout, tick dispatch."""
from pyvc.dsl import *  # noqa

try:  # native side only
    from specs.control_loop import *  # noqa
    from specs.control_loop import I1, I2, wf_ws, wf, Inv1, Inv2, quiescent  # noqa
except ImportError:  # pragma: no cover
    pass

MODULE = "workflows.runtime.control_loop"


def same_keys(a, b):
    return forall_of("str", lambda s: (s in a) == (s in b))


def same_shape(state, init):
    """configuration and the set of steps never change"""
    return same(state.config, init.config) and same_keys(state.workers, init.workers)


def ws_static_same(a, b):
    """what no reducer step changes in a worker state except through collect / wait results"""
    return same(a.config, b.config)


# ----------------------------------------------------------------------------------------------
@contract("workflows.runtime.control_loop._process_waiter_timeout_tick")
class WaiterTimeoutTick:
    properties = ["C10", "C01", "C03", "C04"]
    raises = []

    def requires(tick, init, now_seconds):
        return wf(init) and Inv1(init)

    def ensures_shape(old, tick, init, now_seconds, result):
        return same_shape(result[0], init) and result[0].is_running == init.is_running

    def ensures_inv(old, tick, init, now_seconds, result):
        return wf(result[0]) and Inv1(result[0]) and ((not Inv2(init)) or Inv2(result[0]))

    def ensures_others_untouched(old, tick, init, now_seconds, result):
        return forall_keys(
            init.workers, lambda s: implies(s != tick.step_name, same(result[0].workers[s], init.workers[s]))
        )

    def ensures_only_start_commands(old, tick, init, now_seconds, result):
        # a waiter timeout can only start / enqueue the waiting invocation again
        return forall(
            len(result[1]),
            lambda i: isinstance(result[1][i], CommandRunWorker)
            or (isinstance(result[1][i], CommandPublishEvent) and type_is(result[1][i].event, StepStateChanged)),
        )

    def ensures_only_pending_waiter(old, tick, init, now_seconds, result):
        # C10: a timeout acts only on a waiter that exists and has not been resolved; otherwise nothing happens
        st = result[0]
        return (
            (tick.step_name in init.workers
             and exists(
                 len(init.workers[tick.step_name].collected_waiters),
                 lambda i: init.workers[tick.step_name].collected_waiters[i].waiter_id == tick.waiter_id
                 and forall(i, lambda j: init.workers[tick.step_name].collected_waiters[j].waiter_id != tick.waiter_id)
                 and init.workers[tick.step_name].collected_waiters[i].resolved_event is None,
             ))
            or (same(st, init) and len(result[1]) == 0)
        )

    def ensures_marks_timed_out(old, tick, init, now_seconds, result):
        # when it acts: exactly the first waiter with that id is flagged, the others are untouched,
        # and the waiting invocation is replayed once (one start or one enqueue)
        st = result[0]
        return (not (tick.step_name in init.workers)) or forall(
            len(init.workers[tick.step_name].collected_waiters),
            lambda i: implies(
                init.workers[tick.step_name].collected_waiters[i].waiter_id == tick.waiter_id
                and forall(i, lambda j: init.workers[tick.step_name].collected_waiters[j].waiter_id != tick.waiter_id)
                and init.workers[tick.step_name].collected_waiters[i].resolved_event is None,
                len(st.workers[tick.step_name].collected_waiters)
                == len(init.workers[tick.step_name].collected_waiters)
                and st.workers[tick.step_name].collected_waiters[i].timed_out
                and st.workers[tick.step_name].collected_waiters[i].waiter_id == tick.waiter_id
                and forall(
                    len(init.workers[tick.step_name].collected_waiters),
                    lambda j: implies(
                        j != i,
                        same(st.workers[tick.step_name].collected_waiters[j],
                             init.workers[tick.step_name].collected_waiters[j]),
                    ),
                )
                and len(st.workers[tick.step_name].queue) + len(st.workers[tick.step_name].in_progress)
                == len(init.workers[tick.step_name].queue) + len(init.workers[tick.step_name].in_progress) + 1
                and (len(result[1]) == 1 or len(result[1]) == 2),
            ),
        )


# ----------------------------------------------------------------------------------------------
@contract("workflows.runtime.control_loop.rewind_in_progress")
class Rewind:
    properties = ["C01", "C03", "C05", "C11", "C12"]
    raises = []

    def requires(state, now_seconds):
        return wf(state)

    # loop 1: for step_name, step_state in sorted(state.workers.items())
    def inv_1():
        return (
            same_shape(state, old(state))
            and state.is_running == old(state).is_running
            and forall_keys(
                state.workers,
                lambda s: implies(
                    dpos(state.workers, s, True) < _i,
                    wf_ws(state.workers[s])
                    and I1(state.workers[s])
                    and I2(state.workers[s])
                    and same(state.workers[s].config, old(state).workers[s].config)
                    and same(state.workers[s].collected_events, old(state).workers[s].collected_events)
                    and same(state.workers[s].collected_waiters, old(state).workers[s].collected_waiters)
                    and len(state.workers[s].queue) + len(state.workers[s].in_progress)
                    == len(old(state).workers[s].queue) + len(old(state).workers[s].in_progress),
                ),
            )
            and forall_keys(
                state.workers,
                lambda s: implies(dpos(state.workers, s, True) >= _i, same(state.workers[s], old(state).workers[s])),
            )
        )

    # loop 2: for in_progress in step_state.in_progress  (re-queue in front)
    def inv_2():
        return (
            same(state.config, pre(state.config))
            and state.is_running == pre(state.is_running)
            and same_keys(state.workers, pre(state.workers))
            and forall_keys(state.workers, lambda s: implies(s != step_name, same(state.workers[s], pre(state.workers[s]))))
            and same(step_state.in_progress, pre(step_state.in_progress))
            and same(step_state.config, pre(step_state.config))
            and same(step_state.collected_events, pre(step_state.collected_events))
            and same(step_state.collected_waiters, pre(step_state.collected_waiters))
            and len(step_state.queue) == len(pre(step_state.queue)) + _i
            # C05/C12: the retry counters of interrupted work are kept when it is re-queued
            and forall(
                _i,
                lambda j: same(step_state.queue[_i - 1 - j].event, step_state.in_progress[j].event)
                and step_state.queue[_i - 1 - j].attempts == step_state.in_progress[j].attempts
                and step_state.queue[_i - 1 - j].first_attempt_at == step_state.in_progress[j].first_attempt_at
                and same(step_state.queue[_i - 1 - j].last_exception, step_state.in_progress[j].last_exception)
                and same(step_state.queue[_i - 1 - j].recovery_counts, step_state.in_progress[j].recovery_counts),
            )
        )

    # loop 3: while queue and free capacity: start
    def inv_3():
        return (
            same(state.config, pre(state.config))
            and state.is_running == pre(state.is_running)
            and same_keys(state.workers, pre(state.workers))
            and forall_keys(state.workers, lambda s: implies(s != step_name, same(state.workers[s], pre(state.workers[s]))))
            and wf_ws(step_state)
            and I1(step_state)
            and same(step_state.config, pre(step_state.config))
            and same(step_state.collected_events, pre(step_state.collected_events))
            and same(step_state.collected_waiters, pre(step_state.collected_waiters))
            and len(step_state.queue) + len(step_state.in_progress)
            == len(pre(step_state.queue)) + len(pre(step_state.in_progress))
        )

    def ensures_input_untouched(old, state, now_seconds, result):
        return same(state, old.state)

    def ensures_shape(old, state, now_seconds, result):
        return same_shape(result[0], state) and result[0].is_running == state.is_running

    def ensures_inv(old, state, now_seconds, result):
        return wf(result[0]) and Inv1(result[0]) and Inv2(result[0])

    def ensures_conserved(old, state, now_seconds, result):
        # nothing is dropped or invented: per step the amount of work is the same; collected state untouched
        return forall_keys(
            state.workers,
            lambda s: len(result[0].workers[s].queue) + len(result[0].workers[s].in_progress)
            == len(state.workers[s].queue) + len(state.workers[s].in_progress)
            and same(result[0].workers[s].collected_events, state.workers[s].collected_events)
            and same(result[0].workers[s].collected_waiters, state.workers[s].collected_waiters),
        )
