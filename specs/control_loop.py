"""Contracts for workflows.runtime.control_loop (the pure tick reducer)."""
from pyvc.dsl import *  # noqa

try:  # native side only (the verifier reads this file as text and ignores this block)
    from workflows.events import *  # noqa
    from workflows.events import StepState, StepStateChanged  # noqa
    from workflows.runtime.types.commands import *  # noqa
    from workflows.runtime.types.internal_state import *  # noqa
    from workflows.runtime.types.results import *  # noqa
    from workflows.runtime.types.ticks import *  # noqa
    from workflows.errors import *  # noqa
except ImportError:  # pragma: no cover
    pass

MODULE = "workflows.runtime.control_loop"

FIELD_TYPES = {
    ("InternalStepConfig", "accepted_events"): "list[type]",
    ("StepConfig", "accepted_events"): "list[type]",
    ("StepConfig", "return_types"): "list[type]",
    ("StepConfig", "resources"): "Any",
    ("StepConfig", "skip_graph_checks"): "list[str]",
}

OPAQUE_METHODS = {
    ("RetryPolicy", "next"): dict(ret="float | None", may_raise=True, pure=False),
}

MODULE_FNS = {
    "time.time": dict(ret="float"),
    "time.monotonic": dict(ret="float"),
}

INLINE = [
    "workflows.runtime.types.commands.indicates_exit",
]


# --------------------------------------------------------------------------
# invariants over one step's worker state
# --------------------------------------------------------------------------
def I1(ws: "InternalStepWorkerState"):
    """C01: capacity respected, slot ids in range and pairwise distinct"""
    n = ws.config.num_workers
    m = len(ws.in_progress)
    return (
        m <= n
        and forall(m, lambda i: 0 <= ws.in_progress[i].worker_id and ws.in_progress[i].worker_id < n)
        and forall(m, lambda i: forall(m, lambda j: implies(i != j, ws.in_progress[i].worker_id != ws.in_progress[j].worker_id)))
    )


def I2(ws: "InternalStepWorkerState"):
    """C03(a): work conserving - queued events only while every worker slot is busy"""
    return implies(len(ws.queue) > 0, len(ws.in_progress) == ws.config.num_workers)


def wf_ws(ws: "InternalStepWorkerState"):
    return ws.config.num_workers >= 1


@contract("workflows.runtime.control_loop._add_or_enqueue_event")
class AddOrEnqueue:
    properties = ["C01", "C02", "C03", "C05", "C35"]
    modifies = ["state"]
    raises = []

    def requires(event, step_name, state, now_seconds):
        return wf_ws(state) and I1(state)

    def assume_free_slot(event, step_name, state, now_seconds):
        # lemma exists_free_slot (lemmas/FreeSlot.lean): fewer than n entries cannot use up n ids
        n = state.config.num_workers
        m = len(state.in_progress)
        return implies(m < n, exists(n, lambda i: forall(m, lambda j: state.in_progress[j].worker_id != i)))

    def ensures_I1(old, event, step_name, state, now_seconds, result):
        return I1(state)

    def ensures_I2_kept(old, event, step_name, state, now_seconds, result):
        return implies(I2(old.state), I2(state))

    def ensures_frame(old, event, step_name, state, now_seconds, result):
        return (
            same(state.config, old.state.config)
            and same(state.collected_events, old.state.collected_events)
            and same(state.collected_waiters, old.state.collected_waiters)
        )

    def ensures_started_xor_queued(old, event, step_name, state, now_seconds, result):
        m = len(old.state.in_progress)
        q = len(old.state.queue)
        has_space = m < old.state.config.num_workers
        used = set(x.worker_id for x in old.state.in_progress)
        return (
            # started on the smallest free slot; queue untouched
            len(state.in_progress) == m + 1
            and forall(m, lambda i: same(state.in_progress[i], old.state.in_progress[i]))
            and same(state.queue, old.state.queue)
            and forall(m, lambda j: old.state.in_progress[j].worker_id != state.in_progress[m].worker_id)
            # ... and it is the SMALLEST free slot
            and state.in_progress[m].worker_id
            == [i for i in range(old.state.config.num_workers) if i not in used][0]
            and same(state.in_progress[m].event, event.event)
            and len(result) == 2
            and isinstance(result[0], CommandRunWorker)
            and result[0].step_name == step_name
            and same(result[0].event, event.event)
            and result[0].id == state.in_progress[m].worker_id
            and isinstance(result[1], CommandPublishEvent)
            and type_is(result[1].event, StepStateChanged)
            and result[1].event.step_state == StepState.RUNNING
            and result[1].event.name == step_name
            and result[1].event.worker_id == str_of_int(state.in_progress[m].worker_id)
        ) if has_space else (
            # queued behind everything already waiting; running work untouched
            same(state.in_progress, old.state.in_progress)
            and len(state.queue) == q + 1
            and forall(q, lambda i: same(state.queue[i], old.state.queue[i]))
            and same(state.queue[q], event)
            and len(result) == 1
            and isinstance(result[0], CommandPublishEvent)
            and type_is(result[0].event, StepStateChanged)
            and result[0].event.step_state == StepState.PREPARING
            and result[0].event.name == step_name
        )

    def ensures_retry_fields(old, event, step_name, state, now_seconds, result):
        # C05: the attempt counters travel with the event into the slot
        m = len(old.state.in_progress)
        return (not (m < old.state.config.num_workers)) or (
            state.in_progress[m].attempts == ite(event.attempts is None, 0, opt_val(event.attempts))
            and same(state.in_progress[m].last_exception, event.last_exception)
            and same(state.in_progress[m].last_failed_at, event.last_failed_at)
            and same(state.in_progress[m].recovery_counts, event.recovery_counts)
            and state.in_progress[m].first_attempt_at
            == ite(event.first_attempt_at is None, now_seconds, opt_val(event.first_attempt_at))
        )

    def ensures_snapshot(old, event, step_name, state, now_seconds, result):
        # C09: the invocation's snapshot equals the live collected state at start time
        m = len(old.state.in_progress)
        return (not (m < old.state.config.num_workers)) or (
            same(state.in_progress[m].shared_state.collected_events, old.state.collected_events)
            and same(state.in_progress[m].shared_state.collected_waiters, old.state.collected_waiters)
            and state.in_progress[m].shared_state.step_name == step_name
        )


EVENT_FIELDS = {
    "active_steps": "list[str]",
    "timeout": "float",
    "step_state": "StepState",
    "name": "str",
    "worker_id": "str",
    "input_event_name": "str",
    "output_event_name": "str | None",
    "step_name": "str | None",
    "exception": "Exception",
    "attempts": "int",
    "elapsed_seconds": "float",
    "input_event": "Event",
    "idle": "bool",
    "event_type": "str",
    "qualified_name": "str",
}


# --------------------------------------------------------------------------
# broker-level predicates
# --------------------------------------------------------------------------
def wf(state: "BrokerState"):
    """well-formed broker state: every configured step has a worker state, num_workers >= 1"""
    return (
        forall_keys(state.config.steps, lambda s: s in state.workers)
        and forall_keys(state.workers, lambda s: wf_ws(state.workers[s]))
    )


def Inv1(state: "BrokerState"):
    return forall_keys(state.workers, lambda s: I1(state.workers[s]))


def Inv2(state: "BrokerState"):
    return forall_keys(state.workers, lambda s: I2(state.workers[s]))


def quiescent(state: "BrokerState"):
    return state.is_running and forall_keys(
        state.workers, lambda s: len(state.workers[s].queue) == 0 and len(state.workers[s].in_progress) == 0
    )


@contract("workflows.runtime.control_loop._check_idle_state")
class CheckIdle:
    properties = ["C03"]
    raises = []

    def requires(state):
        return True

    def inv_1():
        return forall_keys(
            state.workers,
            lambda s: implies(
                dpos(state.workers, s) < _i,
                len(state.workers[s].queue) == 0 and len(state.workers[s].in_progress) == 0,
            ),
        )

    def ensures_exact(old, state, result):
        return result == quiescent(state)


@contract("workflows.runtime.control_loop._process_cancel_run_tick")
class CancelTick:
    properties = ["C31", "C04", "C01", "C03"]
    raises = []

    def requires(tick, init):
        return True

    def ensures_state_kept(old, tick, init, result):
        return same(result[0], init)

    def ensures_commands(old, tick, init, result):
        cmds = result[1]
        return (
            len(cmds) == 2
            and isinstance(cmds[0], CommandPublishEvent)
            and type_is(cmds[0].event, WorkflowCancelledEvent)
            and isinstance(cmds[1], CommandHalt)
            and type_is(cmds[1].exception, WorkflowCancelledByUser)
        )


@contract("workflows.runtime.control_loop._process_publish_event_tick")
class PublishTick:
    properties = ["C04", "C01", "C03"]
    raises = []

    def requires(tick, init):
        return True

    def ensures_passthrough(old, tick, init, result):
        cmds = result[1]
        return (
            same(result[0], init)
            and len(cmds) == 1
            and isinstance(cmds[0], CommandPublishEvent)
            and same(cmds[0].event, tick.event)
        )


@contract("workflows.runtime.control_loop._process_timeout_tick")
class TimeoutTick:
    properties = ["C31", "C04", "C01", "C03"]
    raises = []

    def requires(tick, init):
        return True

    def ensures_state(old, tick, init, result):
        return (
            result[0].is_running == False  # noqa: E712
            and same(result[0].config, init.config)
            and same(result[0].workers, init.workers)
        )

    def ensures_commands(old, tick, init, result):
        cmds = result[1]
        return (
            len(cmds) == 2
            and isinstance(cmds[0], CommandPublishEvent)
            and type_is(cmds[0].event, WorkflowTimedOutEvent)
            and cmds[0].event.timeout == tick.timeout
            and isinstance(cmds[1], CommandHalt)
            and type_is(cmds[1].exception, WorkflowTimeoutError)
        )

    def ensures_active_steps(old, tick, init, result):
        # the event names exactly the steps that had running invocations
        ev = result[1][0].event
        return forall_of(
            "str",
            lambda s: (s in ev.active_steps) == (s in init.workers and len(init.workers[s].in_progress) > 0),
        )

    def native_ensures_active_steps(old, tick, init, result):
        ev = result[1][0].event
        return set(ev.active_steps) == {s for s, w in init.workers.items() if len(w.in_progress) > 0} and len(
            set(ev.active_steps)
        ) == len(ev.active_steps)
