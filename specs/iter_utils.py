"""Contract for llama_agents.core.iter_utils.debounced_sorted_prefix (C29: nothing overtakes the sorted burst).

The function is an async generator; it is verified as the function that builds the sequence it yields (pyvc/verify.py::
generator_as_ghost_list: `yield e` -> `_yielded = _yielded + [e]`, mechanically, on the real AST of every run).  The
schedule enters it only through the merged stream it iterates over: `merge_generators(inner, debouncer.aiter())` is
treated as the finite sequence of items it delivers (ASSUMED contract MergedStream: the one-shot marker of the debouncer
occurs in it exactly once - merge_generators' exactly-once delivery, which is only checked by the bounded stand-in of
propchecks/C29.py - and `inner` never produces the marker string itself).  WHERE the marker sits in that sequence is
universally quantified: that is 'all item timings relative to the debounce window'."""
from pyvc.dsl import *  # noqa

MODULE = "llama_agents.core.iter_utils"

OPAQUE_CTORS = ["Debouncer"]  # the timer object: constructed once, its __init__ (tasks, clocks) is not executed

OPAQUE_METHODS = {
    ("Debouncer", "aiter"): dict(ret="opaque:Stream", pure=True),       # the one-shot marker stream
    ("Debouncer", "extend_window"): dict(ret="None", pure=False),       # moves the debounce deadline (not read here)
}


def marker_pos(m: "list[Any]") -> "int":
    return uf("marker_pos", "int", m)


def in_prefix(m: "list[Any]", c: "int", x: "Any") -> "bool":
    """x is one of the first c items of m"""
    return exists(c, lambda q: m[q] == x)


@contract("llama_agents.core.iter_utils.merge_generators")
class MergedStream:
    properties = ["C29"]
    trusted = True
    raises = []
    ret_type = "list[Any]"
    notes = ("ASSUMED: the merged stream as the finite sequence of items it delivers; the debouncer's one-shot marker "
             "occurs exactly once in it (bounded check only: propchecks/C29.py)")

    def requires(generators, stop_on_first_completion):
        return True

    def ensures_one_marker(old, generators, stop_on_first_completion, result):
        return (
            same(result, uf("merged_of", "list[Any]"))  # THE merged stream of this call (it is made once)
            and 0 <= uf("marker_pos", "int", result) and uf("marker_pos", "int", result) < len(result)
            and forall(len(result), lambda j: (result[j] == "__COMPLETE__") == (j == uf("marker_pos", "int", result)))
        )


@contract("llama_agents.core.iter_utils.debounced_sorted_prefix")
class DebouncedSortedPrefix:
    properties = ["C29"]
    raises = []
    param_types = {"inner": "opaque:Stream", "key": "opaque:KeyFn"}

    def requires(inner, key, debounce_seconds, max_window_seconds):
        return True

    # loop 1: async for item in merged
    def inv_1():
        return (
            (
                (not flushed) and len(_yielded) == 0 and len(buffer) == _i
                and forall(_i, lambda p: in_prefix(merged, _i, buffer[p]))
                and forall(_i, lambda q: in_prefix(buffer, _i, merged[q]))
            )
            if _i <= marker_pos(merged)
            else (
                flushed and len(_yielded) == _i - 1
                and forall(marker_pos(merged), lambda p: in_prefix(merged, marker_pos(merged), _yielded[p]))
                and forall(marker_pos(merged), lambda q: in_prefix(_yielded, marker_pos(merged), merged[q]))
                and forall_range(marker_pos(merged) + 1, _i, lambda j: _yielded[j - 1] == merged[j])
            )
        )

    # loop 2: for buffered_item in buffer (the flush)
    def inv_2():
        return (
            _i1 == marker_pos(merged) and (not flushed) and len(buffer) == marker_pos(merged)
            and forall(marker_pos(merged), lambda p: in_prefix(merged, marker_pos(merged), buffer[p]))
            and forall(marker_pos(merged), lambda q: in_prefix(buffer, marker_pos(merged), merged[q]))
            and len(_yielded) == _i
            and forall(_i, lambda p: _yielded[p] == buffer[p])
        )

    def ensures_nothing_overtakes_the_burst(old, inner, key, debounce_seconds, max_window_seconds, yielded, result):
        # C29: with c = the position of the window's marker in the merged stream (ANY position): every item is yielded
        # once - the first c yielded items are exactly the items that arrived before the marker (in some order: the
        # sort), the rest are the later items in arrival order; so no later item comes before the burst
        m = uf("merged_of", "list[Any]")
        c = marker_pos(m)
        return (
            len(yielded) == len(m) - 1
            and forall(c, lambda p: in_prefix(m, c, yielded[p]))
            and forall(c, lambda q: in_prefix(yielded, c, m[q]))
            and forall_range(c + 1, len(m), lambda j: yielded[j - 1] == m[j])
        )
