"""Contracts for the runner side of the control loop: how reducer commands are executed (C02, C03, C14)."""
from pyvc.dsl import *  # noqa

try:  # native side only
    from specs.control_loop import *  # noqa
except ImportError:  # pragma: no cover
    pass

MODULE = "workflows.runtime.control_loop"

PLAIN_CLASSES = {
    "_ControlLoopRunner": [
        ("adapter", "InternalRunAdapter"),
        ("tick_buffer", "list[WorkflowTick]"),
        ("scheduled_wakeups", "list[tuple[float, int, WorkflowTick]]"),
        ("_wakeup_sequence", "int"),
        ("_idle_check_pending", "bool"),
        ("_pending_workers", "list[PendingStart]"),
        ("state", "BrokerState"),
    ],
}

OPAQUE_ATTRS = {
    ("InternalRunAdapter", "run_id"): "str",
}

OPAQUE_METHODS = {
    ("InternalRunAdapter", "get_now"): dict(ret="float", pure=False),
    ("InternalRunAdapter", "write_to_event_stream"): dict(ret="None", pure=False),
    # the journal hooks of the adapter (persistence_runtime's adapter is one implementation, see PersistTick)
    ("InternalRunAdapter", "on_tick"): dict(ret="None", pure=False, log=True, may_raise=True),
    ("InternalRunAdapter", "after_tick"): dict(ret="None", pure=False, log=True, may_raise=True),
}


@contract("workflows.runtime.control_loop._ControlLoopRunner.schedule_tick")
class ScheduleTick:
    properties = ["C02", "C03", "C14"]
    trusted = True
    modifies = ["self"]
    raises = []
    notes = "trusted: heapq.heappush keeps the multiset of scheduled (time, seq, tick) entries plus the new one"

    def requires(self, tick, at_time):
        return True

    def ensures_pushed(old, self, tick, at_time, result):
        return (
            len(self.scheduled_wakeups) == len(old.self.scheduled_wakeups) + 1
            and exists(
                len(self.scheduled_wakeups),
                lambda i: self.scheduled_wakeups[i][0] == at_time and same(self.scheduled_wakeups[i][2], tick),
            )
            and same(self.tick_buffer, old.self.tick_buffer)
            and self._idle_check_pending == old.self._idle_check_pending
            and same(self._pending_workers, old.self._pending_workers)
            and same(self.adapter, old.self.adapter)
        )


@contract("workflows.runtime.control_loop._ControlLoopRunner.run_worker")
class RunWorker:
    properties = ["C02"]
    trusted = True
    modifies = ["self"]
    raises = []
    notes = "trusted: one pending worker coroutine is registered per CommandRunWorker"

    def requires(self, command):
        return True

    def ensures_registered(old, self, command, result):
        return (
            len(self._pending_workers) == len(old.self._pending_workers) + 1
            and same(self.tick_buffer, old.self.tick_buffer)
            and same(self.scheduled_wakeups, old.self.scheduled_wakeups)
            and self._idle_check_pending == old.self._idle_check_pending
        )


@contract("workflows.runtime.control_loop._ControlLoopRunner.cleanup_tasks")
class CleanupTasks:
    properties = ["C04"]
    trusted = True
    modifies = ["self"]
    raises = []
    notes = "trusted: cancels worker tasks and closes the adapter; touches neither the tick buffer nor the schedule"

    def requires(self):
        return True

    def ensures_frame(old, self, result):
        return same(self.tick_buffer, old.self.tick_buffer) and same(self.scheduled_wakeups, old.self.scheduled_wakeups)


@contract("workflows.runtime.control_loop._ControlLoopRunner.process_command")
class ProcessCommand:
    properties = ["C02", "C03", "C14"]
    modifies = ["self"]
    # Halt / FailWorkflow raise the exception they carry; an unknown command is a ValueError
    raises = ["*user", "ValueError"]

    def requires(self, command):
        return True

    def ensures_queue_event(old, self, command, result):
        # C02: an event handed to routing becomes exactly one TickAddEvent - immediately when there is no (positive)
        # delay, otherwise exactly one scheduled entry due `delay` seconds from now; C03: a zero-delay retry is
        # buffered *before* the deferred idle check, so the run is never announced idle in between
        return (not isinstance(command, CommandQueueEvent)) or (
            result is None
            and (
                (
                    len(self.tick_buffer) == len(old.self.tick_buffer) + 1
                    and forall(len(old.self.tick_buffer), lambda i: same(self.tick_buffer[i], old.self.tick_buffer[i]))
                    and isinstance(self.tick_buffer[len(old.self.tick_buffer)], TickAddEvent)
                    and same(self.tick_buffer[len(old.self.tick_buffer)].event, command.event)
                    and same(self.tick_buffer[len(old.self.tick_buffer)].step_name, command.step_name)
                    and same(self.tick_buffer[len(old.self.tick_buffer)].attempts, command.attempts)
                    and same(self.tick_buffer[len(old.self.tick_buffer)].first_attempt_at, command.first_attempt_at)
                    and same(self.tick_buffer[len(old.self.tick_buffer)].recovery_counts, command.recovery_counts)
                    and same(self.scheduled_wakeups, old.self.scheduled_wakeups)
                )
                if (command.delay is None or opt_val(command.delay) <= 0)
                else (
                    same(self.tick_buffer, old.self.tick_buffer)
                    and len(self.scheduled_wakeups) == len(old.self.scheduled_wakeups) + 1
                    and exists(
                        len(self.scheduled_wakeups),
                        lambda i: isinstance(self.scheduled_wakeups[i][2], TickAddEvent)
                        and same(self.scheduled_wakeups[i][2].event, command.event)
                        and same(self.scheduled_wakeups[i][2].attempts, command.attempts),
                    )
                )
            )
        )

    def ensures_idle_check(old, self, command, result):
        # C03: at most one TickIdleCheck is pending at any time
        return (not isinstance(command, CommandScheduleIdleCheck)) or (
            result is None
            and self._idle_check_pending
            and same(self.scheduled_wakeups, old.self.scheduled_wakeups)
            and (
                same(self.tick_buffer, old.self.tick_buffer)
                if old.self._idle_check_pending
                else (
                    len(self.tick_buffer) == len(old.self.tick_buffer) + 1
                    and isinstance(self.tick_buffer[len(old.self.tick_buffer)], TickIdleCheck)
                    and forall(len(old.self.tick_buffer), lambda i: same(self.tick_buffer[i], old.self.tick_buffer[i]))
                )
            )
        )

    def ensures_waiter_timeout(old, self, command, result):
        # C10 / C14: a waiter timeout is scheduled exactly once, `timeout` seconds from now
        return (not isinstance(command, CommandScheduleWaiterTimeout)) or (
            result is None
            and same(self.tick_buffer, old.self.tick_buffer)
            and len(self.scheduled_wakeups) == len(old.self.scheduled_wakeups) + 1
            and exists(
                len(self.scheduled_wakeups),
                lambda i: isinstance(self.scheduled_wakeups[i][2], TickWaiterTimeout)
                and self.scheduled_wakeups[i][2].step_name == command.step_name
                and self.scheduled_wakeups[i][2].waiter_id == command.waiter_id,
            )
        )

    def ensures_other_commands(old, self, command, result):
        # running a worker / publishing an event does not create or drop ticks; completing returns the result
        return (
            (
                not (isinstance(command, CommandRunWorker) or isinstance(command, CommandPublishEvent))
                or (
                    result is None
                    and same(self.tick_buffer, old.self.tick_buffer)
                    and same(self.scheduled_wakeups, old.self.scheduled_wakeups)
                )
            )
            and ((not isinstance(command, CommandCompleteRun)) or same(result, command.result))
        )


@contract("workflows.runtime.control_loop._ControlLoopRunner._process_tick")
class RunnerProcessTick:
    properties = ["C11", "C13"]
    modifies = ["self"]
    raises = ["ValueError", "*user"]

    def requires(self, tick):
        return (
            wf(self.state)
            and Inv1(self.state)
            and ((not isinstance(tick, TickStepResult)) or (tick.step_name in self.state.workers and no_forged_telemetry(tick)))
        )

    # loop 1: for command in commands
    def inv_1():
        return True

    def ensures_every_reduced_tick_is_shown_to_the_journal(old, self, tick, result):
        # C11 / C13: a tick the live loop has reduced is handed to adapter.on_tick exactly once - before any of its
        # commands is executed - so that the journal a replay reads is complete; after_tick follows exactly when the
        # tick did not end the run
        return (
            tcalls("InternalRunAdapter", "on_tick") == 1
            and same(tcall_pos("InternalRunAdapter", "on_tick", 0, 0), tick)
            and tcalls("InternalRunAdapter", "after_tick") == (1 if result is None else 0)
        )

    def raised_ValueError(old, self, tick, exc):
        # a tick the reducer rejected did not change the state and is not journaled - or it was journaled first and
        # one of its commands failed afterwards (Halt / FailWorkflow carry their exception)
        return tcalls("InternalRunAdapter", "on_tick") <= 1 and tcalls("InternalRunAdapter", "after_tick") == 0
