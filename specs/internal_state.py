"""Contracts for workflows.runtime.types.internal_state / results (state copies)."""
from pyvc.dsl import *  # noqa

MODULE = "workflows.runtime.types.internal_state"


@contract("workflows.runtime.types.internal_state.InternalStepWorkerState._deepcopy")
class WorkerStateDeepcopy:
    properties = ["C01", "C09", "C10", "C11", "C14"]
    raises = []

    def ensures_equal(old, self, result):
        return same(result, self)

    def native_no_sharing(old, self, result):
        # a deep copy: no list / dict / mutable record is reachable from both the copy and the original
        return no_shared_mutables(result, self, ("StepConfig", "InternalStepConfig", "BrokerConfig"))


@contract("workflows.runtime.types.internal_state.InProgressState._deepcopy")
class InProgressDeepcopy:
    properties = ["C09", "C10", "C11", "C14"]
    raises = []

    def ensures_equal(old, self, result):
        return same(result, self)

    def native_no_sharing(old, self, result):
        # a deep copy: no list / dict / mutable record is reachable from both the copy and the original
        return no_shared_mutables(result, self, ("StepConfig", "InternalStepConfig", "BrokerConfig"))


@contract("workflows.runtime.types.results.StepWorkerState._deepcopy")
class StepWorkerStateDeepcopy:
    properties = ["C09", "C10", "C11", "C14"]
    module = "workflows.runtime.types.results"
    raises = []

    def ensures_equal(old, self, result):
        return same(result, self)

    def native_no_sharing(old, self, result):
        # a deep copy: no list / dict / mutable record is reachable from both the copy and the original
        return no_shared_mutables(result, self, ("StepConfig", "InternalStepConfig", "BrokerConfig"))


@contract("workflows.runtime.types.internal_state.BrokerState.deepcopy")
class BrokerStateDeepcopy:
    properties = ["C11"]
    raises = []

    def ensures_equal(old, self, result):
        return same(result, self)

    def native_no_sharing(old, self, result):
        # a deep copy: no list / dict / mutable record is reachable from both the copy and the original
        return no_shared_mutables(result, self, ("StepConfig", "InternalStepConfig", "BrokerConfig"))
