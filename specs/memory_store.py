"""Contracts for the in-memory handler store (C24)."""
from pyvc.dsl import *  # noqa

MODULE = "llama_agents.server._store.memory_workflow_store"

FIELD_TYPES = {
    ("StoredTick", "tick_data"): "opaque:TickData",
    ("PersistentHandler", "status"): "str",
    ("HandlerQuery", "status_in"): "list[str] | None",
}

LOCK_TYPES = ["Condition"]

OPAQUE_METHODS = {
    ("Condition", "notify_all"): dict(ret="None", pure=False),
    ("Condition", "notify"): dict(ret="None", pure=False),
}

MODULE_FNS = {
    "datetime.datetime.now": dict(ret="datetime", pure=False),
    "datetime.now": dict(ret="datetime", pure=False),
}

INLINE = [
    "llama_agents.server._store.abstract_workflow_store.is_terminal_status",
]


def filter_ok(xs: "list[str] | None", x: "str"):
    """a list filter: absent, or non-empty and containing the value (an empty list matches nothing)"""
    return xs is None or exists(len(opt_val(xs)), lambda i: opt_val(xs)[i] == x)


def handler_matches(h: "PersistentHandler", q: "HandlerQuery"):
    return (
        filter_ok(q.handler_id_in, h.handler_id)
        and (q.run_id_in is None or (h.run_id is not None and filter_ok(q.run_id_in, opt_val(h.run_id))))
        and filter_ok(q.workflow_name_in, h.workflow_name)
        and filter_ok(q.status_in, h.status)
        and (q.is_idle is None or opt_val(q.is_idle) == (h.idle_since is not None))
    )


@contract("llama_agents.server._store.memory_workflow_store._matches_query")
class MatchesQuery:
    properties = ["C24"]
    raises = []

    def requires(handler, query):
        return True

    def ensures_exactly_all_filters(old, handler, query, result):
        return result == handler_matches(handler, query)

    def ensures_pure(old, handler, query, result):
        return same(handler, old.handler) and same(query, old.query)


PLAIN_CLASSES = {
    "MemoryWorkflowStore": [
        ("handlers", "dict[str, PersistentHandler]"),
        ("events", "dict[str, list[StoredEvent]]"),
        ("ticks", "dict[str, list[StoredTick]]"),
        ("_conditions", "dict[str, opaque:Condition]"),
        ("state_stores", "dict[str, opaque:InMemoryStateStore]"),
        ("max_completed", "int | None"),
        ("_terminal_queue", "list[str]"),  # a deque: append / popleft / remove, modelled as a list
    ],
}


def terminal(s: "str"):
    return s == "completed" or s == "failed" or s == "cancelled"


def keyed_by_id(hs: "dict[str, PersistentHandler]"):
    return forall_keys(hs, lambda k: hs[k].handler_id == k)


@contract("llama_agents.server._store.memory_workflow_store.MemoryWorkflowStore.query")
class StoreQuery:
    properties = ["C24"]
    raises = []

    def requires(self, query):
        return keyed_by_id(self.handlers)

    def ensures_store_untouched(old, self, query, result):
        return same(self, old.self)

    def ensures_only_matching(old, self, query, result):
        return forall(
            len(result),
            lambda i: result[i].handler_id in self.handlers
            and same(self.handlers[result[i].handler_id], result[i])
            and handler_matches(result[i], query),
        )

    def ensures_all_matching(old, self, query, result):
        return forall_keys(
            self.handlers,
            lambda k: (not handler_matches(self.handlers[k], query)) or exists(len(result), lambda i: result[i].handler_id == k),
        )

    def ensures_each_once(old, self, query, result):
        return forall(len(result), lambda i: forall(i, lambda j: result[j].handler_id != result[i].handler_id))


# ------------------------------------------------------------------ retention of completed handlers
def queue_exact(hs: "dict[str, PersistentHandler]", q: "list[str]"):
    """the completion queue lists exactly the completed handlers, each once (oldest completion first)"""
    return (
        forall(len(q), lambda i: q[i] in hs and terminal(hs[q[i]].status))
        and forall_keys(hs, lambda k: (not terminal(hs[k].status)) or exists(len(q), lambda i: q[i] == k))
        and forall(len(q), lambda i: forall(i, lambda j: q[j] != q[i]))
    )


def store_inv(s: "MemoryWorkflowStore"):
    return (
        keyed_by_id(s.handlers)
        and queue_exact(s.handlers, s._terminal_queue)
        and (s.max_completed is None or (opt_val(s.max_completed) >= 0))
    )


def within_cap(s: "MemoryWorkflowStore"):
    return s.max_completed is None or len(s._terminal_queue) <= opt_val(s.max_completed)


@contract("llama_agents.server._store.memory_workflow_store.MemoryWorkflowStore._evict_oldest_completed")
class EvictOldest:
    properties = ["C24"]
    modifies = ["self"]
    raises = []

    def requires(self):
        return store_inv(self)

    # while len(self._terminal_queue) > self.max_completed
    def inv_1():
        return (
            store_inv(self)
            and same(self.max_completed, old(self).max_completed)
            and len(self._terminal_queue) <= len(old(self)._terminal_queue)
            and (
                len(self._terminal_queue) == len(old(self)._terminal_queue)
                or (self.max_completed is not None and len(self._terminal_queue) >= opt_val(self.max_completed))
            )
            # the queue is a suffix of what it was: only oldest completions are dropped
            and forall(
                len(self._terminal_queue),
                lambda j: self._terminal_queue[j]
                == old(self)._terminal_queue[j + len(old(self)._terminal_queue) - len(self._terminal_queue)],
            )
            # handlers: exactly the dropped (oldest) completions are gone, nothing else changed
            and forall_keys(self.handlers, lambda k: k in old(self).handlers and same(self.handlers[k], old(self).handlers[k]))
            and forall_keys(
                old(self).handlers,
                lambda k: (k in self.handlers)
                == (
                    not exists(
                        len(old(self)._terminal_queue) - len(self._terminal_queue),
                        lambda j: old(self)._terminal_queue[j] == k,
                    )
                ),
            )
        )

    def ensures_inv(old, self, result):
        return store_inv(self) and within_cap(self) and same(self.max_completed, old.self.max_completed)

    def ensures_drops_only_oldest_completions(old, self, result):
        # the newest min(cap, n) completions stay, in order; every non-completed handler stays
        dropped = len(old.self._terminal_queue) - len(self._terminal_queue)
        return (
            dropped >= 0
            and (
                dropped == 0
                or (
                    old.self.max_completed is not None
                    and len(self._terminal_queue) == opt_val(old.self.max_completed)
                )
            )
            and forall(
                len(self._terminal_queue), lambda j: self._terminal_queue[j] == old.self._terminal_queue[j + dropped]
            )
            and forall_keys(
                self.handlers, lambda k: k in old.self.handlers and same(self.handlers[k], old.self.handlers[k])
            )
            and forall_keys(
                old.self.handlers,
                lambda k: (k in self.handlers) == (not exists(dropped, lambda j: old.self._terminal_queue[j] == k)),
            )
        )


@contract("llama_agents.server._store.memory_workflow_store.MemoryWorkflowStore.update")
class StoreUpdate:
    properties = ["C24"]
    modifies = ["self"]
    raises = []

    def requires(self, handler):
        return store_inv(self) and within_cap(self)

    def ensures_inv(old, self, handler, result):
        # the queue keeps listing exactly the completed handlers (each once), within the cap
        return store_inv(self) and within_cap(self) and same(self.max_completed, old.self.max_completed)

    def ensures_nothing_invented(old, self, handler, result):
        return forall_keys(
            self.handlers,
            lambda k: same(self.handlers[k], handler)
            if k == handler.handler_id
            else (k in old.self.handlers and same(self.handlers[k], old.self.handlers[k])),
        )

    def ensures_open_handlers_kept(old, self, handler, result):
        # "keeps all non-terminal handlers"
        return forall_keys(
            old.self.handlers,
            lambda k: k == handler.handler_id or terminal(old.self.handlers[k].status) or k in self.handlers,
        ) and (terminal(handler.status) or handler.handler_id in self.handlers)

    def ensures_newest_completions_kept(old, self, handler, result):
        # "... and the max_completed most recently completed ones": only the oldest completions can go, and only
        # when the cap is really exceeded; the handler just completed is the newest one
        n_after = len(old.self._terminal_queue) + (
            1
            if (
                terminal(handler.status)
                and not exists(len(old.self._terminal_queue), lambda i: old.self._terminal_queue[i] == handler.handler_id)
            )
            else 0
        )
        return (
            (
                (old.self.max_completed is not None and n_after > opt_val(old.self.max_completed))
                or forall_keys(old.self.handlers, lambda k: k in self.handlers)
            )
            and forall(
                len(old.self._terminal_queue),
                lambda i: old.self._terminal_queue[i] == handler.handler_id
                or old.self._terminal_queue[i] in self.handlers
                or forall(
                    i,
                    lambda j: old.self._terminal_queue[j] == handler.handler_id
                    or old.self._terminal_queue[j] not in self.handlers,
                ),
            )
            and (
                (not terminal(handler.status))
                or (old.self.max_completed is not None and opt_val(old.self.max_completed) == 0)
                or handler.handler_id in self.handlers
            )
        )


@contract("llama_agents.server._store.memory_workflow_store.MemoryWorkflowStore.delete")
class StoreDelete:
    properties = ["C24"]
    modifies = ["self"]
    raises = []

    def requires(self, query):
        return store_inv(self) and within_cap(self)

    def inv_1():
        return (
            forall_keys(self.handlers, lambda k: k in old(self).handlers and same(self.handlers[k], old(self).handlers[k]))
            and forall_keys(
                old(self).handlers,
                lambda k: (k in self.handlers) == (not exists(_i, lambda j: to_delete[j] == k)),
            )
            and dsize(self.handlers) == dsize(old(self).handlers) - _i
            # what the comprehension computed: exactly the ids of the matching handlers, each once
            and forall(
                len(to_delete),
                lambda j: to_delete[j] in old(self).handlers and handler_matches(old(self).handlers[to_delete[j]], query),
            )
            and forall_keys(
                old(self).handlers,
                lambda k: (not handler_matches(old(self).handlers[k], query))
                or dpos_exact(old(self).handlers, k) < 0
                or exists(len(to_delete), lambda j: to_delete[j] == k),
            )
            and forall(len(to_delete), lambda j: forall(j, lambda j2: to_delete[j2] != to_delete[j]))
            and same(self.events, old(self).events)
            and same(self.ticks, old(self).ticks)
            and same(self.state_stores, old(self).state_stores)
            and same(self.max_completed, old(self).max_completed)
            # the completion queue follows the handlers: still exactly the completed ones, each once
            and queue_exact(self.handlers, self._terminal_queue)
            and len(self._terminal_queue) <= len(old(self)._terminal_queue)
        )

    def ensures_exactly_matching_removed(old, self, query, result):
        return forall_keys(
            old.self.handlers,
            lambda k: (k in self.handlers) == (not handler_matches(old.self.handlers[k], query)),
        ) and forall_keys(
            self.handlers, lambda k: k in old.self.handlers and same(self.handlers[k], old.self.handlers[k])
        )

    def ensures_count(old, self, query, result):
        return result == dsize(old.self.handlers) - dsize(self.handlers) and result >= 0

    def ensures_inv(old, self, query, result):
        # deleted handlers leave no entry behind in the completion queue (a stale entry would count towards the cap)
        return store_inv(self) and within_cap(self) and same(self.max_completed, old.self.max_completed)


# ------------------------------------------------------------------ the event log (C16, in-memory store)
def log_gap_free(evs: "list[StoredEvent]"):
    """sequence numbers are 0, 1, 2, ... in list (= publication) order"""
    return forall(len(evs), lambda i: evs[i].sequence == i)


def logs_gap_free(s: "MemoryWorkflowStore"):
    return forall_keys(s.events, lambda r: log_gap_free(s.events[r]))


@contract("llama_agents.server._store.memory_workflow_store.MemoryWorkflowStore.append_event")
class AppendEvent:
    properties = ["C16"]
    modifies = ["self"]
    raises = []

    def requires(self, run_id, event):
        return logs_gap_free(self)

    def ensures_next_number(old, self, run_id, event, result):
        # the new record is appended at the end of this run's log with the next consecutive number; earlier records
        # and the logs of other runs are untouched
        n = len(old.self.events[run_id]) if run_id in old.self.events else 0
        return (
            run_id in self.events
            and len(self.events[run_id]) == n + 1
            and self.events[run_id][n].sequence == n
            and self.events[run_id][n].run_id == run_id
            and same(self.events[run_id][n].event, event)
            and forall(n, lambda i: same(self.events[run_id][i], old.self.events[run_id][i]))
            and forall_keys(old.self.events, lambda r: r in self.events)
            and forall_keys(self.events, lambda r: r == run_id or (r in old.self.events and same(self.events[r], old.self.events[r])))
        )

    def ensures_inv(old, self, run_id, event, result):
        return logs_gap_free(self)

    def ensures_frame(old, self, run_id, event, result):
        return (
            same(self.handlers, old.self.handlers)
            and same(self.ticks, old.self.ticks)
            and same(self._terminal_queue, old.self._terminal_queue)
            and same(self.max_completed, old.self.max_completed)
        )


@contract("llama_agents.server._store.memory_workflow_store.MemoryWorkflowStore.query_events")
class QueryEvents:
    properties = ["C16"]
    raises = []

    def requires(self, run_id, after_sequence, limit):
        return logs_gap_free(self) and (limit is None or opt_val(limit) >= 0)

    def ensures_store_untouched(old, self, run_id, after_sequence, limit, result):
        return same(self, old.self)

    def ensures_only_records_after_the_cursor(old, self, run_id, after_sequence, limit, result):
        # every returned record is a record of this run's log numbered above the cursor ...
        return forall(
            len(result),
            lambda i: run_id in self.events
            and 0 <= result[i].sequence
            and result[i].sequence < len(self.events[run_id])
            and same(result[i], self.events[run_id][result[i].sequence])
            and (after_sequence is None or result[i].sequence > opt_val(after_sequence)),
        )

    def ensures_in_order_once_each(old, self, run_id, after_sequence, limit, result):
        # ... in publication order and once each (strictly increasing numbers) ...
        return forall(len(result), lambda i: forall(i, lambda j: result[j].sequence < result[i].sequence))

    def ensures_nothing_above_the_cursor_is_missing(old, self, run_id, after_sequence, limit, result):
        # ... and, when no limit is given, every record above the cursor is among them
        evs = self.events.get(run_id, [])
        return limit is not None or forall(
            len(evs),
            lambda j: (after_sequence is not None and not (evs[j].sequence > opt_val(after_sequence)))
            or exists(len(result), lambda i: same(result[i], evs[j])),
        )

    def ensures_limit(old, self, run_id, after_sequence, limit, result):
        return limit is None or len(result) <= opt_val(limit)
