"""Contracts for llama_agents.server._runtime.server_runtime (C15: the handler record follows the run outcome).

The adapter's effects are calls on collaborators (the runtime's status update, the store's event log, the inner
adapter): they are recorded in the verifier's ghost call log (OPAQUE_METHODS entries with log=True) and the contract
talks about that log."""
from pyvc.dsl import *  # noqa

try:  # native side only
    from pyvc.dsl import UF_NATIVE
    from llama_agents.client.protocol.serializable_events import EventEnvelopeWithMetadata as _Env
    from workflows.events import (  # noqa
        StopEvent, WorkflowCancelledEvent, WorkflowFailedEvent, WorkflowTimedOutEvent,
    )

    UF_NATIVE["envelope_of"] = lambda ev: _Env.from_event(ev)
except ImportError:  # pragma: no cover
    pass

MODULE = "llama_agents.server._runtime.server_runtime"

PLAIN_CLASSES = {
    "_ServerInternalRunAdapter": [
        ("_decorated", "opaque:InternalRunAdapter"),
        ("_runtime", "opaque:ServerRuntimeDecorator"),
        ("_store", "opaque:AbstractWorkflowStore"),
        ("_write_lock", "opaque:Lock | None"),
    ],
}

OPAQUE_ATTRS = {
    ("InternalRunAdapter", "run_id"): "str",
}

OPAQUE_METHODS = {
    ("InternalRunAdapter", "is_replaying"): dict(ret="bool", pure=True),
    ("InternalRunAdapter", "write_to_event_stream"): dict(ret="None", pure=False, log=True),
    ("ServerRuntimeDecorator", "_handle_status_update"): dict(ret="None", pure=False, log=True),
    ("AbstractWorkflowStore", "append_event"): dict(ret="None", pure=False, log=True),
}

MODULE_FNS = {
    "asyncio.Lock": dict(ret="opaque:Lock", pure=False),
}

LOCK_TYPES = ["Lock"]


def envelope_of(ev: "Event") -> "EventEnvelopeWithMetadata":
    return uf("envelope_of", "EventEnvelopeWithMetadata", ev)


@contract("llama_agents.client.protocol.serializable_events.EventEnvelopeWithMetadata.from_event")
class EnvelopeFromEvent:
    properties = ["C15", "C16"]
    trusted = True
    module = "llama_agents.client.protocol.serializable_events"
    raises = []
    notes = "trusted: the envelope is a function of the event (pydantic model_dump + class metadata)"

    def requires(cls, event, include_qualified_name):
        return True

    def ensures_function_of_event(old, cls, event, include_qualified_name, result):
        return same(result, envelope_of(event))


def outcome_status(ev: "Event") -> "str":
    """the handler status a terminal event stands for ('' for a non-terminal event)"""
    return (
        "failed"
        if isinstance(ev, WorkflowFailedEvent) or isinstance(ev, WorkflowTimedOutEvent)
        else ("cancelled" if isinstance(ev, WorkflowCancelledEvent) else ("completed" if isinstance(ev, StopEvent) else ""))
    )


@contract("llama_agents.server._runtime.server_runtime._ServerInternalRunAdapter.write_to_event_stream")
class ServerWriteToEventStream:
    properties = ["C15", "C16"]
    modifies = ["self"]
    raises = ["*user"]

    def requires(self, event):
        return True

    def ensures_status_follows_outcome(old, self, event, result):
        # C15: when a run publishes its terminal event, the handler record is updated exactly once, with the status
        # that matches how the run ended (failed with the error text / cancelled / completed with the result), and no
        # status update happens for any other event or while ticks are being replayed
        live = not self._decorated.is_replaying()
        want = outcome_status(event)
        n = calls(self._runtime, "_handle_status_update")
        return (
            (n == (1 if (live and want != "") else 0))
            and (
                n == 0
                or (
                    call_kw(self._runtime, "_handle_status_update", 0, "status") == want
                    and call_kw(self._runtime, "_handle_status_update", 0, "run_id") == self._decorated.run_id
                    and (
                        (not isinstance(event, WorkflowFailedEvent))
                        or call_kw(self._runtime, "_handle_status_update", 0, "error") == str(event.exception)
                    )
                    and (
                        want != "completed"
                        or same(call_kw(self._runtime, "_handle_status_update", 0, "result"), event)
                    )
                )
            )
        )

    def ensures_event_logged_once_then_forwarded(old, self, event, result):
        # C16: every live event is appended to the run's log exactly once (as its envelope), replayed events are not
        # appended again; the event is always forwarded to the inner adapter, after the store has it
        live = not self._decorated.is_replaying()
        na = calls(self._store, "append_event")
        return (
            na == (1 if live else 0)
            and (
                na == 0
                or (
                    call_pos(self._store, "append_event", 0, 0) == self._decorated.run_id
                    and same(call_pos(self._store, "append_event", 0, 1), envelope_of(event))
                )
            )
            and calls(self._decorated, "write_to_event_stream") == 1
            and same(call_pos(self._decorated, "write_to_event_stream", 0, 0), event)
        )
