"""Contracts for workflows.representation.validate.validate_graph (C23: the three graph checks, given the graph)."""
from pyvc.dsl import *  # noqa

try:  # native side only
    from pyvc.dsl import UF_NATIVE
    from workflows.events import InputRequiredEvent, StopEvent  # noqa
    from workflows.representation.validate import build_step_graph as _bsg

    UF_NATIVE["step_graph"] = lambda steps, start, catch: _bsg(steps, start, catch)
except ImportError:  # pragma: no cover
    pass

MODULE = "workflows.representation.validate"


def dangling_type(g: "StepGraph", t: "type"):
    """an event type nobody consumes and that is not an output event"""
    return (not any(x in g.step_names for x in g.outgoing.get(t, []))) and not issubclass(t, (StopEvent, InputRequiredEvent))


def unreachable_step(steps: "dict[str, StepConfig]", g: "StepGraph", n: "str"):
    return (
        n in g.step_names
        and not (n in steps and "reachability" in steps[n].skip_graph_checks)
        and n not in g.forward_reachable
    )


def dead_end_step(steps: "dict[str, StepConfig]", g: "StepGraph", n: "str"):
    return (
        n in g.step_names
        and n in g.outgoing
        and any(isinstance(x, type) for x in g.outgoing[n])
        and not (n in steps and "dead_end" in steps[n].skip_graph_checks)
        and n not in g.reverse_reachable
    )


def skipped(skip_checks: "set[str] | None", name: "str"):
    return skip_checks is not None and name in opt_val(skip_checks)


def reported(errs: "list[GraphValidationError]", name: "str"):
    return exists(len(errs), lambda i: errs[i].check == name)


@contract("workflows.representation.validate.build_step_graph")
class BuildStepGraph:
    properties = ["C23"]
    trusted = True
    raises = []
    notes = "trusted: builds the adjacency lists and the two reachability sets (DFS); a function of its arguments"

    def requires(steps, start_event_class, catch_error_steps):
        return True

    def ensures_graph(old, steps, start_event_class, catch_error_steps, result):
        return same(result, uf("step_graph", "StepGraph", steps, start_event_class, catch_error_steps))


@contract("workflows.representation.validate.validate_graph")
class ValidateGraph:
    properties = ["C23"]
    raises = []

    def requires(steps, start_event_class, skip_checks, catch_error_steps):
        return True

    # loop 1: for ev_type in graph.event_types
    def inv_1():
        return (len(dangling) > 0) == exists_of(
            "type",
            lambda t: t in graph.event_types and dpos(graph.event_types, t) < _i and dangling_type(graph, t),
        )

    def ensures_reachability_sound(old, steps, start_event_class, skip_checks, catch_error_steps, result):
        # C23: what the reachability error lists is unreachable, not opted out, and the check was not skipped
        return forall(
            len(result),
            lambda i: result[i].check != "reachability"
            or (
                i == 0
                and not skipped(skip_checks, "reachability")
                and len(result[i].step_names) > 0
                and forall(
                    len(result[i].step_names),
                    lambda j: unreachable_step(
                        steps, uf("step_graph", "StepGraph", steps, start_event_class, catch_error_steps),
                        result[i].step_names[j],
                    ),
                )
            ),
        )

    def ensures_reachability_complete(old, steps, start_event_class, skip_checks, catch_error_steps, result):
        # C23: every unreachable step that is not opted out is listed by the (first) error, unless the check is skipped
        return skipped(skip_checks, "reachability") or forall_of(
            "str",
            lambda n: (
                not unreachable_step(steps, uf("step_graph", "StepGraph", steps, start_event_class, catch_error_steps), n)
            )
            or (len(result) > 0 and result[0].check == "reachability" and n in result[0].step_names),
        )

    def ensures_dead_end_sound(old, steps, start_event_class, skip_checks, catch_error_steps, result):
        return forall(
            len(result),
            lambda i: result[i].check != "dead_end"
            or (
                i == len(result) - 1
                and not skipped(skip_checks, "dead_end")
                and len(result[i].step_names) > 0
                and forall(
                    len(result[i].step_names),
                    lambda j: dead_end_step(
                        steps, uf("step_graph", "StepGraph", steps, start_event_class, catch_error_steps),
                        result[i].step_names[j],
                    ),
                )
            ),
        )

    def ensures_dead_end_complete(old, steps, start_event_class, skip_checks, catch_error_steps, result):
        return skipped(skip_checks, "dead_end") or forall_of(
            "str",
            lambda n: (
                not dead_end_step(steps, uf("step_graph", "StepGraph", steps, start_event_class, catch_error_steps), n)
            )
            or (
                len(result) > 0
                and result[len(result) - 1].check == "dead_end"
                and n in result[len(result) - 1].step_names
            ),
        )

    def ensures_terminal_event(old, steps, start_event_class, skip_checks, catch_error_steps, result):
        return reported(result, "terminal_event") == (
            (not skipped(skip_checks, "terminal_event"))
            and exists_of(
                "type",
                lambda t: t in uf("step_graph", "StepGraph", steps, start_event_class, catch_error_steps).event_types
                and dangling_type(uf("step_graph", "StepGraph", steps, start_event_class, catch_error_steps), t),
            )
        )
