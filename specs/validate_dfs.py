"""Contract for workflows.representation.validate._dfs (C23: the reachability sets ARE the reachable sets).

`reach(seeds, adjacency, x)` is an uninterpreted predicate with the two closure axioms of reachability (every seed is
reachable; a successor of a reachable node is reachable).  Everything derived from them holds in every model, in
particular in the least one (true reachability), so `ensures_only_reachable` is sound for true reachability.  The
converse (every reachable node is in the result) is `ensures_contains_seeds` + `ensures_closed`: a set that contains
the seeds and is closed under the edges contains the least such set - that last step is the induction principle of
the inductive definition (lemmas/lean/Reach.lean), not an SMT obligation."""
from pyvc.dsl import *  # noqa

try:  # native side only: `reach` is evaluated by an independent breadth-first search
    from pyvc.dsl import UF_NATIVE

    def _reach_native(seeds, adjacency, x):
        seen, todo = set(), list(seeds)
        while todo:
            n = todo.pop(0)
            if n in seen:
                continue
            seen.add(n)
            todo.extend(adjacency.get(n, []))
        return x in seen

    UF_NATIVE["reach"] = _reach_native
except ImportError:  # pragma: no cover
    pass

MODULE = "workflows.representation.validate"


def reach(seeds: "list[GraphNode]", adjacency: "dict[GraphNode, list[GraphNode]]", x: "GraphNode") -> "bool":
    return uf("reach", "bool", seeds, adjacency, x)


def on_stack(stack, x):
    return exists(len(stack), lambda j: stack[j] == x)


@contract("workflows.representation.validate._dfs")
class Dfs:
    properties = ["C23"]
    raises = []

    def requires(seeds, adjacency):
        return True

    def assume_seeds_are_reachable(seeds, adjacency):
        return forall(len(seeds), lambda i: uf("reach", "bool", seeds, adjacency, seeds[i]))

    def assume_successors_are_reachable(seeds, adjacency):
        return forall_keys(adjacency, lambda v: forall(len(adjacency[v]), lambda k: (
            not uf("reach", "bool", seeds, adjacency, v) or uf("reach", "bool", seeds, adjacency, adjacency[v][k]))))

    # loop 1: while stack
    def inv_1():
        return (
            forall(len(seeds), lambda i: seeds[i] in visited or on_stack(stack, seeds[i]))
            and forall_keys(adjacency, lambda v: not (v in visited) or forall(
                len(adjacency[v]), lambda k: adjacency[v][k] in visited or on_stack(stack, adjacency[v][k])))
            and forall(len(stack), lambda j: uf("reach", "bool", seeds, adjacency, stack[j]))
            and forall_of("GraphNode", lambda x: not (x in visited) or uf("reach", "bool", seeds, adjacency, x))
        )

    # loop 2: for target in adjacency.get(node, [])
    def inv_2():
        return (
            node in visited
            and uf("reach", "bool", seeds, adjacency, node)
            and forall(len(seeds), lambda i: seeds[i] in visited or on_stack(stack, seeds[i]))
            and forall_keys(adjacency, lambda v: v == node or not (v in visited) or forall(
                len(adjacency[v]), lambda k: adjacency[v][k] in visited or on_stack(stack, adjacency[v][k])))
            and (not (node in adjacency) or forall(
                _i, lambda k: adjacency[node][k] in visited or on_stack(stack, adjacency[node][k])))
            and forall(len(stack), lambda j: uf("reach", "bool", seeds, adjacency, stack[j]))
            and forall_of("GraphNode", lambda x: not (x in visited) or uf("reach", "bool", seeds, adjacency, x))
        )

    def ensures_contains_seeds(old, seeds, adjacency, result):
        return forall(len(seeds), lambda i: seeds[i] in result)

    def ensures_closed(old, seeds, adjacency, result):
        return forall_keys(adjacency, lambda v: not (v in result) or forall(
            len(adjacency[v]), lambda k: adjacency[v][k] in result))

    def ensures_only_reachable(old, seeds, adjacency, result):
        return forall_of("GraphNode", lambda x: not (x in result) or uf("reach", "bool", seeds, adjacency, x))
