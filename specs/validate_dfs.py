"""Contract for workflows.representation.validate._dfs (C23: the reachability sets ARE the reachable sets).

`reach(seeds, adjacency, x)` is an uninterpreted predicate with the two closure axioms of reachability (every seed is
reachable; a successor of a reachable node is reachable).  Everything derived from them holds in every model, in
particular in the least one (true reachability), so `ensures_only_reachable` is sound for true reachability.  The
converse (every reachable node is in the result) is `ensures_contains_seeds` + `ensures_closed`: a set that contains
the seeds and is closed under the edges contains the least such set - that last step is the induction principle of
the inductive definition (lemmas/lean/Reach.lean), not an SMT obligation."""
from pyvc.dsl import *  # noqa

try:  # native side only: `reach` is evaluated by an independent breadth-first search
    from pyvc.dsl import UF_NATIVE
    from workflows.events import HumanResponseEvent, InputRequiredEvent, StopEvent  # noqa

    def _reach_native(seeds, adjacency, x):
        seen, todo = set(), list(seeds)
        while todo:
            n = todo.pop(0)
            if n in seen:
                continue
            seen.add(n)
            todo.extend(adjacency.get(n, []))
        return x in seen

    UF_NATIVE["reach"] = _reach_native
except ImportError:  # pragma: no cover
    pass

MODULE = "workflows.representation.validate"


def reach(seeds: "list[GraphNode]", adjacency: "dict[GraphNode, list[GraphNode]]", x: "GraphNode") -> "bool":
    return uf("reach", "bool", seeds, adjacency, x)


def on_stack(stack, x):
    return exists(len(stack), lambda j: stack[j] == x)


@contract("workflows.representation.validate._dfs")
class Dfs:
    properties = ["C23"]
    raises = []
    public_io_only = True  # generator: seeds and adjacency lists; clauses: the returned set

    def requires(seeds, adjacency):
        return True

    def assume_seeds_are_reachable(seeds, adjacency):
        return forall(len(seeds), lambda i: uf("reach", "bool", seeds, adjacency, seeds[i]))

    def assume_successors_are_reachable(seeds, adjacency):
        return forall_keys(adjacency, lambda v: forall(len(adjacency[v]), lambda k: (
            not uf("reach", "bool", seeds, adjacency, v) or uf("reach", "bool", seeds, adjacency, adjacency[v][k]))))

    # loop 1: while stack
    def inv_1():
        return (
            forall(len(seeds), lambda i: seeds[i] in visited or on_stack(stack, seeds[i]))
            and forall_keys(adjacency, lambda v: not (v in visited) or forall(
                len(adjacency[v]), lambda k: adjacency[v][k] in visited or on_stack(stack, adjacency[v][k])))
            and forall(len(stack), lambda j: uf("reach", "bool", seeds, adjacency, stack[j]))
            and forall_of("GraphNode", lambda x: not (x in visited) or uf("reach", "bool", seeds, adjacency, x))
        )

    # loop 2: for target in adjacency.get(node, [])
    def inv_2():
        return (
            node in visited
            and uf("reach", "bool", seeds, adjacency, node)
            and forall(len(seeds), lambda i: seeds[i] in visited or on_stack(stack, seeds[i]))
            and forall_keys(adjacency, lambda v: v == node or not (v in visited) or forall(
                len(adjacency[v]), lambda k: adjacency[v][k] in visited or on_stack(stack, adjacency[v][k])))
            and (not (node in adjacency) or forall(
                _i, lambda k: adjacency[node][k] in visited or on_stack(stack, adjacency[node][k])))
            and forall(len(stack), lambda j: uf("reach", "bool", seeds, adjacency, stack[j]))
            and forall_of("GraphNode", lambda x: not (x in visited) or uf("reach", "bool", seeds, adjacency, x))
        )

    def ensures_contains_seeds(old, seeds, adjacency, result):
        return forall(len(seeds), lambda i: seeds[i] in result)

    def ensures_closed(old, seeds, adjacency, result):
        return forall_keys(adjacency, lambda v: not (v in result) or forall(
            len(adjacency[v]), lambda k: adjacency[v][k] in result))

    def ensures_only_reachable(old, seeds, adjacency, result):
        return forall_of("GraphNode", lambda x: not (x in result) or uf("reach", "bool", seeds, adjacency, x))


def in_list(xs, x):
    return exists(len(xs), lambda j: xs[j] == x)


def rev_edge(incoming: "dict[GraphNode, list[GraphNode]]", w: "GraphNode", v: "GraphNode") -> "bool":
    """the edge v -> w is recorded backwards: v occurs in incoming[w]"""
    return w in incoming and exists(len(incoming[w]), lambda j: incoming[w][j] == v)


def has_edge(adj: "dict[GraphNode, list[GraphNode]]", a: "GraphNode", b: "GraphNode") -> "bool":
    """b occurs in adj[a]"""
    return a in adj and exists(len(adj[a]), lambda j: adj[a][j] == b)


def step_edges_recorded(cfg, n, outgoing, event_types, step_names):
    return (
        n in step_names
        and forall(len(cfg.accepted_events), lambda j: has_edge(outgoing, cfg.accepted_events[j], n) and cfg.accepted_events[j] in event_types)
        and forall(len(cfg.return_types), lambda j: cfg.return_types[j] is type(None) or (
            has_edge(outgoing, n, cfg.return_types[j]) and cfg.return_types[j] in event_types))
    )


@contract("workflows.representation.validate.build_step_graph", variant="reachability")
class BuildStepGraphReach:
    properties = ["C23"]
    raises = []
    public_io_only = True  # generator: step configs / start class / handler names; clauses: fields of the StepGraph
    notes = ("a second contract on build_step_graph (the plain one only names its result for validate_graph): what the "
             "two reachability sets of the REAL graph are, proved from the `_dfs` contract")

    def requires(steps, start_event_class, catch_error_steps):
        return True

    # loops 1-3 build outgoing / event_types / step_names: every step handled so far is a step name, each of its
    # accepted event types has an edge to it, it has an edge to each of its return types (None excepted), and all
    # those types are event types of the graph
    def inv_1():
        return (
            forall_keys(steps, lambda n: not (dpos(steps, n) < _i) or step_edges_recorded(steps[n], n, outgoing, event_types, step_names))
            and forall_of("str", lambda n: not (n in step_names) or (n in steps and dpos(steps, n) < _i))
        )

    def inv_2():
        return (
            forall_keys(steps, lambda n: not (dpos(steps, n) < _i1) or step_edges_recorded(steps[n], n, outgoing, event_types, step_names))
            and forall_of("str", lambda n: not (n in step_names) or (n in steps and dpos(steps, n) <= _i1))
            and name in step_names
            and forall(_i, lambda j: has_edge(outgoing, cfg.accepted_events[j], name) and cfg.accepted_events[j] in event_types)
        )

    def inv_3():
        return (
            forall_keys(steps, lambda n: not (dpos(steps, n) < _i1) or step_edges_recorded(steps[n], n, outgoing, event_types, step_names))
            and forall_of("str", lambda n: not (n in step_names) or (n in steps and dpos(steps, n) <= _i1))
            and name in step_names
            and forall(len(cfg.accepted_events), lambda j: has_edge(outgoing, cfg.accepted_events[j], name) and cfg.accepted_events[j] in event_types)
            and forall(_i, lambda j: cfg.return_types[j] is type(None) or (
                has_edge(outgoing, name, cfg.return_types[j]) and cfg.return_types[j] in event_types))
        )

    # loop 4: for ev_type in event_types (human-response seeds)
    def inv_4():
        return (
            len(seeds) >= 1 and seeds[0] == start_event_class
            and forall_of("type", lambda t: not (t in event_types and dpos(event_types, t) < _i
                                                 and issubclass(t, HumanResponseEvent)) or in_list(seeds, t))
        )

    # loop 5: for handler_name in catch_error_steps or []
    def inv_5():
        return (
            len(seeds) >= 1 and seeds[0] == start_event_class
            and forall_of("type", lambda t: not (t in event_types and issubclass(t, HumanResponseEvent))
                          or in_list(seeds, t))
            and (catch_error_steps is None
                 or forall(_i, lambda j: in_list(seeds, opt_val(catch_error_steps)[j])))
        )

    # loops 6-7 build the reversed adjacency: every edge v -> outgoing[v][k] handled so far is recorded backwards
    def inv_6():
        return forall_keys(outgoing, lambda v: not (dpos(outgoing, v) < _i) or forall(
            len(outgoing[v]), lambda k: rev_edge(incoming, outgoing[v][k], v)))

    def inv_7():
        return (
            forall_keys(outgoing, lambda v: not (dpos(outgoing, v) < _i6) or forall(
                len(outgoing[v]), lambda k: rev_edge(incoming, outgoing[v][k], v)))
            and forall(_i, lambda k: rev_edge(incoming, targets[k], source))
        )

    def ensures_forward_contains_start_and_is_closed(old, steps, start_event_class, catch_error_steps, result):
        return (
            start_event_class in result.forward_reachable
            and forall_keys(result.outgoing, lambda v: not (v in result.forward_reachable) or forall(
                len(result.outgoing[v]), lambda k: result.outgoing[v][k] in result.forward_reachable))
        )

    def ensures_forward_seeds(old, steps, start_event_class, catch_error_steps, result):
        # every human-response event type of the graph and every catch_error handler step is a forward seed
        return (
            forall_of("type", lambda t: not (t in result.event_types and issubclass(t, HumanResponseEvent))
                      or t in result.forward_reachable)
            and (catch_error_steps is None or forall(
                len(opt_val(catch_error_steps)), lambda j: opt_val(catch_error_steps)[j] in result.forward_reachable))
        )

    def ensures_reverse_contains_outputs_and_is_closed_backwards(old, steps, start_event_class, catch_error_steps, result):
        # every output event type of the graph is a reverse seed, and whoever has an edge INTO the set is in the set
        return (
            forall_of("type", lambda t: not (t in result.event_types and issubclass(t, (StopEvent, InputRequiredEvent)))
                      or t in result.reverse_reachable)
            and forall_keys(result.outgoing, lambda v: forall(
                len(result.outgoing[v]), lambda k: not (result.outgoing[v][k] in result.reverse_reachable)
                or v in result.reverse_reachable))
        )

    def ensures_graph_has_every_step_edge(old, steps, start_event_class, catch_error_steps, result):
        # the graph the two searches run on: the step names are exactly the steps; every accepted event type has an
        # edge to its step, every step an edge to each of its return types (None excepted); all of them are event types
        return (
            forall_keys(steps, lambda n: step_edges_recorded(steps[n], n, result.outgoing, result.event_types, result.step_names))
            and forall_of("str", lambda n: not (n in result.step_names) or n in steps)
        )
