"""Contracts for llama_agents.server._keyed_lock.KeyedLock (C25).

`KeyedLock.__call__` is a generator-based async context manager.  Its two atomic sections (the bodies of the two
`async with self._get_main_lock()` blocks: no await inside, so no other coroutine runs in between) are extracted
mechanically from the real source on every run (`#with1` = register interest, `#with3` = deregister / clean up; `#with2`
is `async with self._locks[key]: yield`) and put under contract here.  The structural obligations (what is inside which
block, the `finally`) are decided on the AST by propchecks/C25.py."""
from pyvc.dsl import *  # noqa

MODULE = "llama_agents.server._keyed_lock"

PLAIN_CLASSES = {
    "KeyedLock": [
        ("_main_lock", "opaque:Lock | None"),
        ("_locks", "dict[str, opaque:Lock]"),
        ("_refs", "dict[str, int]"),
    ],
}

MODULE_FNS = {
    "asyncio.Lock": dict(ret="opaque:Lock", pure=False),
}


def lock_table_ok(s: "KeyedLock"):
    """a lock exists exactly for the keys somebody holds or waits for, and each count is positive"""
    return (
        forall_keys(s._locks, lambda k: k in s._refs)
        and forall_keys(s._refs, lambda k: k in s._locks and s._refs[k] >= 1)
    )


@contract("llama_agents.server._keyed_lock.KeyedLock.__call__#with1")
class Register:
    properties = ["C25"]
    modifies = ["self"]
    raises = []

    def requires(self, key):
        return lock_table_ok(self)

    def ensures_registered(old, self, key, result):
        # one more party is counted for `key`; a key that already had a lock keeps THAT lock (so that everybody who
        # is interested in the key contends for the same asyncio.Lock); other keys are untouched
        return (
            key in self._locks
            and key in self._refs
            and self._refs[key] == (old.self._refs[key] if key in old.self._refs else 0) + 1
            and ((not (key in old.self._locks)) or same(self._locks[key], old.self._locks[key]))
            and forall_keys(old.self._locks, lambda k: k in self._locks and same(self._locks[k], old.self._locks[k]))
            and forall_keys(self._locks, lambda k: k == key or k in old.self._locks)
            and forall_keys(old.self._refs, lambda k: k == key or (k in self._refs and self._refs[k] == old.self._refs[k]))
            and forall_keys(self._refs, lambda k: k == key or k in old.self._refs)
        )

    def ensures_inv(old, self, key, result):
        return lock_table_ok(self)


@contract("llama_agents.server._keyed_lock.KeyedLock.__call__#with3")
class Deregister:
    properties = ["C25"]
    modifies = ["self"]
    raises = []

    def requires(self, key):
        # the caller registered before (its own unit is part of the count)
        return lock_table_ok(self) and key in self._refs

    def ensures_deregistered(old, self, key, result):
        # the count drops by one; the lock of the key disappears exactly when nobody is left (no lock state remains),
        # and stays the same object otherwise; other keys are untouched
        return (
            (
                (not (key in self._locks)) and (not (key in self._refs))
                if old.self._refs[key] == 1
                else (
                    key in self._locks
                    and same(self._locks[key], old.self._locks[key])
                    and self._refs[key] == old.self._refs[key] - 1
                )
            )
            and forall_keys(old.self._locks, lambda k: k == key or (k in self._locks and same(self._locks[k], old.self._locks[k])))
            and forall_keys(self._locks, lambda k: k in old.self._locks)
            and forall_keys(old.self._refs, lambda k: k == key or (k in self._refs and self._refs[k] == old.self._refs[k]))
            and forall_keys(self._refs, lambda k: k in old.self._refs)
        )

    def ensures_inv(old, self, key, result):
        return lock_table_ok(self)
