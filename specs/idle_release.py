"""Contracts for llama_agents.server._runtime.idle_release_runtime (C36: when a run is released from memory)."""
from pyvc.dsl import *  # noqa

MODULE = "llama_agents.server._runtime.idle_release_runtime"

PLAIN_CLASSES = {
    "IdleReleaseDecorator": [
        ("_store", "opaque:AbstractWorkflowStore"),
        ("_idle_timeout", "float"),
        ("_active_run_ids", "set[str]"),
        ("_decorated", "opaque:Runtime"),
        ("_persistence", "opaque:Persistence"),
    ],
    "IdleReleaseExternalRunAdapter": [
        ("_runtime", "IdleReleaseDecorator"),
        ("_run_id", "str"),
    ],
    "_IdleReleaseInternalRunAdapter": [
        ("_decorated", "opaque:InternalRunAdapter"),
        ("_runtime", "opaque:IdleRuntime"),  # the IdleReleaseDecorator, seen from the adapter: two calls are made on it
        ("_store", "opaque:AbstractWorkflowStore"),
    ],
}

OPAQUE_ATTRS = {
    ("InternalRunAdapter", "run_id"): "str",
    ("Replayed", "context"): "opaque:Context",
}

FIELD_TYPES = {
    ("PersistentHandler", "status"): "str",
    ("HandlerQuery", "status_in"): "list[str] | None",
}

OPAQUE_METHODS = {
    # one read of the store inside the section (the reload lock of the run is held): a snapshot of the handler rows
    ("AbstractWorkflowStore", "query"): dict(ret="list[PersistentHandler]", pure=True),
    ("timedelta", "total_seconds"): dict(ret="float", pure=True),
    ("AbstractWorkflowStore", "update_handler_status"): dict(ret="None", pure=False, log=True),
    ("InternalRunAdapter", "write_to_event_stream"): dict(ret="None", pure=False, log=True),
    ("IdleRuntime", "_spawn_task"): dict(ret="opaque:Task", pure=False, log=True),
    ("IdleRuntime", "_deferred_release"): dict(ret="opaque:Coroutine", pure=True),
    # reload path: the persistence decorator hands out the registered workflow and the replayed context
    ("Persistence", "get_tracked_workflow"): dict(ret="opaque:WorkflowObj | None", pure=True),
    ("Persistence", "context_from_ticks"): dict(ret="opaque:Replayed | None", pure=False, may_raise=True),
    ("WorkflowObj", "run"): dict(ret="opaque:WorkflowHandler", pure=False, log=True, may_raise=True),
    ("Runtime", "get_external_adapter"): dict(ret="opaque:ExternalRunAdapter", pure=True),
    ("ExternalRunAdapter", "send_event"): dict(ret="None", pure=False, log=True, may_raise=True),
}

# calls of this contracted method are recorded in the ghost call log of its callers
LOGGED_FUNCTIONS = [
    "llama_agents.server._runtime.idle_release_runtime.IdleReleaseDecorator._ensure_active_run_locked",
]

MODULE_FNS = {
    # the clock is read once per section: modelled as one value
    "datetime.datetime.now": dict(ret="datetime", pure=True),
    "datetime.now": dict(ret="datetime", pure=True),
}


@contract("llama_agents.server._runtime.idle_release_runtime.IdleReleaseDecorator._abort_inner_run")
class AbortInnerRun:
    properties = ["C36"]
    trusted = True
    raises = ["ValueError"]
    notes = "trusted: cancels the inner control loop task of the run; touches none of the decorator's own fields"

    def requires(self, run_id):
        return True

    def ensures_frame(old, self, run_id, result):
        return same(self, old.self)


@contract("llama_agents.server._runtime.idle_release_runtime.IdleReleaseDecorator._release_idle_handler#with1")
class ReleaseIdleHandler:
    properties = ["C36", "C14"]
    modifies = ["self"]
    raises = ["ValueError"]
    notes = ("mechanically extracted: the body of `async with self._reload_lock(run_id)` in _release_idle_handler; the "
             "store query and the clock are read once inside it (modelled as values)")

    def requires(self, run_id):
        return True

    def ensures_released_only_when_idle_long_enough(old, self, run_id, result):
        # C36 / C14: a run leaves memory only if its handler row says it has been idle for at least idle_timeout NOW
        # (a release task armed by an earlier idle period must re-check: the run may have been busy since, and a short
        # timer may be pending), it is the only row of the run, and the run was active; nothing else is touched
        hs = self._store.query(HandlerQuery(run_id_in=[run_id]))
        released = (run_id in old.self._active_run_ids) and not (run_id in self._active_run_ids)
        return (
            (
                (not released)
                or (
                    len(hs) == 1
                    and hs[0].idle_since is not None
                    and (datetime.now(timezone.utc) - opt_val(hs[0].idle_since)).total_seconds() >= self._idle_timeout
                )
            )
            and forall_of("str", lambda r: r == run_id or (r in self._active_run_ids) == (r in old.self._active_run_ids))
            and ((run_id in self._active_run_ids) == (run_id in old.self._active_run_ids and not released))
            and self._idle_timeout == old.self._idle_timeout
        )

    def ensures_released_when_due(old, self, run_id, result):
        # ... and a run that is due (idle for the whole timeout, still active) IS released
        hs = self._store.query(HandlerQuery(run_id_in=[run_id]))
        due = (
            len(hs) == 1
            and hs[0].idle_since is not None
            and (datetime.now(timezone.utc) - opt_val(hs[0].idle_since)).total_seconds() >= self._idle_timeout
            and run_id in old.self._active_run_ids
        )
        return (not due) or not (run_id in self._active_run_ids)


@contract("llama_agents.server._runtime.idle_release_runtime._IdleReleaseInternalRunAdapter.write_to_event_stream")
class IdleMark:
    properties = ["C36", "C14"]
    raises = ["*user"]

    def requires(self, event):
        return True

    def ensures_idle_is_stamped_every_time(old, self, event, result):
        # C36 / C14: EVERY idle announcement of the run stamps the handler row with the current time (an old stamp from
        # an earlier idle period would make the next release fire too early), before the event is forwarded, and arms
        # one deferred release for this run; any other event is only forwarded
        idle = isinstance(event, WorkflowIdleEvent)
        n = calls(self._store, "update_handler_status")
        return (
            n == (1 if idle else 0)
            and (
                n == 0
                or (
                    call_pos(self._store, "update_handler_status", 0, 0) == self._decorated.run_id
                    and call_kw(self._store, "update_handler_status", 0, "status") == "running"
                    and same(call_kw(self._store, "update_handler_status", 0, "idle_since"), datetime.now(timezone.utc))
                )
            )
            and calls(self._decorated, "write_to_event_stream") == 1
            and same(call_pos(self._decorated, "write_to_event_stream", 0, 0), event)
            and calls(self._runtime, "_spawn_task") == (1 if idle else 0)
            and (
                (not idle)
                or same(call_pos(self._runtime, "_spawn_task", 0, 0), self._runtime._deferred_release(self._decorated.run_id))
            )
        )


@contract("llama_agents.server._runtime.idle_release_runtime.IdleReleaseDecorator._ensure_active_run_locked")
class EnsureActiveRun:
    properties = ["C36", "C14"]
    modifies = ["self"]
    raises = ["ValueError", "*user"]

    def requires(self, run_id):
        return True

    def ensures_reload_exactly_when_released(old, self, run_id, result):
        # C36: a run that is still in memory is left alone (nothing is started, nothing is written); a released run
        # is started again exactly once - under its own run id, from what the persistence layer replays - becomes
        # active, and its idle mark is cleared; no other run's membership changes
        return (
            (
                same(self, old.self)
                and tcalls("WorkflowObj", "run") == 0
                and tcalls("AbstractWorkflowStore", "update_handler_status") == 0
            )
            if run_id in old.self._active_run_ids
            else (
                run_id in self._active_run_ids
                and forall_of("str", lambda k: k == run_id or (k in self._active_run_ids) == (k in old.self._active_run_ids))
                and (
                    False
                    if tcalls("WorkflowObj", "run") != 1 or tcalls("AbstractWorkflowStore", "update_handler_status") != 1
                    else call_kw(tcall_recv("WorkflowObj", "run", 0), "run", 0, "run_id") == run_id
                    and same(tcall_recv("AbstractWorkflowStore", "update_handler_status", 0), self._store)
                    and tcall_pos("AbstractWorkflowStore", "update_handler_status", 0, 0) == run_id
                )
            )
        )

    def raised_ValueError(old, self, run_id, exc):
        # the handler row or the workflow is missing: nothing was started and the run stays released
        return same(self._active_run_ids, old.self._active_run_ids) and tcalls("WorkflowObj", "run") == 0


@contract("llama_agents.server._runtime.idle_release_runtime.IdleReleaseExternalRunAdapter.send_event#with1")
class ExternalSendEvent:
    properties = ["C36", "C14"]
    param_types = {"tick": "WorkflowTick"}
    modifies = ["self"]
    raises = ["ValueError", "*user"]
    notes = ("the body of `async with self._runtime._reload_lock(self.run_id)`, extracted mechanically: it runs with the "
             "run's reload lock held, so a deferred release cannot interleave with it")

    def requires(self, tick):
        return True

    def ensures_activity_clears_the_idle_mark(old, self, tick, result):
        # C36 / C14: an event for a run that is still in memory clears its idle mark (one store write, idle_since =
        # None) so that the release timer armed at the last idle announcement finds the run busy; an event for a
        # released run reloads it (which clears the mark itself); either way the event is then forwarded, once
        return (
            fcalls("_ensure_active_run_locked") == (0 if old.self._run_id in old.self._runtime._active_run_ids else 1)
            and tcalls("AbstractWorkflowStore", "update_handler_status")
            == (1 if old.self._run_id in old.self._runtime._active_run_ids else 0)
            and (
                tcalls("AbstractWorkflowStore", "update_handler_status") == 0
                or (
                    same(tcall_recv("AbstractWorkflowStore", "update_handler_status", 0), old.self._runtime._store)
                    and tcall_pos("AbstractWorkflowStore", "update_handler_status", 0, 0) == old.self._run_id
                    and call_kw(tcall_recv("AbstractWorkflowStore", "update_handler_status", 0),
                                "update_handler_status", 0, "idle_since") is None
                )
            )
            and (
                False
                if tcalls("ExternalRunAdapter", "send_event") != 1
                else same(tcall_pos("ExternalRunAdapter", "send_event", 0, 0), tick)
                and same(tcall_recv("ExternalRunAdapter", "send_event", 0),
                         self._runtime._decorated.get_external_adapter(self._run_id))
            )
        )
