"""Contracts for workflows.context.internal_context.InternalContext (C10, C02: what a step asks the engine to do)."""
from pyvc.dsl import *  # noqa

try:  # native side only
    from pyvc.dsl import UF_NATIVE
    from workflows.runtime.types.results import StepWorkerStateContextVar as _ctxvar

    UF_NATIVE["current_step_ctx"] = lambda: _ctxvar.get()
except ImportError:  # pragma: no cover
    pass

MODULE = "workflows.context.internal_context"

FIELD_TYPES = {
    ("AddWaiter", "event_type"): "type",
    ("AddWaiter", "waiter_event"): "Event | None",
    ("AddWaiter", "type"): "str",
    ("StepWorkerWaiter", "waiting_for_event"): "type",
    ("StepWorkerWaiter", "resolved_event"): "Event | None",
}


def current_step_ctx() -> "StepWorkerContext":
    """the step-worker context of the running step (a ContextVar in the code: ambient state, named here)"""
    return uf("current_step_ctx", "StepWorkerContext")


@contract("workflows.context.internal_context.InternalContext._get_step_ctx")
class GetStepCtx:
    properties = ["C10", "C02"]
    trusted = True
    raises = ["WorkflowRuntimeError"]
    notes = "trusted: ContextVar.get() returns the ambient step context (or the call is made outside a step)"

    def requires(fn):
        return True

    def ensures_ambient(old, fn, result):
        return same(result, current_step_ctx())


def effective_waiter_id(event_type: "type", waiter_id: "str | None", requirements: "dict[str, Any] | None") -> "str":
    """the id a wait is registered under: the caller's, or one derived from the awaited type AND the requirements
    (two waits for the same type that differ in their requirements are different waits)"""
    return (
        opt_val(waiter_id)
        if (waiter_id is not None and opt_val(waiter_id) != "")
        else f"waiter_{f'{event_type.__module__}.{event_type.__name__}'}_{str(requirements or {})}"
    )


def waiter_index(ws: "list[StepWorkerWaiter]", wid: "str", m: "int"):
    """m is the position of the first waiter registered under wid"""
    return 0 <= m and m < len(ws) and ws[m].waiter_id == wid and forall(m, lambda j: ws[j].waiter_id != wid)


def no_waiter(ws: "list[StepWorkerWaiter]", wid: "str"):
    return forall(len(ws), lambda j: ws[j].waiter_id != wid)


@contract("workflows.context.internal_context.InternalContext.wait_for_event")
class WaitForEvent:
    properties = ["C10", "C02"]
    param_types = {"event_type": "type", "waiter_event": "Event | None", "requirements": "dict[str, Any] | None"}
    ret_type = "Event"
    raises = ["WaitingForEvent", "TimeoutError", "WorkflowRuntimeError"]

    def requires(self, event_type, waiter_event, waiter_id, requirements, timeout):
        return True

    def raised_WaitingForEvent(old, self, event_type, waiter_event, waiter_id, requirements, timeout, exc):
        # the step is suspended: the engine is asked to register exactly this wait - under an id that tells waits with
        # different requirements apart, for the requested type, with the caller's requirements, timeout and
        # announcement event - and this happens only while no event has been delivered to that wait
        ws = current_step_ctx().state.collected_waiters
        wid = effective_waiter_id(event_type, waiter_id, requirements)
        add = exc_arg(exc, 0, "AddWaiter")
        return (
            add.waiter_id == wid
            and same(add.event_type, event_type)
            and same(add.timeout, timeout)
            and same(add.waiter_event, waiter_event)
            and add.requirements == (requirements or {})
            and (
                no_waiter(ws, wid)
                or exists(len(ws), lambda m: waiter_index(ws, wid, m) and ws[m].resolved_event is None and not ws[m].timed_out)
            )
        )

    def raised_TimeoutError(old, self, event_type, waiter_event, waiter_id, requirements, timeout, exc):
        # TimeoutError only for a wait whose timeout the engine has recorded
        ws = current_step_ctx().state.collected_waiters
        wid = effective_waiter_id(event_type, waiter_id, requirements)
        return exists(len(ws), lambda m: waiter_index(ws, wid, m) and ws[m].timed_out)

    def ensures_returns_the_delivered_event(old, self, event_type, waiter_event, waiter_id, requirements, timeout, result):
        # a normal return hands out exactly the event the engine delivered to this wait
        ws = current_step_ctx().state.collected_waiters
        wid = effective_waiter_id(event_type, waiter_id, requirements)
        return exists(
            len(ws),
            lambda m: waiter_index(ws, wid, m)
            and (not ws[m].timed_out)
            and ws[m].resolved_event is not None
            and same(result, opt_val(ws[m].resolved_event)),
        )
