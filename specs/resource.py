"""Contracts for workflows.resource.ResourceManager (C22: resource injection - caching, freshness, cycle detection).

The manager keeps ONE resolution chain (`_resolving`), ONE per-resolution cache and ONE depth counter.  Since fix
8bfe69d a dependency resolution runs under the manager's lock (`exclusive_resolution`, re-entrant for the resolving
task), so inside `_get` nobody else touches these fields: `_get` is verified as sequential code whose only
re-entrancy is the call `resource.resolve(self)` (a factory resolving its own dependencies through the same manager).
That call is described by the *resolution guarantee* `resolution_frame` below, which is
  - assumed at the call (contract on the protocol method `ResourceDescriptor.resolve`),
  - PROVED for `_get` itself (normal and exceptional exits), for `get#with1` (the body of get's exclusive section)
    and for both descriptor implementations of the repository (`_Resource.resolve` / `call` / `_resolve_dependencies`,
    `_ResourceConfig.resolve`),
so the only assumed instance is a user-written descriptor class.  The exclusivity itself (who may be inside, the
lock, the call sites) is decided on the AST by propchecks/C22.py and replayed by scenarios/resource_scenario.py.
"""
from pyvc.dsl import *  # noqa

MODULE = "workflows.resource"

PLAIN_CLASSES = {
    "ResourceManager": [
        ("resources", "dict[str, Any]"),
        ("_resolving", "list[str]"),
        ("_resolution_cache", "dict[str, Any]"),
        ("_resolution_depth", "int"),
        ("_lock", "opaque:Lock | None"),
        ("_lock_loop", "opaque:Loop | None"),
        ("_owner", "opaque:Task | None"),
    ],
    "ResourceDescriptor": [
        ("name", "str"),
        ("cache", "bool"),
    ],
    "_ResourceConfig": [
        ("_original_config_file", "str"),
        ("_resolved_config_file", "str | None"),
        ("path_selector", "str | None"),
        ("cls_factory", "opaque:ModelClass | None"),
        ("label", "str | None"),
        ("description", "str | None"),
    ],
    "_Resource": [
        ("_factory", "opaque:Factory"),
        ("_is_async", "bool"),
        ("name", "str"),
        ("cache", "bool"),
        ("_localns", "dict[str, Any] | None"),
    ],
}

OPAQUE_METHODS = {
    # the user's factory: may raise anything, is handed the resolved dependencies, does not hold the manager
    ("Factory", "__call__"): dict(ret="Any", pure=False, may_raise=True),
}

# the direct call of the descriptor's resolve() is recorded in the ghost call log of `_get`
LOGGED_FUNCTIONS = ["workflows.resource.ResourceDescriptor.resolve"]

MODULE_FNS = {
    "asyncio.get_running_loop": dict(ret="opaque:Loop", pure=True),
    "asyncio.Lock": dict(ret="opaque:Lock", pure=False),
}


def resolution_frame(m0, m1):
    """what a (nested) resolution may do to the manager: the chain is as before, nothing already resolved is replaced
    or dropped, and no name that is being resolved further up the chain gets an entry behind its resolver's back"""
    return (
        len(m1._resolving) == len(m0._resolving)
        and forall(len(m0._resolving), lambda i: m1._resolving[i] == m0._resolving[i])
        and m1._resolution_depth == m0._resolution_depth
        and forall_keys(m0.resources, lambda k: k in m1.resources and same(m1.resources[k], m0.resources[k]))
        and forall_keys(m0._resolution_cache,
                        lambda k: k in m1._resolution_cache and same(m1._resolution_cache[k], m0._resolution_cache[k]))
        and forall(len(m0._resolving), lambda i: (
            ((m0._resolving[i] in m1.resources) == (m0._resolving[i] in m0.resources))
            and ((m0._resolving[i] in m1._resolution_cache) == (m0._resolving[i] in m0._resolution_cache))))
    )


def manager_unchanged(m0, m1):
    return (
        len(m1._resolving) == len(m0._resolving)
        and forall(len(m0._resolving), lambda i: m1._resolving[i] == m0._resolving[i])
        and m1._resolution_depth == m0._resolution_depth
        and forall_keys(m0.resources, lambda k: k in m1.resources and same(m1.resources[k], m0.resources[k]))
        and forall_keys(m1.resources, lambda k: k in m0.resources)
        and forall_keys(m0._resolution_cache,
                        lambda k: k in m1._resolution_cache and same(m1._resolution_cache[k], m0._resolution_cache[k]))
        and forall_keys(m1._resolution_cache, lambda k: k in m0._resolution_cache)
    )


def on_chain(m, name):
    return exists(len(m._resolving), lambda i: m._resolving[i] == name)


@contract("workflows.resource.ResourceDescriptor.resolve")
class DescriptorResolve:
    properties = ["C22"]
    trusted = True
    modifies = ["manager"]
    raises = ["*user", "CancelledError"]
    notes = ("the protocol method: ASSUMED for user-written descriptor classes, PROVED for the repository's two "
             "descriptors (contracts ResourceResolve and ResourceConfigResolve below) - a descriptor resolves its own "
             "dependencies only through manager.get, whose effect is the resolution guarantee")

    def requires(self, manager):
        return manager._resolution_depth >= 1

    def ensures_resolution_guarantee(old, self, manager, result):
        return resolution_frame(old.manager, manager)

    def raised_any_resolution_guarantee(old, self, manager):
        return resolution_frame(old.manager, manager)


@contract("workflows.resource.ResourceManager._get")
class ManagerGet:
    properties = ["C22"]
    modifies = ["self"]
    raises = ["ValueError", "*user", "CancelledError"]
    notes = ("runs inside the manager's exclusive section (propchecks/C22.py): `_resolving` is the chain of THIS "
             "resolution, so 'the name is on the chain' is a genuine dependency cycle")

    def requires(self, resource):
        return self._resolution_depth >= 1  # always called inside a resolution scope (get#with1, AST obligations)

    def ensures_cycle_always_reported(old, self, resource, result):
        # C22: a genuine cycle (the name is already being resolved on this chain) never returns a value
        return not on_chain(old.self, resource.name)

    def raised_ValueError_only_for_a_cycle(old, self, resource):
        # ... and a cycle error is raised here only for a name on the chain; any other ValueError comes out of the one
        # nested resolve() (a cycle further down, or the factory's own error)
        return on_chain(old.self, resource.name) or fcalls("resolve") == 1

    def ensures_cached_is_the_workflow_wide_object(old, self, resource, result):
        # C22: a cached resource that exists is injected as it is - no factory call, nothing touched
        return not (resource.cache and resource.name in old.self.resources) or (
            same(result, old.self.resources[resource.name]) and fcalls("resolve") == 0
            and manager_unchanged(old.self, self))

    def ensures_shared_within_one_resolution(old, self, resource, result):
        # C22: within one dependency resolution a value is created once (the per-resolution table answers)
        return not (not (resource.cache and resource.name in old.self.resources)
                    and resource.name in old.self._resolution_cache) or (
            same(result, old.self._resolution_cache[resource.name]) and fcalls("resolve") == 0
            and manager_unchanged(old.self, self))

    def ensures_created_exactly_once_and_recorded(old, self, resource, result):
        # otherwise: exactly one resolve() of THIS descriptor, its value is what is returned and what both tables
        # hold afterwards - the workflow-wide table only for cached resources: a non-cached value never outlives the
        # resolution (the per-resolution table is emptied when the outermost scope ends, ResolutionScopeExit)
        return not (not (resource.cache and resource.name in old.self.resources)
                    and not (resource.name in old.self._resolution_cache)) or (
            fcalls("resolve") == 1
            and same(result, fcall_ret("resolve", 0))
            and resource.name in self._resolution_cache
            and same(self._resolution_cache[resource.name], result)
            and (not resource.cache or (resource.name in self.resources and same(self.resources[resource.name], result)))
            and (resource.cache or (resource.name in self.resources) == (resource.name in old.self.resources)))

    def ensures_resolution_guarantee(old, self, resource, result):
        return resolution_frame(old.self, self)

    def raised_any_resolution_guarantee(old, self, resource):
        # a failing factory / a cycle further down / a cancellation leaves the chain as it was: the next resolution
        # does not see a stale name (no false cycle error after an error)
        return resolution_frame(old.self, self)


@contract("workflows.resource.ResourceManager.set")
class ManagerSet:
    properties = ["C22"]
    modifies = ["self"]
    raises = []

    def requires(self, name, val):
        return True

    def ensures_one_entry(old, self, name, val, result):
        return (
            name in self.resources and same(self.resources[name], val)
            and forall_keys(old.self.resources, lambda k: k == name or (k in self.resources and same(self.resources[k], old.self.resources[k])))
            and forall_keys(self.resources, lambda k: k == name or k in old.self.resources)
            and len(self._resolving) == len(old.self._resolving)
            and forall(len(self._resolving), lambda i: self._resolving[i] == old.self._resolving[i])
            and self._resolution_depth == old.self._resolution_depth
            and forall_keys(old.self._resolution_cache, lambda k: k in self._resolution_cache and same(self._resolution_cache[k], old.self._resolution_cache[k]))
            and forall_keys(self._resolution_cache, lambda k: k in old.self._resolution_cache)
        )


@contract("workflows.resource.ResourceManager.get#with1")
class ManagerGetSection:
    properties = ["C22"]
    modifies = ["self"]
    raises = ["ValueError", "*user", "CancelledError"]
    notes = ("mechanically extracted: the body of `async with self.exclusive_resolution()` in get(); what a factory "
             "reaches when it resolves a dependency through the manager")

    def requires(self, resource):
        # exclusive_resolution yields inside resolution_scope (first entry) or inside the owner's scope (re-entry)
        return self._resolution_depth >= 1

    def ensures_is_get(old, self, resource, result):
        return not on_chain(old.self, resource.name) and resolution_frame(old.self, self)

    def raised_any_resolution_guarantee(old, self, resource):
        return resolution_frame(old.self, self)


@contract("workflows.resource.ResourceManager.resolution_scope#enter")
class ResolutionScopeEnter:
    properties = ["C22"]
    modifies = ["self"]
    raises = []
    notes = "mechanically extracted: the statements of the generator context manager before its yield"

    def requires(self):
        return self._resolution_depth >= 0

    def ensures_one_level_deeper(old, self, result):
        return (
            self._resolution_depth == old.self._resolution_depth + 1
            and forall_keys(old.self._resolution_cache, lambda k: k in self._resolution_cache and same(self._resolution_cache[k], old.self._resolution_cache[k]))
            and forall_keys(self._resolution_cache, lambda k: k in old.self._resolution_cache)
            and forall_keys(old.self.resources, lambda k: k in self.resources and same(self.resources[k], old.self.resources[k]))
            and forall_keys(self.resources, lambda k: k in old.self.resources)
            and len(self._resolving) == len(old.self._resolving)
        )


@contract("workflows.resource.ResourceManager.resolution_scope#exit")
class ResolutionScopeExit:
    properties = ["C22"]
    modifies = ["self"]
    raises = []
    notes = ("mechanically extracted: the `finally` block of the generator context manager (runs on every exit of the "
             "caller's block: normal, error, cancellation)")

    def requires(self):
        return self._resolution_depth >= 1

    def ensures_outermost_exit_forgets_the_resolution(old, self, result):
        # C22: a non-cached value is shared only within one dependency resolution: when the outermost scope ends the
        # per-resolution table is EMPTY; an inner scope leaves it alone; the workflow-wide table is never touched
        return (
            self._resolution_depth == old.self._resolution_depth - 1
            and implies(old.self._resolution_depth == 1, forall_keys(self._resolution_cache, lambda k: False))
            and implies(old.self._resolution_depth != 1,
                        forall_keys(old.self._resolution_cache, lambda k: k in self._resolution_cache and same(self._resolution_cache[k], old.self._resolution_cache[k]))
                        and forall_keys(self._resolution_cache, lambda k: k in old.self._resolution_cache))
            and forall_keys(old.self.resources, lambda k: k in self.resources and same(self.resources[k], old.self.resources[k]))
            and forall_keys(self.resources, lambda k: k in old.self.resources)
            and len(self._resolving) == len(old.self._resolving)
        )


@contract("workflows.resource.ResourceManager._resolution_lock")
class ResolutionLock:
    properties = ["C22"]
    modifies = ["self"]
    raises = []
    notes = "one lock per manager and running event loop: all resolutions of one run contend for the SAME lock"

    def requires(self):
        return True

    def ensures_same_lock_for_the_same_loop(old, self, result):
        return (
            self._lock is not None
            and same(result, opt_val(self._lock))
            and self._lock_loop is not None
            and same(opt_val(self._lock_loop), asyncio.get_running_loop())
            and (not (old.self._lock is not None and old.self._lock_loop is not None
                      and same(opt_val(old.self._lock_loop), asyncio.get_running_loop()))
                 or same(result, opt_val(old.self._lock)))
            and manager_unchanged(old.self, self)
            and same(self._owner, old.self._owner)
        )


# ---------------------------------------------------------------------------------------------------------------
# the repository's own descriptor: `_Resource.resolve -> call -> _resolve_dependencies -> manager.get` keeps the
# resolution guarantee that `_get` assumes for `resource.resolve(self)` (behavioural subtyping of the protocol method)

@contract("workflows.resource.ResourceManager.get")
class ManagerGetReentrant:
    properties = ["C22"]
    trusted = True
    modifies = ["self"]
    raises = ["ValueError", "*user", "CancelledError"]
    notes = ("composite, for the RE-ENTRANT call (a factory's dependency, made by the task that owns the resolution): "
             "get() is `async with self.exclusive_resolution(): <get#with1>` (AST obligation is-its-exclusive-section), "
             "the re-entering owner passes exclusive_resolution without touching anything (AST obligation "
             "reentry-by-task-identity), and get#with1 is proved with exactly these clauses")

    def requires(self, resource):
        return self._resolution_depth >= 1

    def ensures_resolution_guarantee(old, self, resource, result):
        return resolution_frame(old.self, self)

    def raised_any_resolution_guarantee(old, self, resource):
        return resolution_frame(old.self, self)


@contract("workflows.resource.ResourceDescriptor.set_type_annotation")
class DescriptorSetTypeAnnotation:
    properties = ["C22"]
    trusted = True
    raises = []
    notes = "assumed: records the annotated class on the descriptor; name / cache (all the contracts see) are unchanged"

    def requires(self, type_annotation):
        return True

    def ensures_nothing(old, self, type_annotation, result):
        return True


@contract("workflows.resource.ResourceDescriptor.set_localns")
class DescriptorSetLocalns:
    properties = ["C22"]
    trusted = True
    raises = []
    notes = "assumed: records a namespace on the descriptor; name / cache are unchanged"

    def requires(self, localns):
        return True

    def ensures_nothing(old, self, localns, result):
        return True


@contract("workflows.resource._Resource.get_dependencies")
class ResourceGetDependencies:
    properties = ["C22"]
    trusted = True
    raises = ["*user"]
    ret_type = "list[tuple[str, ResourceDescriptor, Any]]"
    notes = "assumed: signature inspection of the factory (inspect / typing); no manager in reach"

    def requires(self):
        return True

    def ensures_function_of_the_descriptor(old, self, result):
        # the dependencies are read off the factory's signature: one list per descriptor
        return same(result, uf("dependencies_of", "list[tuple[str, ResourceDescriptor, Any]]", self))


@contract("workflows.resource._Resource._resolve_dependencies")
class ResourceResolveDependencies:
    properties = ["C22"]
    modifies = ["resource_manager"]
    raises = ["ValueError", "*user", "CancelledError"]

    def requires(self, resource_manager):
        return resource_manager._resolution_depth >= 1

    def inv_1():
        return resolution_frame(old(resource_manager), resource_manager) and resource_manager._resolution_depth >= 1

    def ensures_resolution_guarantee(old, self, resource_manager, result):
        return resolution_frame(old.resource_manager, resource_manager)

    def raised_any_resolution_guarantee(old, self, resource_manager):
        return resolution_frame(old.resource_manager, resource_manager)


@contract("workflows.resource._Resource.call")
class ResourceCall:
    properties = ["C22"]
    modifies = ["resource_manager"]
    raises = ["ValueError", "*user", "CancelledError"]

    def requires(self, resource_manager):
        return resource_manager._resolution_depth >= 1

    def ensures_resolution_guarantee(old, self, resource_manager, result):
        return resolution_frame(old.resource_manager, resource_manager)

    def raised_any_resolution_guarantee(old, self, resource_manager):
        return resolution_frame(old.resource_manager, resource_manager)


@contract("workflows.resource._Resource.resolve")
class ResourceResolve:
    properties = ["C22"]
    modifies = ["manager"]
    raises = ["ValueError", "*user", "CancelledError"]
    notes = "the protocol method's clauses (DescriptorResolve), proved for the repository's factory-backed descriptor"

    def requires(self, manager):
        return manager._resolution_depth >= 1

    def ensures_resolution_guarantee(old, self, manager, result):
        return resolution_frame(old.manager, manager)

    def raised_any_resolution_guarantee(old, self, manager):
        return resolution_frame(old.manager, manager)


@contract("workflows.resource._ResourceConfig.call")
class ResourceConfigCall:
    properties = ["C22"]
    trusted = True
    raises = ["*user", "ValueError"]
    ret_type = "Any"
    notes = "assumed: reads the JSON file and validates it into the annotated pydantic class; no manager in reach"

    def requires(self):
        return True

    def ensures_nothing(old, self, result):
        return True


@contract("workflows.resource._ResourceConfig.resolve")
class ResourceConfigResolve:
    properties = ["C22"]
    raises = ["*user", "ValueError"]
    notes = ("the protocol method's clauses (DescriptorResolve), proved for the repository's config-backed descriptor: it "
             "never touches the manager (frame obligation: `manager` is not in `modifies`)")

    def requires(self, manager):
        return manager._resolution_depth >= 1

    def ensures_resolution_guarantee(old, self, manager, result):
        return resolution_frame(old.manager, manager)

    def raised_any_resolution_guarantee(old, self, manager):
        return resolution_frame(old.manager, manager)
