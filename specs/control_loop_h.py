"""Contracts for the reducer, part 8: ctx.collect_events at the reducer (C09).

Two VARIANT contracts on `_process_step_result_tick`: same function, the plain contract's precondition and loop
invariants (inherited) plus the shape of result list that `collect_events` produces, and only the C09 clauses.  The
safety / raises / frame obligations of the function are discharged under its plain contract (control_loop_d.py)."""
from pyvc.dsl import *  # noqa

try:  # native side only
    from specs.control_loop import *  # noqa
    from specs.control_loop import I1, I2, wf_ws, wf, Inv1, Inv2, quiescent  # noqa
    from specs.control_loop_b import same_keys, same_shape  # noqa
    from specs.control_loop_c import is_start_cmd  # noqa
    from specs.control_loop_d import *  # noqa
    from specs.control_loop_d import StepResultTick, is_plain_output, has_slot, no_forged_telemetry  # noqa
except ImportError:  # pragma: no cover
    pass

MODULE = "workflows.runtime.control_loop"


def waiting_collect_shape(tick: "TickStepResult"):
    """what an invocation returns that called ctx.collect_events and is still waiting for more events:
    [AddCollectedEvent(buffer, event), StepWorkerResult(None)]"""
    return (
        len(tick.result) == 2
        and isinstance(tick.result[0], AddCollectedEvent)
        and isinstance(tick.result[1], StepWorkerResult)
        and tick.result[1].result is None
    )


def completing_collect_shape(tick: "TickStepResult"):
    """what an invocation returns whose collect_events call was satisfied: [DeleteCollectedEvent(buffer), output]"""
    return len(tick.result) == 2 and isinstance(tick.result[0], DeleteCollectedEvent) and is_plain_output(tick.result[1])


def collected_after_add(
    ce2: "dict[str, list[Event]]", ce: "dict[str, list[Event]]", snap: "dict[str, list[Event]]", b: "str", e: "Event"
):
    """C09: the offered event is recorded exactly once at the end of its buffer - unless other events arrived since the
    invocation's snapshot, in which case nothing is recorded (the invocation is re-run with a fresh snapshot and
    offers the event again: neither lost nor counted twice); the other buffers are untouched"""
    return (
        forall_of("str", lambda k: (k in ce2) == (k in ce or k == b))
        and forall_keys(ce, lambda k: k == b or ce2[k] == ce[k])
        and b in ce2
        and (
            ce2[b] == ce.get(b, [])
            if len(ce.get(b, [])) > len(snap.get(b, []))
            else (
                len(ce2[b]) == len(ce.get(b, [])) + 1
                and forall(len(ce.get(b, [])), lambda i: same(ce2[b][i], ce.get(b, [])[i]))
                and same(ce2[b][len(ce.get(b, []))], e)
            )
        )
    )


def collected_after_delete(ce2: "dict[str, list[Event]]", ce: "dict[str, list[Event]]", b: "str"):
    """what the code does when a collecting invocation completes: the whole buffer is dropped"""
    return forall_of("str", lambda k: (k in ce2) == (k in ce and k != b)) and forall_keys(ce2, lambda k: ce2[k] == ce[k])


@contract("workflows.runtime.control_loop._process_step_result_tick", variant="collect_waiting")
class CollectWaiting:
    properties = ["C09"]
    inherits = "StepResultTick"
    only_kinds = ["ensures", "inv-entry", "inv-step"]

    def requires_extra(tick, init, now_seconds, run_id):
        return waiting_collect_shape(tick)

    def inv_extra_1():
        return (
            (
                state.workers[tick.step_name].collected_events == init.workers[tick.step_name].collected_events
                # nothing has refreshed the reporting invocation's snapshot yet
                and forall(
                    len(init.workers[tick.step_name].in_progress),
                    lambda j: init.workers[tick.step_name].in_progress[j].worker_id != tick.worker_id
                    or this_execution.shared_state.collected_events
                    == init.workers[tick.step_name].in_progress[j].shared_state.collected_events,
                )
            )
            if _i == 0
            else forall(
                len(init.workers[tick.step_name].in_progress),
                lambda j: init.workers[tick.step_name].in_progress[j].worker_id != tick.worker_id
                or collected_after_add(
                    state.workers[tick.step_name].collected_events,
                    init.workers[tick.step_name].collected_events,
                    init.workers[tick.step_name].in_progress[j].shared_state.collected_events,
                    tick.result[0].event_id,
                    tick.result[0].event,
                ),
            )
        )

    def ensures_collected_event_recorded_once(old, tick, init, now_seconds, run_id, result):
        # C09: an event offered to a collect buffer is recorded exactly once, at the end, or - when the buffer has moved
        # on since the invocation's snapshot - not at all (the invocation is re-run and offers it again)
        ws = init.workers[tick.step_name]
        return forall(
            len(ws.in_progress),
            lambda j: ws.in_progress[j].worker_id != tick.worker_id
            or collected_after_add(
                result[0].workers[tick.step_name].collected_events,
                ws.collected_events,
                ws.in_progress[j].shared_state.collected_events,
                tick.result[0].event_id,
                tick.result[0].event,
            ),
        )


@contract("workflows.runtime.control_loop._process_step_result_tick", variant="collect_completing")
class CollectCompleting:
    properties = ["C09"]
    inherits = "StepResultTick"
    only_kinds = ["ensures", "inv-entry", "inv-step"]

    def requires_extra(tick, init, now_seconds, run_id):
        return completing_collect_shape(tick)

    def inv_extra_1():
        return (
            state.workers[tick.step_name].collected_events == init.workers[tick.step_name].collected_events
            if _i == 0
            else collected_after_delete(
                state.workers[tick.step_name].collected_events,
                init.workers[tick.step_name].collected_events,
                tick.result[0].event_id,
            )
        )

    def ensures_buffer_dropped(old, tick, init, now_seconds, run_id, result):
        # what the code does: the completed buffer disappears as a whole, the other buffers are untouched
        return collected_after_delete(
            result[0].workers[tick.step_name].collected_events,
            init.workers[tick.step_name].collected_events,
            tick.result[0].event_id,
        )

    def ensures_late_arrivals_survive_completion(old, tick, init, now_seconds, run_id, result):
        # C09: "events arriving while other invocations of the collecting step are running are not lost": when an
        # invocation completes its collection it has consumed what its snapshot showed; events that reached the
        # buffer after that snapshot stay in the buffer
        ws = init.workers[tick.step_name]
        b = tick.result[0].event_id
        return forall(
            len(ws.in_progress),
            lambda j: ws.in_progress[j].worker_id != tick.worker_id
            or forall(
                len(ws.collected_events.get(b, [])),
                lambda i: i < len(ws.in_progress[j].shared_state.collected_events.get(b, []))
                or exists(
                    len(result[0].workers[tick.step_name].collected_events.get(b, [])),
                    lambda i2: same(
                        result[0].workers[tick.step_name].collected_events.get(b, [])[i2],
                        ws.collected_events.get(b, [])[i],
                    ),
                ),
            ),
        )
