"""Contracts for llama_agents.dbos.idle_release (C36, DBOS stack): the release handshake is not cancellable.

The package is not importable in the sandbox (dbos / asyncpg / sqlalchemy are absent), so there is no native side: the
verifier reads the source text only."""
from pyvc.dsl import *  # noqa

MODULE = "llama_agents.dbos.idle_release"

PLAIN_CLASSES = {
    "DBOSIdleReleaseDecorator": [
        ("_deferred_release_tasks", "dict[str, opaque:Task]"),
        ("_idle_timeout", "float"),
    ],
}

MODULE_FNS = {
    "asyncio.sleep": dict(ret="None", pure=False),
}


@contract("llama_agents.dbos.idle_release.DBOSIdleReleaseDecorator._release_idle_handler")
class DbosReleaseIdleHandler:
    properties = ["C36"]
    trusted = True
    raises = ["*user"]
    notes = ("trusted body (lifecycle lock, TickIdleRelease, background task). Its PRECONDITION is what callers are "
             "checked against: the handshake sends a tick into the run, and every received tick cancels the run's "
             "registered release timer - so the task running the handshake must not be registered as that timer any more")

    def requires(self, run_id):
        return run_id not in self._deferred_release_tasks

    def ensures_frame(old, self, run_id, result):
        return same(self._deferred_release_tasks, old.self._deferred_release_tasks)


@contract("llama_agents.dbos.idle_release.DBOSIdleReleaseDecorator._deferred_release")
class DbosDeferredRelease:
    properties = ["C36"]
    modifies = ["self"]
    raises = ["*user"]

    def requires(self, run_id):
        return True

    def ensures_timer_deregistered(old, self, run_id, result):
        # C36: the timer takes itself out of the table before it starts the release, and touches no other run's timer
        return (run_id not in self._deferred_release_tasks) and forall_of(
            "str",
            lambda k: k == run_id
            or (
                (k in self._deferred_release_tasks) == (k in old.self._deferred_release_tasks)
                and ((k not in self._deferred_release_tasks) or same(self._deferred_release_tasks[k], old.self._deferred_release_tasks[k]))
            ),
        )
