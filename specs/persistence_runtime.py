"""Contracts for llama_agents.server._runtime.persistence_runtime (C13 / C11: the tick journal is complete)."""
from pyvc.dsl import *  # noqa

try:  # native side only
    from workflows.runtime.types.ticks import WorkflowTickAdapter  # noqa
except ImportError:  # pragma: no cover
    pass

MODULE = "llama_agents.server._runtime.persistence_runtime"

PLAIN_CLASSES = {
    "_PersistenceInternalRunAdapter": [
        ("_decorated", "opaque:InternalRunAdapter"),
        ("_store", "opaque:AbstractWorkflowStore"),
    ],
}

OPAQUE_GLOBALS = {
    "WorkflowTickAdapter": "opaque:TickAdapter",
}

OPAQUE_ATTRS = {
    ("InternalRunAdapter", "run_id"): "str",
}

OPAQUE_METHODS = {
    ("InternalRunAdapter", "on_tick"): dict(ret="None", pure=False, log=True, may_raise=True),
    ("AbstractWorkflowStore", "append_tick"): dict(ret="None", pure=False, log=True, may_raise=True),
    # pydantic's TypeAdapter.dump_python: a function of the tick (assumed)
    ("TickAdapter", "dump_python"): dict(ret="opaque:TickData", pure=True),
}


@contract("llama_agents.server._runtime.persistence_runtime._PersistenceInternalRunAdapter.on_tick")
class PersistTick:
    properties = ["C13", "C11"]
    param_types = {"tick": "WorkflowTick"}
    raises = ["*user"]

    def requires(self, tick):
        return True

    def ensures_every_tick_is_journaled(old, self, tick, result):
        # C13 / C11: EVERY tick the control loop reduces - whatever its kind - is handed to the inner adapter and
        # offered to the store's tick journal exactly once, under the run's id, as its serialised form (replay is
        # only faithful if the journal is complete)
        return (
            calls(self._decorated, "on_tick") == 1
            and same(call_pos(self._decorated, "on_tick", 0, 0), tick)
            and calls(self._store, "append_tick") == 1
            and call_pos(self._store, "append_tick", 0, 0) == self._decorated.run_id
            and same(call_pos(self._store, "append_tick", 0, 1), WorkflowTickAdapter.dump_python(tick, mode="json"))
        )
