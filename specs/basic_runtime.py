"""Contracts for workflows.plugins.basic.BasicRuntime (C30: the per-instance concurrent-run limit)."""
from pyvc.dsl import *  # noqa

MODULE = "workflows.plugins.basic"

PLAIN_CLASSES = {
    "BasicRuntime": [
        ("_max_concurrent_runs", "dict[int, opaque:Semaphore]"),  # a WeakValueDictionary: see the notes of the contract
    ],
}

OPAQUE_ATTRS = {
    ("Workflow", "_num_concurrent_runs"): "int | None",
    ("Semaphore", "_value"): "int",
}

MODULE_FNS = {
    "asyncio.Semaphore": dict(ret="opaque:Semaphore", pure=False, post="semaphore_post"),
}


def semaphore_post(n, result):
    """assumed contract of asyncio.Semaphore(n): a new semaphore with n permits"""
    return result._value == n


@contract("workflows.plugins.basic.BasicRuntime._maybe_acquire_max_concurrent_runs#before_with1")
class LimitSemaphore:
    properties = ["C30"]
    modifies = ["self"]
    param_types = {"workflow": "opaque:Workflow"}
    ret_type = "opaque:Semaphore"
    raises = []
    notes = ("mechanically extracted: the statements of the limited branch that precede `async with sem` (no await "
             "inside) + `return sem`; the branch condition `_num_concurrent_runs is not None` is restated as the "
             "precondition. The table is a WeakValueDictionary: an entry can only vanish while nothing references its "
             "semaphore, i.e. while no run of that instance is between this section and the end of its `async with` "
             "(each such run holds the semaphore in a local) - assumed, not modelled.")

    def requires(self, workflow, run_id):
        return workflow._num_concurrent_runs is not None

    def ensures_one_semaphore_per_instance(old, self, workflow, run_id, result):
        # every run of the same workflow instance is gated by the semaphore stored under that instance: the existing
        # one when there is one (and then the table is untouched), otherwise a new one with exactly N permits
        return (
            id(workflow) in self._max_concurrent_runs
            and same(result, self._max_concurrent_runs[id(workflow)])
            and (
                (same(result, old.self._max_concurrent_runs[id(workflow)]) and same(self, old.self))
                if id(workflow) in old.self._max_concurrent_runs
                else result._value == opt_val(workflow._num_concurrent_runs)
            )
        )

    def ensures_other_instances_untouched(old, self, workflow, run_id, result):
        return forall_keys(
            old.self._max_concurrent_runs,
            lambda k: k in self._max_concurrent_runs
            and same(self._max_concurrent_runs[k], old.self._max_concurrent_runs[k]),
        ) and forall_keys(self._max_concurrent_runs, lambda k: k == id(workflow) or k in old.self._max_concurrent_runs)
