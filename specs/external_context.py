"""Contracts for workflows.context.external_context (C11: what a handler's context reports IS the replay of the log)."""
from pyvc.dsl import *  # noqa

try:  # native side only
    from pyvc.dsl import UF_NATIVE
    from workflows.runtime.types.plugin import as_snapshottable_adapter as _as_snap
    from specs.control_loop import wf  # noqa
    from specs.control_loop_f import ticks_wellformed  # noqa

    UF_NATIVE["snapshottable_of"] = lambda adapter: _as_snap(adapter)
except ImportError:  # pragma: no cover
    pass

MODULE = "workflows.context.external_context"

PLAIN_CLASSES = {
    "ExternalContext": [
        ("_external_adapter", "opaque:ExternalRunAdapter"),
        # further fields: whatever __init__ of the real class annotates (`self.x: T = ...`), read on every run
        ("*", "init-annotated"),
    ],
}

OPAQUE_ATTRS = {
    ("SnapshottableAdapter", "init_state"): "BrokerState",
}

OPAQUE_METHODS = {
    # the recorded tick log at the time of the call (read once per inspection): a function of the adapter
    ("SnapshottableAdapter", "replay"): dict(ret="list[WorkflowTick]", pure=True),
}

# calls of this contracted function are recorded in the ghost call log of its callers
LOGGED_FUNCTIONS = ["workflows.runtime.control_loop.rebuild_state_from_ticks"]


@contract("workflows.context.external_context.ExternalContext._require_snapshottable")
class RequireSnapshottable:
    properties = ["C11"]
    trusted = True
    raises = ["WorkflowRuntimeError"]
    notes = "trusted: returns the run's adapter viewed as a SnapshottableAdapter (an isinstance cast), else raises"

    def requires(self):
        return True

    def ensures_cast(old, self, result):
        return same(result, uf("snapshottable_of", "opaque:SnapshottableAdapter", self._external_adapter)) \
            and same(self, old.self)


@contract("workflows.context.external_context.ExternalContext._state")
class ContextState:
    properties = ["C11"]
    raises = ["WorkflowRuntimeError", "ValueError"]

    def requires(self):
        return wf(uf("snapshottable_of", "opaque:SnapshottableAdapter", self._external_adapter).init_state) \
            and ticks_wellformed(
                uf("snapshottable_of", "opaque:SnapshottableAdapter", self._external_adapter).init_state,
                uf("snapshottable_of", "opaque:SnapshottableAdapter", self._external_adapter).replay())

    def ensures_whole_log_replayed_from_the_initial_state(old, self, result):
        # C11: the state a handler reports (running steps, to_dict) is ONE replay of the WHOLE recorded tick log
        # from the run's initial state through rebuild_state_from_ticks - not a cached, partial or re-based one
        return (
            fcalls("rebuild_state_from_ticks") == 1
            and same(fcall_pos("rebuild_state_from_ticks", 0, 0),
                     uf("snapshottable_of", "opaque:SnapshottableAdapter", self._external_adapter).init_state)
            and same(fcall_pos("rebuild_state_from_ticks", 0, 1),
                     uf("snapshottable_of", "opaque:SnapshottableAdapter", self._external_adapter).replay())
            and same(result, fcall_ret("rebuild_state_from_ticks", 0))
        )
