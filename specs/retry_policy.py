"""Contracts for workflows.retry_policy (C05 policy side, C06, C07)."""
from pyvc.dsl import *  # noqa

try:  # native side only
    import random  # noqa
    from datetime import timedelta  # noqa
except ImportError:  # pragma: no cover
    pass

MODULE = "workflows.retry_policy"

PLAIN_CLASSES = {
    "wait_fixed": [("wait", "float")],
    "wait_exponential": [("multiplier", "float"), ("exp_base", "float"), ("max", "float"), ("min", "float")],
    "wait_incrementing": [("start", "float"), ("increment", "float"), ("max", "float")],
    "wait_random": [("min", "float"), ("max", "float")],
    "wait_exponential_jitter": [("initial", "float"), ("exp_base", "float"), ("max", "float"), ("jitter", "float")],
    "wait_random_exponential": [("multiplier", "float"), ("exp_base", "float"), ("max", "float"), ("min", "float")],
    "wait_chain": [("strategies", "list[WaitStrategy]")],
    "wait_combine": [("strategies", "list[WaitStrategy]")],
    "stop_after_attempt": [("max_attempt_number", "int")],
    "stop_after_delay": [("max_delay", "float")],
    "stop_before_delay": [("max_delay", "float")],
    "stop_any": [("stops", "list[StopCondition]")],
    "stop_all": [("stops", "list[StopCondition]")],
    "retry_any": [("retries", "list[RetryCondition]")],
    "retry_all": [("retries", "list[RetryCondition]")],
    "_ComposableRetryPolicy": [("retry", "RetryCondition | None"), ("wait", "WaitStrategy"), ("stop", "StopCondition")],
}

# user-supplied / composed callables: deterministic uninterpreted functions of their arguments
OPAQUE_METHODS = {
    ("WaitStrategy", "__call__"): dict(ret="float", pure=True),
    ("StopCondition", "__call__"): dict(ret="bool", pure=True),
    ("RetryCondition", "__call__"): dict(ret="bool", pure=True),
    ("Rng", "uniform"): dict(ret="float", pure=True, post="uniform_post"),
    ("timedelta", "total_seconds"): dict(ret="float", pure=True),
}

MODULE_FNS = {
    "random.Random": dict(ret="opaque:Rng", pure=True),
    "random.uniform": dict(ret="float", pure=False, post="uniform_post"),
}


def uniform_post(a, b, result):
    """assumed contract of random.uniform / Random.uniform"""
    return implies(a <= b, a <= result and result <= b)


# ------------------------------------------------------------------ C07: bounds of the built-in waits
@contract("workflows.retry_policy.wait_fixed.__call__")
class WaitFixed:
    properties = ["C07"]
    raises = []

    def requires(self, attempts, seed):
        return self.wait >= 0

    def ensures_value(old, self, attempts, seed, result):
        return result == self.wait and result >= 0


@contract("workflows.retry_policy.wait_exponential.__call__")
class WaitExponential:
    properties = ["C06", "C07"]
    clause_props = {"ensures_first_retry_uses_multiplier": ["C06"], "ensures_bounds": ["C07"],
                    "ensures_growth_formula": ["C06", "C07"], "safe:OverflowError:float-pow": ["C07"]}
    raises = []

    def requires(self, attempts, seed):
        return attempts >= 0 and self.multiplier >= 0 and self.exp_base > 0

    def ensures_bounds(old, self, attempts, seed, result):
        # C07: never negative, never below the floor, never above max (unless the floor is)
        return (
            result >= 0
            and result >= self.min
            and (result <= self.max or result == max(0.0, self.min))
        )

    def ensures_growth_formula(old, self, attempts, seed, result):
        # C07 (and the part of C06 that holds): the delay is exactly clamp(multiplier * exp_base**attempts), for
        # every attempt number - no plateau, no re-basing; a power beyond the float range counts as `max`
        p = fpow(self.exp_base, attempts)
        raw = self.multiplier * p if (p <= 1.7976931348623157e308 and p >= -1.7976931348623157e308) else self.max
        return result == max(max(0.0, self.min), min(raw, self.max))

    def ensures_first_retry_uses_multiplier(old, self, attempts, seed, result):
        # C06: the k-th retry (k = attempts >= 1) waits multiplier * exp_base**(k-1), clamped
        return (not (attempts == 1)) or result == max(max(0.0, self.min), min(self.multiplier, self.max))


@contract("workflows.retry_policy.wait_incrementing.__call__")
class WaitIncrementing:
    properties = ["C06", "C07"]
    clause_props = {"ensures_kth_retry": ["C06"], "ensures_bounds": ["C07"], "ensures_growth_formula": ["C06", "C07"]}
    raises = []

    def requires(self, attempts, seed):
        return attempts >= 0 and self.max >= 0

    def ensures_bounds(old, self, attempts, seed, result):
        return result >= 0 and result <= self.max

    def ensures_growth_formula(old, self, attempts, seed, result):
        # the delay is exactly clamp(start + increment*attempts) for every attempt number
        return result == max(0.0, min(self.start + self.increment * attempts, self.max))

    def ensures_kth_retry(old, self, attempts, seed, result):
        # C06: the k-th retry waits start + increment*(k-1) (clamped to [0, max])
        return (not (attempts >= 1)) or result == max(0.0, min(self.start + self.increment * (attempts - 1), self.max))


@contract("workflows.retry_policy.wait_random.__call__")
class WaitRandom:
    properties = ["C07"]
    raises = []

    def requires(self, attempts, seed):
        return 0 <= self.min and self.min <= self.max

    def ensures_bounds(old, self, attempts, seed, result):
        return self.min <= result and result <= self.max

    def ensures_deterministic_for_every_seed(old, self, attempts, seed, result):
        # C07: with a seed (ANY int, 0 included) the delay is Random(seed).uniform(min, max) and nothing else
        return seed is None or result == random.Random(seed).uniform(self.min, self.max)


@contract("workflows.retry_policy.wait_exponential_jitter.__call__")
class WaitExponentialJitter:
    properties = ["C07"]
    raises = []

    def requires(self, attempts, seed):
        return attempts >= 0 and self.initial >= 0 and self.exp_base > 0 and self.jitter >= 0 and self.max >= 0

    def ensures_bounds(old, self, attempts, seed, result):
        return result >= 0 and result <= self.max

    def ensures_deterministic_for_every_seed(old, self, attempts, seed, result):
        p = fpow(self.exp_base, attempts)
        raw = self.initial * p if (p <= 1.7976931348623157e308 and p >= -1.7976931348623157e308) else self.max
        return seed is None or result == min(
            min(raw, self.max) + random.Random(seed).uniform(0, self.jitter), self.max
        )


@contract("workflows.retry_policy.wait_random_exponential.__call__")
class WaitRandomExponential:
    properties = ["C07"]
    raises = []

    def requires(self, attempts, seed):
        return attempts >= 0 and self.multiplier >= 0 and self.exp_base > 0 and self.min >= 0 and self.min <= self.max

    def ensures_bounds(old, self, attempts, seed, result):
        return result >= self.min and result <= self.max

    def ensures_deterministic_for_every_seed(old, self, attempts, seed, result):
        p = fpow(self.exp_base, attempts)
        raw = self.multiplier * p if (p <= 1.7976931348623157e308 and p >= -1.7976931348623157e308) else self.max
        return seed is None or result == random.Random(seed).uniform(
            self.min, max(max(0.0, self.min), min(raw, self.max))
        )


@contract("workflows.retry_policy.wait_chain.__call__")
class WaitChain:
    properties = ["C06", "C07"]
    clause_props = {"ensures_kth_retry_uses_kth_strategy": ["C06"]}
    raises = []

    def requires(self, attempts, seed):
        return attempts >= 0 and len(self.strategies) >= 1

    def ensures_member_sees_the_same_attempt(old, self, attempts, seed, result):
        # the chain returns what ONE of its members returns for the very same attempt number and seed (no re-basing),
        # members are consumed in order without skipping beyond the recorded off-by-one, and the last one is reused
        return result == self.strategies[min(attempts, len(self.strategies) - 1)](attempts, seed=seed)

    def ensures_kth_retry_uses_kth_strategy(old, self, attempts, seed, result):
        # C06: retry k (= attempts, counted from 1 by the runtime) uses strategy k, the last one being reused
        return (not (attempts >= 1)) or result == self.strategies[min(attempts, len(self.strategies)) - 1](
            attempts, seed=seed
        )


@contract("workflows.retry_policy.wait_combine.__call__")
class WaitCombine:
    properties = ["C07"]
    raises = []

    def requires(self, attempts, seed):
        return True

    def ensures_sum(old, self, attempts, seed, result):
        return result == sum(strategy(attempts, seed=seed) for strategy in self.strategies)


# ------------------------------------------------------------------ C05 / C07: stop conditions
@contract("workflows.retry_policy.stop_after_attempt.__call__")
class StopAfterAttempt:
    properties = ["C05", "C07"]
    raises = []

    def requires(self, attempts, elapsed_time, upcoming_sleep):
        return True

    def ensures_exact(old, self, attempts, elapsed_time, upcoming_sleep, result):
        return result == (attempts >= self.max_attempt_number)


@contract("workflows.retry_policy.stop_after_delay.__call__")
class StopAfterDelay:
    properties = ["C05", "C07"]
    raises = []

    def requires(self, attempts, elapsed_time, upcoming_sleep):
        return True

    def ensures_exact(old, self, attempts, elapsed_time, upcoming_sleep, result):
        return result == (elapsed_time >= self.max_delay)


@contract("workflows.retry_policy.stop_before_delay.__call__")
class StopBeforeDelay:
    properties = ["C05", "C07"]
    raises = []

    def requires(self, attempts, elapsed_time, upcoming_sleep):
        return True

    def ensures_exact(old, self, attempts, elapsed_time, upcoming_sleep, result):
        return result == (elapsed_time + upcoming_sleep >= self.max_delay)


@contract("workflows.retry_policy.stop_any.__call__")
class StopAny:
    properties = ["C07"]
    raises = []

    def requires(self, attempts, elapsed_time, upcoming_sleep):
        return True

    def ensures_or(old, self, attempts, elapsed_time, upcoming_sleep, result):
        return result == exists(
            len(self.stops), lambda i: self.stops[i](attempts, elapsed_time, upcoming_sleep=upcoming_sleep)
        )


@contract("workflows.retry_policy.stop_all.__call__")
class StopAll:
    properties = ["C07"]
    raises = []

    def requires(self, attempts, elapsed_time, upcoming_sleep):
        return True

    def ensures_and(old, self, attempts, elapsed_time, upcoming_sleep, result):
        return result == forall(
            len(self.stops), lambda i: self.stops[i](attempts, elapsed_time, upcoming_sleep=upcoming_sleep)
        )


@contract("workflows.retry_policy.retry_any.__call__")
class RetryAny:
    properties = ["C07"]
    raises = []

    def requires(self, error):
        return True

    def ensures_or(old, self, error, result):
        return result == exists(len(self.retries), lambda i: self.retries[i](error))


@contract("workflows.retry_policy.retry_all.__call__")
class RetryAll:
    properties = ["C07"]
    raises = []

    def requires(self, error):
        return True

    def ensures_and(old, self, error, result):
        return result == forall(len(self.retries), lambda i: self.retries[i](error))


# ------------------------------------------------------------------ C05: the composed policy
@contract("workflows.retry_policy._ComposableRetryPolicy.next")
class PolicyNext:
    properties = ["C05", "C06"]
    raises = []

    def requires(self, elapsed_time, attempts, error, seed):
        return True

    def ensures_decision(old, self, elapsed_time, attempts, error, seed, result):
        # retry iff the predicate accepts the error and the stop condition does not hold; the delay is the wait
        # strategy's value for exactly the attempt number it was handed
        rejected = self.retry is not None and not self.retry(error)
        delay = self.wait(attempts, seed=seed)
        stopped = self.stop(attempts, elapsed_time, upcoming_sleep=delay)
        return (result is None) == (rejected or stopped) and ((result is None) or result == delay)


# ------------------------------------------------------------------ C05: time units
OPAQUE_ATTRS = {
    ("timedelta", "seconds"): "float",
    ("timedelta", "days"): "float",
    ("timedelta", "microseconds"): "float",
}


@contract("workflows.retry_policy._to_seconds")
class ToSeconds:
    properties = ["C05"]
    param_types = {"value": "timedelta"}
    raises = []
    notes = "checked for timedelta arguments; int / float arguments go through float(), which is the identity here"

    def requires(value):
        return True

    def ensures_total_seconds(old, value, result):
        # a delay limit given as a timedelta means its total length (days and microseconds included)
        return (not isinstance(value, timedelta)) or result == value.total_seconds()
