"""Contracts for BrokerState.to_serialized / from_serialized (C12, C10, C08: what a snapshot keeps)."""
from pyvc.dsl import *  # noqa

try:  # native side only
    from pyvc.dsl import UF_NATIVE
    from workflows.runtime.types.internal_state import _import_event_type as _real_import_event_type

    UF_NATIVE["import_type"] = _real_import_event_type
except ImportError:  # pragma: no cover
    pass

MODULE = "workflows.runtime.types.internal_state"

OPAQUE_METHODS = {
    # assumed library contract: serialisation is a function of the event; deserialising an event string yields an Event
    ("BaseSerializer", "serialize"): dict(ret="str", pure=True, arg_types=["Event"]),
    ("BaseSerializer", "deserialize"): dict(ret="Event", pure=True, arg_types=["str"]),
    # the registered steps of a workflow instance do not change between calls (assumed: pure)
    ("Workflow", "_get_steps"): dict(ret="dict[str, opaque:StepFunction]", pure=True),
}


def ser_attempt_ok(a: "EventAttempt", s: "SerializedEventAttempt", serializer: "BaseSerializer"):
    """a queued attempt is written with all of its retry accounting"""
    return (
        s.event == serializer.serialize(a.event)
        and s.attempts == (opt_val(a.attempts) if a.attempts is not None else 0)
        and same(s.first_attempt_at, a.first_attempt_at)
        and same(s.last_exception, a.last_exception)
        and same(s.last_failed_at, a.last_failed_at)
        and same(s.recovery_counts, a.recovery_counts)
    )


def ser_waiter_ok(w: "StepWorkerWaiter", s: "SerializedWaiter", serializer: "BaseSerializer"):
    return (
        s.waiter_id == w.waiter_id
        and s.event == serializer.serialize(w.event)
        and s.waiting_for_event == f"{w.waiting_for_event.__module__}.{w.waiting_for_event.__name__}"
        # C10: a waiter that has requirements is marked so that the step is re-pinged for them after a resume
        and s.has_requirements == (len(w.requirements) > 0 or w.has_requirements)
        and (s.resolved_event is None) == (w.resolved_event is None)
        and (w.resolved_event is None or opt_val(s.resolved_event) == serializer.serialize(opt_val(w.resolved_event)))
    )


def ser_worker_ok(ws: "InternalStepWorkerState", s: "SerializedStepWorkerState", serializer: "BaseSerializer"):
    return (
        len(s.queue) == len(ws.queue)
        and forall(len(ws.queue), lambda i: ser_attempt_ok(ws.queue[i], s.queue[i], serializer))
        and len(s.in_progress) == len(ws.in_progress)
        and forall(len(ws.in_progress), lambda i: s.in_progress[i] == serializer.serialize(ws.in_progress[i].event))
        and forall_keys(ws.collected_events, lambda b: b in s.collected_events)
        and forall_keys(s.collected_events, lambda b: b in ws.collected_events)
        and forall_keys(
            ws.collected_events,
            lambda b: len(s.collected_events[b]) == len(ws.collected_events[b])
            and forall(
                len(ws.collected_events[b]),
                lambda i: s.collected_events[b][i] == serializer.serialize(ws.collected_events[b][i]),
            ),
        )
        and len(s.collected_waiters) == len(ws.collected_waiters)
        and forall(
            len(ws.collected_waiters),
            lambda i: ser_waiter_ok(ws.collected_waiters[i], s.collected_waiters[i], serializer),
        )
    )


@contract("workflows.runtime.types.internal_state.BrokerState.to_serialized")
class ToSerialized:
    properties = ["C12", "C10", "C08"]
    raises = []
    local_types = {"workers_dict": "dict[str, SerializedStepWorkerState]"}

    def requires(self, serializer):
        return True

    def inv_1():
        return (
            forall_keys(workers_dict, lambda k: k in self.workers)
            and forall_keys(
                self.workers,
                lambda k: (k in workers_dict) == (dpos(self.workers, k) < _i),
            )
            and forall_keys(workers_dict, lambda k: ser_worker_ok(self.workers[k], workers_dict[k], serializer))
        )

    def ensures_input_untouched(old, self, serializer, result):
        return same(self, old.self)

    def ensures_header(old, self, serializer, result):
        return result.version == 1 and result.is_running == self.is_running and len(result.state) == 0

    def ensures_workers(old, self, serializer, result):
        return (
            forall_keys(self.workers, lambda k: k in result.workers)
            and forall_keys(result.workers, lambda k: k in self.workers)
            and forall_keys(self.workers, lambda k: ser_worker_ok(self.workers[k], result.workers[k], serializer))
        )


# ------------------------------------------------------------------ from_workflow
OPAQUE_ATTRS = {
    ("StepFunction", "_step_config"): "StepConfig",
    ("Workflow", "_timeout"): "float | None",
    ("Workflow", "_catch_error_handlers"): "dict[str, CatchErrorHandler]",
    ("Workflow", "_handler_for_step"): "dict[str, str]",
}


def fresh_worker(ws: "InternalStepWorkerState", sc: "StepConfig"):
    return (
        len(ws.queue) == 0
        and len(ws.in_progress) == 0
        and len(ws.collected_waiters) == 0
        and forall_keys(ws.collected_events, lambda b: False)
        and same(ws.config, sc)
    )


@contract("workflows.runtime.types.internal_state.BrokerState.from_workflow")
class FromWorkflow:
    properties = ["C12"]
    raises = []

    def requires(workflow):
        return True

    def ensures_blank_state(old, workflow, result):
        return (
            (not result.is_running)
            and forall_keys(workflow._get_steps(), lambda k: k in result.workers and k in result.config.steps)
            and forall_keys(result.workers, lambda k: k in workflow._get_steps())
            and forall_keys(result.config.steps, lambda k: k in workflow._get_steps())
            and forall_keys(
                result.workers, lambda k: fresh_worker(result.workers[k], workflow._get_steps()[k]._step_config)
            )
            and forall_keys(
                result.config.steps,
                lambda k: result.config.steps[k].num_workers == workflow._get_steps()[k]._step_config.num_workers
                and same(result.config.steps[k].retry_policy, workflow._get_steps()[k]._step_config.retry_policy)
                and same(result.config.steps[k].accepted_events, workflow._get_steps()[k]._step_config.accepted_events),
            )
            and same(result.config.timeout, workflow._timeout)
            and same(result.config.catch_error_handlers, workflow._catch_error_handlers)
            and same(result.config.handler_for_step, workflow._handler_for_step)
        )


# ------------------------------------------------------------------ from_serialized
def import_type(name: "str") -> "type":
    """the class a qualified name denotes (importlib + getattr: assumed a function of the name)"""
    return uf("import_type", "type", name)


@contract("workflows.runtime.types.internal_state._import_event_type")
class ImportEventType:
    properties = ["C12"]
    trusted = True
    raises = ["ValueError", "*user"]
    notes = ("trusted: importlib.import_module + getattr is a function of the qualified name (import side effects and "
             "ImportError/AttributeError are summarised as a user-level exception)")

    def requires(qualified_name):
        return True

    def ensures_result(old, qualified_name, result):
        return same(result, import_type(qualified_name))


def deser_attempt_ok(s: "SerializedEventAttempt", a: "EventAttempt", serializer: "BaseSerializer"):
    """a queued attempt comes back with all of its retry accounting"""
    return (
        same(a.event, serializer.deserialize(s.event))
        and a.attempts is not None
        and opt_val(a.attempts) == s.attempts
        and same(a.first_attempt_at, s.first_attempt_at)
        and same(a.last_exception, s.last_exception)
        and same(a.last_failed_at, s.last_failed_at)
        and same(a.recovery_counts, s.recovery_counts)
    )


def deser_inflight_ok(s: "str", a: "EventAttempt", serializer: "BaseSerializer"):
    """what the code does with work that was running at the snapshot: re-queued as a brand-new first attempt"""
    return (
        same(a.event, serializer.deserialize(s))
        and a.attempts is not None
        and opt_val(a.attempts) == 0
        and a.first_attempt_at is None
        and a.last_exception is None
        and a.last_failed_at is None
        and forall_keys(a.recovery_counts, lambda h: False)
    )


def deser_waiter_ok(s: "SerializedWaiter", w: "StepWorkerWaiter", serializer: "BaseSerializer"):
    return (
        w.waiter_id == s.waiter_id
        and same(w.event, serializer.deserialize(s.event))
        and same(w.waiting_for_event, import_type(s.waiting_for_event))
        and forall_keys(w.requirements, lambda r: False)
        and w.has_requirements == s.has_requirements
        # (an empty string is no serialized event: the code treats it like None)
        and (w.resolved_event is None) == (s.resolved_event is None or opt_val(s.resolved_event) == "")
        and (
            w.resolved_event is None
            or same(opt_val(w.resolved_event), serializer.deserialize(opt_val(s.resolved_event)))
        )
        and not w.timed_out
    )


def deser_queue_ok(s: "SerializedStepWorkerState", q: "list[EventAttempt]", n: "int", serializer: "BaseSerializer"):
    """q = the serialized queue followed by the first n in-flight events"""
    return (
        len(q) == len(s.queue) + n
        and forall(len(s.queue), lambda i: deser_attempt_ok(s.queue[i], q[i], serializer))
        and forall(n, lambda j: deser_inflight_ok(s.in_progress[j], q[len(s.queue) + j], serializer))
    )


def deser_events_ok(s: "SerializedStepWorkerState", ce: "dict[str, list[Event]]", serializer: "BaseSerializer"):
    return (
        forall_keys(s.collected_events, lambda b: b in ce)
        and forall_keys(ce, lambda b: b in s.collected_events)
        and forall_keys(
            ce,
            lambda b: len(ce[b]) == len(s.collected_events[b])
            and forall(len(ce[b]), lambda i: same(ce[b][i], serializer.deserialize(s.collected_events[b][i]))),
        )
    )


def deser_waiters_ok(s: "SerializedStepWorkerState", ws: "list[StepWorkerWaiter]", n: "int",
                     serializer: "BaseSerializer"):
    return len(ws) == n and forall(n, lambda i: deser_waiter_ok(s.collected_waiters[i], ws[i], serializer))


def deser_worker_ok(s: "SerializedStepWorkerState", ws: "InternalStepWorkerState", serializer: "BaseSerializer"):
    return (
        deser_queue_ok(s, ws.queue, len(s.in_progress), serializer)
        and len(ws.in_progress) == 0
        and deser_events_ok(s, ws.collected_events, serializer)
        and deser_waiters_ok(s, ws.collected_waiters, len(s.collected_waiters), serializer)
    )


@contract("workflows.runtime.types.internal_state.BrokerState.from_serialized")
class FromSerialized:
    properties = ["C12", "C10", "C08"]
    raises = ["ValueError", "*user"]

    def requires(serialized, workflow, serializer):
        return True

    # loop 1: for step_name, worker_data in serialized.workers.items()
    def inv_1():
        return (
            base_state.is_running == serialized.is_running
            and same(base_state.config, pre(base_state.config))
            and forall_keys(base_state.workers, lambda k: k in workflow._get_steps())
            and forall_keys(workflow._get_steps(), lambda k: k in base_state.workers)
            and forall_keys(
                base_state.workers,
                lambda k: same(base_state.workers[k].config, workflow._get_steps()[k]._step_config)
                and (
                    deser_worker_ok(serialized.workers[k], base_state.workers[k], serializer)
                    if (k in serialized.workers and dpos(serialized.workers, k) < _i)
                    else fresh_worker(base_state.workers[k], workflow._get_steps()[k]._step_config)
                ),
            )
        )

    # loop 2: for event_str in worker_data.in_progress
    def inv_2():
        return (
            deser_queue_ok(worker_data, worker.queue, _i, serializer)
            and same(base_state.is_running, pre(base_state.is_running))
            and same(base_state.config, pre(base_state.config))
            and forall_keys(base_state.workers, lambda k: k in pre(base_state.workers))
            and forall_keys(pre(base_state.workers), lambda k: k in base_state.workers)
            and forall_keys(
                base_state.workers,
                lambda k: k == step_name or same(base_state.workers[k], pre(base_state.workers[k])),
            )
            and same(worker.config, pre(worker.config))
            and same(worker.in_progress, pre(worker.in_progress))
            and same(worker.collected_events, pre(worker.collected_events))
            and same(worker.collected_waiters, pre(worker.collected_waiters))
        )

    # loop 3: for waiter_data in worker_data.collected_waiters
    def inv_3():
        return (
            deser_waiters_ok(worker_data, worker.collected_waiters, _i, serializer)
            and same(base_state.is_running, pre(base_state.is_running))
            and same(base_state.config, pre(base_state.config))
            and forall_keys(base_state.workers, lambda k: k in pre(base_state.workers))
            and forall_keys(pre(base_state.workers), lambda k: k in base_state.workers)
            and forall_keys(
                base_state.workers,
                lambda k: k == step_name or same(base_state.workers[k], pre(base_state.workers[k])),
            )
            and same(worker.config, pre(worker.config))
            and same(worker.in_progress, pre(worker.in_progress))
            and same(worker.collected_events, pre(worker.collected_events))
            and same(worker.queue, pre(worker.queue))
        )

    def ensures_input_untouched(old, serialized, workflow, serializer, result):
        return same(serialized, old.serialized)

    def ensures_shape(old, serialized, workflow, serializer, result):
        # the rebuilt state belongs to the given workflow: its steps, their configuration, the running flag
        return (
            result.is_running == serialized.is_running
            and forall_keys(result.workers, lambda k: k in workflow._get_steps())
            and forall_keys(workflow._get_steps(), lambda k: k in result.workers)
            and forall_keys(
                result.workers, lambda k: same(result.workers[k].config, workflow._get_steps()[k]._step_config)
            )
        )

    def ensures_restored(old, serialized, workflow, serializer, result):
        # every step of the workflow that the snapshot knows gets its queue, collected events and waiters back;
        # steps the snapshot does not mention start empty; nothing is in progress (interrupted work is queued)
        return forall_keys(
            result.workers,
            lambda k: (
                deser_worker_ok(serialized.workers[k], result.workers[k], serializer)
                if k in serialized.workers
                else fresh_worker(result.workers[k], workflow._get_steps()[k]._step_config)
            ),
        )


# ------------------------------------------------------------------ lemma: snapshot round trip (C12)
def belongs(state: "BrokerState", workflow: "Workflow"):
    """the state is a run state of this workflow"""
    return (
        forall_keys(state.workers, lambda k: k in workflow._get_steps())
        and forall_keys(workflow._get_steps(), lambda k: k in state.workers)
        and forall_keys(state.workers, lambda k: same(state.workers[k].config, workflow._get_steps()[k]._step_config))
    )


def event_rt(e: "Event", serializer: "BaseSerializer"):
    """assumed library contract (C18 is about it): an event survives serialize -> deserialize"""
    return same(serializer.deserialize(serializer.serialize(e)), e) and serializer.serialize(e) != ""


def library_roundtrips(ws: "InternalStepWorkerState", serializer: "BaseSerializer"):
    return (
        forall(len(ws.queue), lambda i: event_rt(ws.queue[i].event, serializer))
        and forall(len(ws.in_progress), lambda i: event_rt(ws.in_progress[i].event, serializer))
        and forall_keys(
            ws.collected_events,
            lambda b: forall(len(ws.collected_events[b]), lambda i: event_rt(ws.collected_events[b][i], serializer)),
        )
        and forall(
            len(ws.collected_waiters),
            lambda i: event_rt(ws.collected_waiters[i].event, serializer)
            and (
                ws.collected_waiters[i].resolved_event is None
                or event_rt(opt_val(ws.collected_waiters[i].resolved_event), serializer)
            )
            and same(
                import_type(
                    f"{ws.collected_waiters[i].waiting_for_event.__module__}."
                    f"{ws.collected_waiters[i].waiting_for_event.__name__}"
                ),
                ws.collected_waiters[i].waiting_for_event,
            ),
        )
    )


@contract("vlemmas.snapshot.snapshot_roundtrip")
class SnapshotRoundtrip:
    properties = ["C12", "C08", "C10", "C14"]
    clause_props = {
        "ensures_inflight_retry_budget_kept": ["C12", "C08"],
        "ensures_waiter_timeout_kept": ["C12", "C14"],
        "ensures_waiters_kept": ["C12", "C10"],
        "ensures_collected_events_kept": ["C12"],
        "ensures_queued_work_kept": ["C12", "C08"],
        "ensures_inflight_work_requeued": ["C12"],
    }
    module = "vlemmas.snapshot"
    raises = ["ValueError", "*user"]
    notes = ("lemma over the contracts of BrokerState.to_serialized / from_serialized (harness in "
             "/verif/lemmas/py/vlemmas/snapshot.py); pydantic model_dump / JSON / model_validate between the two is "
             "assumed to be the identity on SerializedContext (C18 is not applicable)")

    def requires(state, workflow, serializer):
        return belongs(state, workflow)

    def assume_library_roundtrips(state, workflow, serializer):
        # events and event classes survive the serializer / importlib (assumed for the events of this state)
        return forall_keys(state.workers, lambda k: library_roundtrips(state.workers[k], serializer))

    def ensures_input_untouched(old, state, workflow, serializer, result):
        return same(state, old.state)

    def ensures_run_shape(old, state, workflow, serializer, result):
        return (
            result.is_running == state.is_running
            and forall_keys(result.workers, lambda k: k in state.workers)
            and forall_keys(state.workers, lambda k: k in result.workers)
            and forall_keys(
                result.workers,
                lambda k: same(result.workers[k].config, state.workers[k].config)
                and len(result.workers[k].in_progress) == 0,
            )
        )

    def ensures_queued_work_kept(old, state, workflow, serializer, result):
        # queued events come back in order with their retry count, retry window, last failure and recovery budget
        return forall_keys(
            state.workers,
            lambda k: len(result.workers[k].queue) == len(state.workers[k].queue) + len(state.workers[k].in_progress)
            and forall(
                len(state.workers[k].queue),
                lambda i: same(result.workers[k].queue[i].event, state.workers[k].queue[i].event)
                and result.workers[k].queue[i].attempts is not None
                and opt_val(result.workers[k].queue[i].attempts)
                == (
                    opt_val(state.workers[k].queue[i].attempts)
                    if state.workers[k].queue[i].attempts is not None
                    else 0
                )
                and same(result.workers[k].queue[i].first_attempt_at, state.workers[k].queue[i].first_attempt_at)
                and same(result.workers[k].queue[i].last_exception, state.workers[k].queue[i].last_exception)
                and same(result.workers[k].queue[i].last_failed_at, state.workers[k].queue[i].last_failed_at)
                and same(result.workers[k].queue[i].recovery_counts, state.workers[k].queue[i].recovery_counts),
            ),
        )

    def ensures_inflight_work_requeued(old, state, workflow, serializer, result):
        # every invocation that was running at the snapshot is queued again, after the queued work, in order
        return forall_keys(
            state.workers,
            lambda k: forall(
                len(state.workers[k].in_progress),
                lambda j: same(
                    result.workers[k].queue[len(state.workers[k].queue) + j].event,
                    state.workers[k].in_progress[j].event,
                ),
            ),
        )

    def ensures_inflight_retry_budget_kept(old, state, workflow, serializer, result):
        # C12 / C08: "... re-executed under its existing retry count and recovery budget"
        return forall_keys(
            state.workers,
            lambda k: forall(
                len(state.workers[k].in_progress),
                lambda j: result.workers[k].queue[len(state.workers[k].queue) + j].attempts is not None
                and opt_val(result.workers[k].queue[len(state.workers[k].queue) + j].attempts)
                == state.workers[k].in_progress[j].attempts
                and same(
                    result.workers[k].queue[len(state.workers[k].queue) + j].recovery_counts,
                    state.workers[k].in_progress[j].recovery_counts,
                ),
            ),
        )

    def ensures_collected_events_kept(old, state, workflow, serializer, result):
        return forall_keys(
            state.workers, lambda k: result.workers[k].collected_events == state.workers[k].collected_events
        )

    def ensures_waiters_kept(old, state, workflow, serializer, result):
        # C10: a waiter keeps its identity, the event to replay, the awaited type and an already delivered result;
        # one that had requirements is flagged so that the step is asked for them again
        return forall_keys(
            state.workers,
            lambda k: len(result.workers[k].collected_waiters) == len(state.workers[k].collected_waiters)
            and forall(
                len(state.workers[k].collected_waiters),
                lambda i: result.workers[k].collected_waiters[i].waiter_id
                == state.workers[k].collected_waiters[i].waiter_id
                and same(result.workers[k].collected_waiters[i].event, state.workers[k].collected_waiters[i].event)
                and same(
                    result.workers[k].collected_waiters[i].waiting_for_event,
                    state.workers[k].collected_waiters[i].waiting_for_event,
                )
                and same(
                    result.workers[k].collected_waiters[i].resolved_event,
                    state.workers[k].collected_waiters[i].resolved_event,
                )
                and result.workers[k].collected_waiters[i].has_requirements
                == (
                    state.workers[k].collected_waiters[i].has_requirements
                    or len(state.workers[k].collected_waiters[i].requirements) > 0
                ),
            ),
        )

    def ensures_waiter_timeout_kept(old, state, workflow, serializer, result):
        # C14 / C10: a wait_for_event timeout that already fired still takes effect after a reload
        return forall_keys(
            state.workers,
            lambda k: forall(
                len(state.workers[k].collected_waiters),
                lambda i: result.workers[k].collected_waiters[i].timed_out
                == state.workers[k].collected_waiters[i].timed_out,
            ),
        )
