"""Contracts for the reducer, part 4: processing the result of a step invocation."""
from pyvc.dsl import *  # noqa

try:  # native side only
    from specs.control_loop import *  # noqa
    from specs.control_loop import I1, I2, wf_ws, wf, Inv1, Inv2, quiescent  # noqa
    from specs.control_loop_b import same_keys, same_shape  # noqa
    from specs.control_loop_c import is_start_cmd  # noqa
except ImportError:  # pragma: no cover
    pass

MODULE = "workflows.runtime.control_loop"

MODULE_FNS = {
    "inspect.signature": dict(ret="opaque:Signature", pure=True),
    "hashlib.sha256": dict(ret="opaque:Hash", pure=True),
    "datetime.datetime.fromtimestamp": dict(ret="datetime", pure=True),
}

OPAQUE_ATTRS = {
    ("Signature", "parameters"): "opaque:SigParams",
}

OPAQUE_METHODS = {
    ("Hash", "hexdigest"): dict(ret="str", pure=True),
}


# ------------------------------------------------------------------ vocabulary
def is_exit(c: "WorkflowCommand"):
    return isinstance(c, CommandCompleteRun) or isinstance(c, CommandFailWorkflow) or isinstance(c, CommandHalt)


def slot_index(ws: "InternalStepWorkerState", wid: "int", m: "int"):
    """m is the position of the (first) in-progress entry with worker id wid"""
    return (
        0 <= m
        and m < len(ws.in_progress)
        and ws.in_progress[m].worker_id == wid
        and forall(m, lambda j: ws.in_progress[j].worker_id != wid)
    )


def has_slot(ws: "InternalStepWorkerState", wid: "int"):
    return exists(len(ws.in_progress), lambda j: ws.in_progress[j].worker_id == wid)


def retry_cmd_ok(c: "CommandQueueEvent", tick: "TickStepResult", ex_attempts: "int", ex_first: "float", ex_counts: "dict[str, int]"):
    """C05: a retry carries attempts+1 and the unchanged first-attempt time / recovery counts of the failed attempt"""
    return (
        c.step_name == tick.step_name
        and same(c.event, tick.event)
        and c.attempts == ex_attempts + 1
        and c.first_attempt_at == ex_first
        and same(c.recovery_counts, ex_counts)
        and c.delay is not None
        and c.last_exception is not None
        and c.last_failed_at is not None
    )


def handler_cmd_ok(c: "CommandQueueEvent", tick: "TickStepResult", ex_attempts: "int", ex_counts: "dict[str, int]", config: "BrokerConfig"):
    """C08: an exhausted failure goes to the handler that owns the step, within its recovery budget"""
    return (
        tick.step_name in config.handler_for_step
        and config.handler_for_step[tick.step_name] in config.catch_error_handlers
        and c.step_name == config.catch_error_handlers[config.handler_for_step[tick.step_name]].step_name
        and type_is(c.event, StepFailedEvent)
        and c.event.step_name == tick.step_name
        and c.event.attempts == ex_attempts + 1
        and same(c.event.input_event, tick.event)
        and c.delay is None
        and (
            config.catch_error_handlers[config.handler_for_step[tick.step_name]].step_name in c.recovery_counts
        )
        and c.recovery_counts[config.catch_error_handlers[config.handler_for_step[tick.step_name]].step_name]
        == (
            ex_counts[config.catch_error_handlers[config.handler_for_step[tick.step_name]].step_name]
            if config.catch_error_handlers[config.handler_for_step[tick.step_name]].step_name in ex_counts
            else 0
        )
        + 1
        and c.recovery_counts[config.catch_error_handlers[config.handler_for_step[tick.step_name]].step_name]
        <= config.catch_error_handlers[config.handler_for_step[tick.step_name]].max_recoveries
        and forall_keys(
            ex_counts,
            lambda k: implies(
                k != config.catch_error_handlers[config.handler_for_step[tick.step_name]].step_name,
                k in c.recovery_counts and c.recovery_counts[k] == ex_counts[k],
            ),
        )
    )


def output_cmd_ok(c: "CommandQueueEvent", tick: "TickStepResult", ex_counts: "dict[str, int]"):
    """an ordinary step output: addressed to nobody in particular, inherits the lineage's recovery counts"""
    return (
        c.step_name is None
        and c.delay is None
        and c.first_attempt_at is None
        and same(c.recovery_counts, ex_counts)
        and exists(
            len(tick.result),
            lambda k: isinstance(tick.result[k], StepWorkerResult) and same(tick.result[k].result, c.event),
        )
    )


def cmd_ok(c: "WorkflowCommand", p: "WorkflowCommand", i: "int", tick: "TickStepResult", ex_attempts: "int", ex_first: "float", ex_counts: "dict[str, int]", config: "BrokerConfig"):
    """what the result loop may emit at position i"""
    return (
        isinstance(c, CommandPublishEvent)
        or isinstance(c, CommandScheduleWaiterTimeout)
        or (
            isinstance(c, CommandRunWorker)
            and c.step_name == tick.step_name
        )
        or (
            isinstance(c, CommandQueueEvent)
            and (
                retry_cmd_ok(c, tick, ex_attempts, ex_first, ex_counts)
                if c.attempts is not None
                else (
                    handler_cmd_ok(c, tick, ex_attempts, ex_counts, config)
                    if c.step_name is not None
                    else output_cmd_ok(c, tick, ex_counts)
                )
            )
        )
        or (
            # C04: a result ends the run only right after the stream got that very StopEvent
            isinstance(c, CommandCompleteRun)
            and i >= 1
            and isinstance(p, CommandPublishEvent)
            and same(p.event, c.result)
            and isinstance(c.result, StopEvent)
        )
        or (
            # C04 / C08: a failure ends the run only right after WorkflowFailedEvent with the same exception
            isinstance(c, CommandFailWorkflow)
            and i >= 1
            and isinstance(p, CommandPublishEvent)
            and type_is(p.event, WorkflowFailedEvent)
            and p.event.step_name == tick.step_name
            and same(p.event.exception, c.exception)
            and p.event.attempts == ex_attempts + 1
            and c.step_name == tick.step_name
            and exists(
                len(tick.result),
                lambda k: isinstance(tick.result[k], StepWorkerFailed)
                and same(tick.result[k].exception, c.exception),
            )
        )
    )


def output_queued(cmds: "list[WorkflowCommand]", ev: "Event"):
    """the returned event ev is handed to routing by some command (published right before if it asks for input)"""
    return exists(
        len(cmds),
        lambda i: isinstance(cmds[i], CommandQueueEvent)
        and same(cmds[i].event, ev)
        and cmds[i].step_name is None
        and (
            (not isinstance(ev, InputRequiredEvent))
            or (i >= 1 and isinstance(cmds[i - 1], CommandPublishEvent) and same(cmds[i - 1].event, ev))
        ),
    )


def no_forged_telemetry(tick: "TickStepResult"):
    """API-usage assumption: the prompt event handed to ctx.wait_for_event(waiter_event=...) is not itself an engine
    telemetry event (StepStateChanged); otherwise user code could forge any lifecycle trace"""
    return forall(
        len(tick.result),
        lambda k: (not isinstance(tick.result[k], AddWaiter))
        or tick.result[k].waiter_event is None
        or not type_is(opt_val(tick.result[k].waiter_event), StepStateChanged),
    )


def is_plain_output(r: "StepFunctionResult"):
    return isinstance(r, StepWorkerResult) and r.result is not None and not isinstance(r.result, StopEvent)


def cleared(ws2: "InternalStepWorkerState", ws: "InternalStepWorkerState"):
    """after a StopEvent: collected events / waiters dropped, everything else as before"""
    return (
        same(ws2.queue, ws.queue)
        and same(ws2.config, ws.config)
        and same(ws2.in_progress, ws.in_progress)
        and forall_of("str", lambda b: not (b in ws2.collected_events))
        and len(ws2.collected_waiters) == 0
    )


def slot_kept(ws2: "InternalStepWorkerState", ws: "InternalStepWorkerState", wid: "int"):
    """during the result loop the step's worker pool changes only in the reporting slot's snapshot"""
    return (
        same(ws2.queue, ws.queue)
        and same(ws2.config, ws.config)
        and len(ws2.in_progress) == len(ws.in_progress)
        and forall(
            len(ws.in_progress),
            lambda j: (
                ws2.in_progress[j].worker_id == ws.in_progress[j].worker_id
                and same(ws2.in_progress[j].event, ws.in_progress[j].event)
                and ws2.in_progress[j].attempts == ws.in_progress[j].attempts
                and ws2.in_progress[j].first_attempt_at == ws.in_progress[j].first_attempt_at
                and same(ws2.in_progress[j].recovery_counts, ws.in_progress[j].recovery_counts)
            )
            if ws.in_progress[j].worker_id == wid
            else same(ws2.in_progress[j], ws.in_progress[j]),
        )
    )


@contract("workflows.runtime.control_loop._process_step_result_tick")
class StepResultTick:
    properties = ["C01", "C03", "C04", "C05", "C08", "C35"]
    clause_props = {
        "raises:unexpected-user-exception": ["C04"],
    }
    raises = ["ValueError"]

    def requires(tick, init, now_seconds, run_id):
        return wf(init) and Inv1(init) and tick.step_name in init.workers and no_forged_telemetry(tick)

    def raises_ValueError(old, tick, init, now_seconds, run_id):
        # only the documented "should not happen" case: the reporting worker is not in progress
        return not has_slot(init.workers[tick.step_name], tick.worker_id)

    # loop 1: for result in tick.result
    def inv_1():
        return (
            same_shape(state, init)
            and forall_keys(
                state.workers,
                lambda s: implies(
                    s != tick.step_name,
                    same(state.workers[s], init.workers[s]) or cleared(state.workers[s], init.workers[s]),
                ),
            )
            and has_slot(init.workers[tick.step_name], tick.worker_id)
            and slot_kept(state.workers[tick.step_name], init.workers[tick.step_name], tick.worker_id)
            and this_execution.worker_id == tick.worker_id
            and wf_ws(state.workers[tick.step_name])
            and I1(state.workers[tick.step_name])
            and forall(
                len(commands),
                lambda i: cmd_ok(
                    commands[i], commands[i - 1], i, tick, this_execution.attempts, this_execution.first_attempt_at,
                    this_execution.recovery_counts, init.config
                ),
            )
            # the result loop itself publishes no step telemetry (that happens after it, exactly once)
            and forall(
                len(commands),
                lambda i: not (
                    isinstance(commands[i], CommandPublishEvent) and type_is(commands[i].event, StepStateChanged)
                ),
            )
            # every output returned so far has been handed to routing
            and forall(
                _i,
                lambda k: implies(
                    is_plain_output(tick.result[k]), output_queued(commands, opt_val(tick.result[k].result))
                ),
            )
            # C01: the only worker started by the result loop is a re-run of the reporting slot itself
            and forall(
                len(commands),
                lambda i: implies(isinstance(commands[i], CommandRunWorker), commands[i].id == tick.worker_id),
            )
            # the slot stays in progress exactly when a re-run of it has been ordered
            and step_no_longer_in_progress
            == (not exists(len(commands), lambda i: isinstance(commands[i], CommandRunWorker)))
        )

    # loop 2: for worker in state.workers.values(): clear collected (StopEvent)
    def inv_2():
        return (
            same_shape(state, pre(state))
            and state.is_running == pre(state.is_running)
            and forall_keys(
                state.workers,
                lambda s: (
                    (
                        same(state.workers[s].queue, pre(state.workers)[s].queue)
                        and same(state.workers[s].config, pre(state.workers)[s].config)
                        and same(state.workers[s].in_progress, pre(state.workers)[s].in_progress)
                        and forall_of("str", lambda b: not (b in state.workers[s].collected_events))
                        and len(state.workers[s].collected_waiters) == 0
                    )
                    if dpos(state.workers, s) < _i
                    else same(state.workers[s], pre(state.workers)[s])
                ),
            )
        )

    # loop 3: drain the queue while there is capacity
    def inv_3():
        return (
            same_shape(state, init)
            and state.is_running == pre(state.is_running)
            and forall_keys(
                state.workers, lambda s: implies(s != tick.step_name, same(state.workers[s], pre(state.workers)[s]))
            )
            and wf_ws(state.workers[tick.step_name])
            and I1(state.workers[tick.step_name])
            and same(state.workers[tick.step_name].config, pre(state.workers)[tick.step_name].config)
            and same(
                state.workers[tick.step_name].collected_events, pre(state.workers)[tick.step_name].collected_events
            )
            and same(
                state.workers[tick.step_name].collected_waiters, pre(state.workers)[tick.step_name].collected_waiters
            )
            and len(state.workers[tick.step_name].queue) + len(state.workers[tick.step_name].in_progress)
            == len(pre(state.workers)[tick.step_name].queue) + len(pre(state.workers)[tick.step_name].in_progress)
            and len(state.workers[tick.step_name].in_progress) >= len(pre(state.workers)[tick.step_name].in_progress)
            and forall(
                len(pre(state.workers)[tick.step_name].in_progress),
                lambda j: same(
                    state.workers[tick.step_name].in_progress[j], pre(state.workers)[tick.step_name].in_progress[j]
                ),
            )
            and len(commands) >= len(pre(commands))
            and forall(len(pre(commands)), lambda i: same(commands[i], pre(commands)[i]))
            and forall(
                len(tick.result),
                lambda k: implies(
                    is_plain_output(tick.result[k]), output_queued(commands, opt_val(tick.result[k].result))
                ),
            )
            and forall_range(
                len(pre(commands)),
                len(commands),
                lambda i: is_start_cmd(commands[i])
                and implies(isinstance(commands[i], CommandRunWorker), commands[i].step_name == tick.step_name),
            )
        )

    # ------------------------------------------------------------- postconditions
    def ensures_input_untouched(old, tick, init, now_seconds, run_id, result):
        return same(init, old.init)

    def ensures_shape(old, tick, init, now_seconds, run_id, result):
        return same_shape(result[0], init)

    def ensures_slot_existed(old, tick, init, now_seconds, run_id, result):
        # normal return means the reporting worker was in progress (otherwise ValueError)
        return has_slot(init.workers[tick.step_name], tick.worker_id)

    def ensures_inv(old, tick, init, now_seconds, run_id, result):
        # C01: capacity and distinct slots are preserved, for every step
        return wf(result[0]) and Inv1(result[0])

    def ensures_commands(old, tick, init, now_seconds, run_id, result):
        # C04 (terminal event right before every exit), C05 (retry carries attempts+1 and the unchanged first-attempt
        # time), C08 (exhausted failures go to the owning handler within budget, else fail with the same exception)
        cmds = result[1]
        ws = init.workers[tick.step_name]
        return forall(
            len(ws.in_progress),
            lambda j: implies(
                ws.in_progress[j].worker_id == tick.worker_id,
                forall(
                    len(cmds),
                    lambda i: cmd_ok(
                        cmds[i], cmds[i - 1], i, tick, ws.in_progress[j].attempts,
                        ws.in_progress[j].first_attempt_at, ws.in_progress[j].recovery_counts, init.config
                    ),
                ),
            ),
        )

    def ensures_slot_accounting(old, tick, init, now_seconds, run_id, result):
        # C35 / C01: either the slot is given up - NOT_RUNNING for it is published first and the step holds one
        # piece of work less - or it is re-run in place and nothing leaves the step
        cmds = result[1]
        ws = init.workers[tick.step_name]
        ws2 = result[0].workers[tick.step_name]
        return (
            len(ws2.queue) + len(ws2.in_progress) == len(ws.queue) + len(ws.in_progress) - 1
            and len(cmds) >= 1
            and isinstance(cmds[0], CommandPublishEvent)
            and type_is(cmds[0].event, StepStateChanged)
            and cmds[0].event.step_state == StepState.NOT_RUNNING
            and cmds[0].event.name == tick.step_name
            and cmds[0].event.worker_id == str_of_int(tick.worker_id)
        ) or (
            len(ws2.queue) + len(ws2.in_progress) == len(ws.queue) + len(ws.in_progress)
            and has_slot(ws2, tick.worker_id)
            and exists(
                len(cmds),
                lambda i: isinstance(cmds[i], CommandRunWorker) and cmds[i].id == tick.worker_id,
            )
            # ... and a slot that keeps running is not announced as NOT_RUNNING (its RUNNING stays unmatched until
            # the re-run really ends)
            and not (
                len(cmds) >= 1
                and isinstance(cmds[0], CommandPublishEvent)
                and type_is(cmds[0].event, StepStateChanged)
                and cmds[0].event.step_state == StepState.NOT_RUNNING
            )
        )

    def ensures_outputs_complete(old, tick, init, now_seconds, run_id, result):
        # C02 / C35: every event a step returns is queued exactly for routing (one CommandQueueEvent carrying it), and a
        # returned InputRequiredEvent is published - here, once, and nowhere else (routing publishes nothing but
        # UnhandledEvent, see AddEventTick.ensures_unhandled)
        cmds = result[1]
        return forall(
            len(tick.result),
            lambda k: (not is_plain_output(tick.result[k])) or output_queued(cmds, opt_val(tick.result[k].result)),
        )

    def ensures_work_conserving(old, tick, init, now_seconds, run_id, result):
        # C03(a): unless the run ends, nothing stays queued while a slot is free
        return (
            exists(len(result[1]), lambda i: is_exit(result[1][i]))
            or (not Inv2(init))
            or Inv2(result[0])
        )
