"""Contracts for workflows.representation.validate: @catch_error handler tables (C08, C23)."""
from pyvc.dsl import *  # noqa

try:  # native side only
    from workflows.events import (  # noqa
        Event, HumanResponseEvent, InputRequiredEvent, StartEvent, StepFailedEvent, StopEvent,
    )
except ImportError:  # pragma: no cover
    pass

MODULE = "workflows.representation.validate"


# ------------------------------------------------------------------ vocabulary
def claims(hs: "list[CatchErrorHandler]", i: "int", j: "int", t: "str"):
    """handler i lists step t as its j-th target"""
    return (
        0 <= i
        and i < len(hs)
        and hs[i].for_steps is not None
        and 0 <= j
        and j < len(opt_val(hs[i].for_steps))
        and opt_val(hs[i].for_steps)[j] == t
    )


def is_handler_step(hs: "list[CatchErrorHandler]", t: "str"):
    return exists(len(hs), lambda k: hs[k].step_name == t)


def claimed_before(hs: "list[CatchErrorHandler]", i: "int", j: "int", t: "str"):
    """t is already claimed by an earlier handler, or earlier in handler i's own list"""
    return exists(
        i, lambda i2: hs[i2].for_steps is not None and exists(len(opt_val(hs[i2].for_steps)), lambda j2: opt_val(hs[i2].for_steps)[j2] == t)
    ) or exists(j, lambda j2: opt_val(hs[i].for_steps)[j2] == t)


def target_ok(hs, names, i, j):  # (macro: unfolded in place, so that quantifiers over j see the list accesses)
    """the j-th target of handler i: a known step, not a handler step, not claimed before"""
    return (
        opt_val(hs[i].for_steps)[j] in names
        and not is_handler_step(hs, opt_val(hs[i].for_steps)[j])
        and not claimed_before(hs, i, j, opt_val(hs[i].for_steps)[j])
    )


def one_wildcard(hs: "list[CatchErrorHandler]"):
    return forall(len(hs), lambda a: forall(a, lambda b: not (hs[a].for_steps is None and hs[b].for_steps is None)))


def targets_ok_upto(hs: "list[CatchErrorHandler]", names: "set[str]", n: "int", m: "int"):
    """all targets of handlers 0..n-1, and the first m targets of handler n, are acceptable"""
    return forall(
        n, lambda i: hs[i].for_steps is None or forall(len(opt_val(hs[i].for_steps)), lambda j: target_ok(hs, names, i, j))
    ) and forall(m, lambda j: target_ok(hs, names, n, j))


def handlers_consistent(hs: "list[CatchErrorHandler]", names: "set[str]"):
    """C08 / C23: at most one wildcard; every scoped target is a known non-handler step claimed exactly once"""
    return one_wildcard(hs) and targets_ok_upto(hs, names, len(hs), 0)


@contract("workflows.representation.validate.validate_catch_error_handlers")
class ValidateCatchErrorHandlers:
    properties = ["C08", "C23"]
    param_types = {"handlers": "list[CatchErrorHandler]"}
    raises = []

    def requires(handlers, step_names):
        return True

    # loop 1: for handler in handlers ; loop 2: for target in handler.for_steps
    def inv_1():
        return (
            (len(errors) == 0) == (one_wildcard(handlers) and targets_ok_upto(handlers, step_names, _i, 0))
            and (
                len(errors) > 0
                or forall_of(
                    "str",
                    lambda t: (t in claim_owner)
                    == exists(
                        _i,
                        lambda i2: handlers[i2].for_steps is not None
                        and exists(len(opt_val(handlers[i2].for_steps)), lambda j2: opt_val(handlers[i2].for_steps)[j2] == t),
                    ),
                )
            )
            and forall_of("str", lambda t: (t in handler_step_names) == is_handler_step(handlers, t))
        )

    def inv_2():
        return (
            (len(errors) == 0) == (one_wildcard(handlers) and targets_ok_upto(handlers, step_names, _i1, _i))
            and (
                len(errors) > 0
                or forall_of(
                    "str",
                    lambda t: (t in claim_owner)
                    == (
                        exists(
                            _i1,
                            lambda i2: handlers[i2].for_steps is not None
                            and exists(
                                len(opt_val(handlers[i2].for_steps)), lambda j2: opt_val(handlers[i2].for_steps)[j2] == t
                            ),
                        )
                        or exists(_i, lambda j2: opt_val(handlers[_i1].for_steps)[j2] == t)
                    ),
                )
            )
            and forall_of("str", lambda t: (t in handler_step_names) == is_handler_step(handlers, t))
            and same(handler, handlers[_i1])
        )

    def ensures_accepts_exactly_consistent_sets(old, handlers, step_names, result):
        return (len(result) == 0) == handlers_consistent(handlers, step_names)

    def ensures_inputs_untouched(old, handlers, step_names, result):
        return same(handlers, old.handlers) and same(step_names, old.step_names)


# ------------------------------------------------------------------ the routing tables
FIELD_TYPES = {
    ("StepConfig", "role"): "str",
}


def lists_step(h: "CatchErrorHandler", s: "str"):
    return h.for_steps is not None and exists(len(opt_val(h.for_steps)), lambda j: opt_val(h.for_steps)[j] == s)


def scoped_claim(hs: "list[CatchErrorHandler]", n: "int", s: "str"):
    """one of the first n handlers lists s"""
    return exists(n, lambda i: lists_step(hs[i], s))


def descriptor_of(h: "CatchErrorHandler", name: "str", cfg: "StepConfig"):
    return (
        h.step_name == name
        and cfg.role == "catch_error"
        and h.max_recoveries == cfg.catch_error_max_recoveries
        and h.max_recoveries >= 1
        and (h.for_steps is None) == (cfg.catch_error_for_steps is None)
        and (h.for_steps is None or opt_val(h.for_steps) == opt_val(cfg.catch_error_for_steps))
    )


def handlers_of(steps: "dict[str, StepConfig]", hs: "list[CatchErrorHandler]", n: "int"):
    """hs = the descriptors of the catch_error steps among the first n steps, in iteration order, each once"""
    return (
        forall(
            len(hs),
            lambda m: hs[m].step_name in steps
            and dpos(steps, hs[m].step_name) < n
            and descriptor_of(hs[m], hs[m].step_name, steps[hs[m].step_name])
            and forall(m, lambda m2: dpos(steps, hs[m2].step_name) < dpos(steps, hs[m].step_name)),
        )
        and forall_keys(
            steps,
            lambda k: (not (steps[k].role == "catch_error" and dpos(steps, k) < n)) or is_handler_step(hs, k),
        )
    )


@contract("workflows.representation.validate._collect_catch_error_handlers")
class CollectCatchErrorHandlers:
    properties = ["C08", "C23"]
    raises = ["WorkflowValidationError"]

    def requires(steps):
        return True

    # loop 1: for name, cfg in steps.items()  (build the descriptors)
    def inv_1():
        return handlers_of(steps, handlers, _i) and forall_of("str", lambda t: (t in all_step_names) == (t in steps))

    # loop 2: for handler in handlers ; loop 3: for target in handler.for_steps  (scoped claims)
    def inv_2():
        return (
            forall_of("str", lambda t: (t in handler_for_step) == scoped_claim(handlers, _i, t))
            and forall(
                _i, lambda i: forall_of("str", lambda t: (not lists_step(handlers[i], t)) or handler_for_step[t] == handlers[i].step_name)
            )
        )

    def inv_3():
        return (
            same(handler, handlers[_i2])
            and handler.for_steps is not None
            and forall_of(
                "str",
                lambda t: (t in handler_for_step)
                == (scoped_claim(handlers, _i2, t) or exists(_i, lambda j: opt_val(handler.for_steps)[j] == t)),
            )
            and forall(
                _i2, lambda i: forall_of("str", lambda t: (not lists_step(handlers[i], t)) or handler_for_step[t] == handlers[i].step_name)
            )
            and forall(_i, lambda j: handler_for_step[opt_val(handler.for_steps)[j]] == handler.step_name)
        )

    # loop 4: for step_name in all_step_names  (wildcard fill)
    def inv_4():
        return forall_of(
            "str",
            lambda t: (t in handler_for_step)
            == (
                scoped_claim(handlers, len(handlers), t)
                or (
                    t in all_step_names
                    and dpos(all_step_names, t) < _i
                    and not is_handler_step(handlers, t)
                )
            ),
        ) and forall_of(
            "str",
            lambda t: (not (t in handler_for_step))
            or (
                handler_for_step[t] == opt_val(wildcard).step_name
                if not scoped_claim(handlers, len(handlers), t)
                else forall(len(handlers), lambda i: (not lists_step(handlers[i], t)) or handler_for_step[t] == handlers[i].step_name)
            ),
        )

    def ensures_handler_table(old, steps, result):
        # the descriptor table holds exactly the @catch_error steps, each with its own configuration
        return forall_keys(steps, lambda k: (k in result[0]) == (steps[k].role == "catch_error")) and forall_keys(
            result[0], lambda k: k in steps and descriptor_of(result[0][k], k, steps[k])
        )

    def ensures_owner_is_scoped_then_wildcard(old, steps, result):
        # C08: a step is owned by the handler that lists it, otherwise by the wildcard handler, and a handler
        # step is never owned by anybody
        return forall_keys(
            result[1],
            lambda s: s in steps and (not (s in result[0])) and result[1][s] in result[0],
        ) and forall_keys(
            steps,
            lambda s: (s in result[0])
            or (
                (
                    s in result[1]
                    and lists_step(result[0][result[1][s]], s)
                )
                if exists_key(result[0], lambda h: lists_step(result[0][h], s))
                else (
                    (s in result[1] and result[0][result[1][s]].for_steps is None)
                    if exists_key(result[0], lambda h: result[0][h].for_steps is None)
                    else not (s in result[1])
                )
            ),
        )

    def ensures_input_untouched(old, steps, result):
        return same(steps, old.steps)


# ------------------------------------------------------------------ event connectivity and the human-in-the-loop flag
def accepts_stop(cfg: "StepConfig"):
    return exists(len(cfg.accepted_events), lambda j: issubclass(cfg.accepted_events[j], StopEvent))


def produced_by(steps: "dict[str, StepConfig]", n: "int", t: "type"):
    """one of the first n steps (iteration order) returns t"""
    return exists_key(
        steps,
        lambda k: dpos(steps, k) < n
        and exists(len(steps[k].return_types), lambda j: steps[k].return_types[j] == t and t is not type(None)),
    )


def consumed_by(steps: "dict[str, StepConfig]", n: "int", t: "type"):
    return exists_key(
        steps, lambda k: dpos(steps, k) < n and exists(len(steps[k].accepted_events), lambda j: steps[k].accepted_events[j] == t)
    )


def boundary_in(t: "type"):
    """event types that may enter a workflow from outside (consumed without being produced)"""
    return (
        issubclass(t, InputRequiredEvent)
        or issubclass(t, HumanResponseEvent)
        or issubclass(t, StopEvent)
        or issubclass(t, StepFailedEvent)
    )


def boundary_out(t: "type"):
    """event types that may leave a workflow (produced without being consumed)"""
    return issubclass(t, InputRequiredEvent) or issubclass(t, HumanResponseEvent) or issubclass(t, StopEvent)


def connectivity_ok(steps: "dict[str, StepConfig]", start: "type"):
    """C23: no step consumes a StopEvent; every consumed event is produced (or is a boundary event) and vice versa"""
    return (
        forall_keys(steps, lambda k: not accepts_stop(steps[k]))
        and forall_of(
            "type",
            lambda t: (not consumed_by(steps, dsize(steps), t))
            or t == start
            or produced_by(steps, dsize(steps), t)
            or boundary_in(t),
        )
        and forall_of(
            "type",
            lambda t: (not (t == start or produced_by(steps, dsize(steps), t)))
            or consumed_by(steps, dsize(steps), t)
            or boundary_out(t),
        )
    )


@contract("workflows.representation.validate._validate_event_connectivity")
class ValidateEventConnectivity:
    properties = ["C23"]
    raises = ["WorkflowValidationError"]

    def requires(steps, start_event_class):
        return True

    def raises_WorkflowValidationError(old, steps, start_event_class):
        # rejected only when the step set really is ill-connected
        return not connectivity_ok(steps, start_event_class)

    # loop 1: for name, cfg in steps.items()
    def inv_1():
        return (
            forall_of("type", lambda t: (t in produced_events) == (t == start_event_class or produced_by(steps, _i, t)))
            and forall_of("type", lambda t: (t in consumed_events) == consumed_by(steps, _i, t))
            and (len(steps_accepting_stop_event) > 0)
            == exists_key(steps, lambda k: dpos(steps, k) < _i and accepts_stop(steps[k]))
        )

    # loop 2: for event_type in cfg.accepted_events (break at the first StopEvent subclass)
    def inv_2():
        return (
            forall(_i, lambda j: not issubclass(cfg.accepted_events[j], StopEvent))
            and same(steps_accepting_stop_event, pre(steps_accepting_stop_event))
            and same(produced_events, pre(produced_events))
            and same(consumed_events, pre(consumed_events))
        )

    # loop 3: for event_type in cfg.accepted_events
    def inv_3():
        return (
            forall_of(
                "type",
                lambda t: (t in consumed_events)
                == (t in pre(consumed_events) or exists(_i, lambda j: cfg.accepted_events[j] == t)),
            )
            and same(steps_accepting_stop_event, pre(steps_accepting_stop_event))
            and same(produced_events, pre(produced_events))
        )

    # loop 4: for event_type in cfg.return_types
    def inv_4():
        return (
            forall_of(
                "type",
                lambda t: (t in produced_events)
                == (
                    t in pre(produced_events)
                    or exists(_i, lambda j: cfg.return_types[j] == t and t is not type(None))
                ),
            )
            and same(steps_accepting_stop_event, pre(steps_accepting_stop_event))
            and same(consumed_events, pre(consumed_events))
        )

    def ensures_accepted_only_if_connected(old, steps, start_event_class, result):
        return connectivity_ok(steps, start_event_class)

    def ensures_human_in_the_loop_flag(old, steps, start_event_class, result):
        # C23: "true iff an InputRequiredEvent is produced or a HumanResponseEvent is consumed" - an event of a
        # subclass IS such an event
        return result == (
            exists_of(
                "type",
                lambda t: (t == start_event_class or produced_by(steps, dsize(steps), t)) and issubclass(t, InputRequiredEvent),
            )
            or exists_of("type", lambda t: consumed_by(steps, dsize(steps), t) and issubclass(t, HumanResponseEvent))
        )

    def ensures_input_untouched(old, steps, start_event_class, result):
        return same(steps, old.steps)
