"""Contracts for the SQLite handler store's filter builder (C24: the SQL text and its parameters stay aligned)."""
from pyvc.dsl import *  # noqa

try:  # native side only
    from pyvc.dsl import UF_NATIVE

    UF_NATIVE["conn_ctx"] = lambda store: store._connect()
except ImportError:  # pragma: no cover
    pass

MODULE = "llama_agents.server._store.sqlite.sqlite_workflow_store"

PLAIN_CLASSES = {
    "SqliteWorkflowStore": [("db_path", "str")],
}

OPAQUE_METHODS = {
    # sqlite3 objects and the store's connection context (assumed library behaviour: `cursor()` hands out the
    # statement handle whose `rowcount` is the number of rows ITS last statement changed)
    ("ConnCtx", "__enter__"): dict(ret="opaque:Connection", pure=True),
    ("Connection", "cursor"): dict(ret="opaque:Cursor", pure=True),
    ("Connection", "execute"): dict(ret="opaque:Cursor", pure=False, log=True),
    ("Connection", "commit"): dict(ret="None", pure=False, log=True),
    ("Cursor", "execute"): dict(ret="None", pure=False, log=True),
}

OPAQUE_ATTRS = {
    ("Cursor", "rowcount"): "int",
    ("Connection", "total_changes"): "int",
}


def conn_of(store):  # (macro) the connection the store's context manager yields
    return uf("conn_ctx", "opaque:ConnCtx", store).__enter__()


def in_clause(column, values):  # (macro)
    """`<column> IN (?,?,...)` with one placeholder per value - written exactly as the code writes it"""
    return f"{column} IN ({','.join(['?'] * len(values))})"


def given_empty(xs: "list[str] | None"):
    return xs is not None and len(opt_val(xs)) == 0


def given(xs):  # (macro) 1 if the filter is given, else 0
    return 1 if xs is not None else 0


def size(xs):  # (macro) number of values of a filter (0 if it is not given)
    return len(opt_val(xs)) if xs is not None else 0


def clause_at(clauses, xs, pos, column):  # (macro) the filter's clause sits at position pos, if the filter is given
    return xs is None or clauses[pos] == in_clause(column, opt_val(xs))


def params_at(params, xs, off):  # (macro) the filter's values occupy params[off : off + len], in order
    return xs is None or forall(len(opt_val(xs)), lambda i: params[off + i] == opt_val(xs)[i])


@contract("llama_agents.server._store.sqlite.sqlite_workflow_store.SqliteWorkflowStore._build_filters")
class BuildFilters:
    properties = ["C24"]
    raises = []
    ret_type = "tuple[list[str], list[str]] | None"

    def requires(self, query):
        return True

    def ensures_none_iff_a_filter_is_empty(old, self, query, result):
        # C24: an empty filter list matches nothing (the callers return no rows / delete nothing on None) - exactly
        # as MemoryWorkflowStore._matches_query treats it
        return (result is None) == (
            given_empty(query.workflow_name_in)
            or given_empty(query.handler_id_in)
            or given_empty(query.run_id_in)
            or given_empty(query.status_in)
        )

    def ensures_text_and_parameters_aligned(old, self, query, result):
        # C24: one clause per given filter, in the fixed order workflow_name, handler_id, run_id, status, idle - each
        # IN clause with one `?` per value - and the parameter list is the values in the SAME order, so that the k-th
        # placeholder of the statement binds the k-th parameter
        return result is None or (
            len(opt_val(result)[0])
            == given(query.workflow_name_in) + given(query.handler_id_in) + given(query.run_id_in)
            + given(query.status_in) + given(query.is_idle)
            and len(opt_val(result)[1])
            == size(query.workflow_name_in) + size(query.handler_id_in) + size(query.run_id_in) + size(query.status_in)
            and clause_at(opt_val(result)[0], query.workflow_name_in, 0, "workflow_name")
            and clause_at(opt_val(result)[0], query.handler_id_in, given(query.workflow_name_in), "handler_id")
            and clause_at(
                opt_val(result)[0], query.run_id_in, given(query.workflow_name_in) + given(query.handler_id_in), "run_id"
            )
            and clause_at(
                opt_val(result)[0],
                query.status_in,
                given(query.workflow_name_in) + given(query.handler_id_in) + given(query.run_id_in),
                "status",
            )
            and (
                query.is_idle is None
                or opt_val(result)[0][len(opt_val(result)[0]) - 1]
                == ("idle_since IS NOT NULL" if opt_val(query.is_idle) else "idle_since IS NULL")
            )
            and params_at(opt_val(result)[1], query.workflow_name_in, 0)
            and params_at(opt_val(result)[1], query.handler_id_in, size(query.workflow_name_in))
            and params_at(opt_val(result)[1], query.run_id_in, size(query.workflow_name_in) + size(query.handler_id_in))
            and params_at(
                opt_val(result)[1],
                query.status_in,
                size(query.workflow_name_in) + size(query.handler_id_in) + size(query.run_id_in),
            )
        )

    def ensures_query_untouched(old, self, query, result):
        return same(query, old.query)


@contract("llama_agents.server._store.sqlite.sqlite_workflow_store.SqliteWorkflowStore._connect")
class Connect:
    properties = ["C24", "C21"]
    trusted = True
    raises = []
    ret_type = "opaque:ConnCtx"
    notes = ("trusted: a generator-based context manager yielding the shared connection (single_connection) or a "
             "fresh one that it closes on exit; who may close what is C21's ownership obligation")

    def requires(self):
        return True

    def ensures_ctx(old, self, result):
        return same(result, uf("conn_ctx", "opaque:ConnCtx", self)) and same(self, old.self)


@contract("llama_agents.server._store.sqlite.sqlite_workflow_store.SqliteWorkflowStore.delete")
class SqliteDelete:
    properties = ["C24", "C21"]
    raises = []

    def requires(self, query):
        return True

    def ensures_nothing_to_delete(old, self, query, result):
        # an empty filter list matches nothing, and a delete without any filter is refused: no statement is sent
        return (
            not (
                given_empty(query.workflow_name_in)
                or given_empty(query.handler_id_in)
                or given_empty(query.run_id_in)
                or given_empty(query.status_in)
                or given(query.workflow_name_in) + given(query.handler_id_in) + given(query.run_id_in)
                + given(query.status_in) + given(query.is_idle) == 0
            )
        ) or (result == 0 and tcalls("Cursor", "execute") == 0 and tcalls("Connection", "execute") == 0)

    def ensures_reports_the_rows_of_its_own_statement(old, self, query, result):
        # C24 / C21: otherwise exactly one statement is executed - on a cursor of the store's connection - with the
        # filter values as its parameters in placeholder order, it is committed, and the number returned is the row
        # count of THAT statement's cursor (not a connection-wide counter, which on a shared connection includes
        # earlier operations)
        return (
            given_empty(query.workflow_name_in)
            or given_empty(query.handler_id_in)
            or given_empty(query.run_id_in)
            or given_empty(query.status_in)
            or given(query.workflow_name_in) + given(query.handler_id_in) + given(query.run_id_in)
            + given(query.status_in) + given(query.is_idle) == 0
        ) or (
            False
            if tcalls("Cursor", "execute") != 1
            else tcalls("Connection", "execute") == 0
            and same(tcall_recv("Cursor", "execute", 0), conn_of(self).cursor())
            and tcalls("Connection", "commit") == 1
            and same(tcall_recv("Connection", "commit", 0), conn_of(self))
            and result == tcall_recv("Cursor", "execute", 0).rowcount
            and len(tcall_pos("Cursor", "execute", 0, 1))
            == size(query.workflow_name_in) + size(query.handler_id_in) + size(query.run_id_in) + size(query.status_in)
            and params_at(tcall_pos("Cursor", "execute", 0, 1), query.workflow_name_in, 0)
            and params_at(tcall_pos("Cursor", "execute", 0, 1), query.handler_id_in, size(query.workflow_name_in))
            and params_at(tcall_pos("Cursor", "execute", 0, 1), query.run_id_in,
                          size(query.workflow_name_in) + size(query.handler_id_in))
            and params_at(tcall_pos("Cursor", "execute", 0, 1), query.status_in,
                          size(query.workflow_name_in) + size(query.handler_id_in) + size(query.run_id_in))
        )
