"""Contracts for the reducer, part 5: the tick dispatcher _reduce_tick."""
from pyvc.dsl import *  # noqa

try:  # native side only
    from specs.control_loop import *  # noqa
    from specs.control_loop import I1, I2, wf_ws, wf, Inv1, Inv2, quiescent  # noqa
    from specs.control_loop_b import same_keys, same_shape  # noqa
    from specs.control_loop_c import is_start_cmd  # noqa
    from specs.control_loop_d import is_exit, no_forged_telemetry  # noqa
except ImportError:  # pragma: no cover
    pass

MODULE = "workflows.runtime.control_loop"


def exit_ok(c: "WorkflowCommand", p: "WorkflowCommand", i: "int"):
    """C04: a command that ends the run comes right after the publication of the matching terminal event
    (the idle-release completion is the documented exception: it publishes nothing)"""
    return (
        (not is_exit(c))
        or (isinstance(c, CommandCompleteRun) and type_is(c.result, IdleReleasedEvent))
        or (
            i >= 1
            and isinstance(p, CommandPublishEvent)
            and (
                (isinstance(c, CommandCompleteRun) and same(p.event, c.result) and isinstance(c.result, StopEvent))
                or (
                    isinstance(c, CommandFailWorkflow)
                    and type_is(p.event, WorkflowFailedEvent)
                    and same(p.event.exception, c.exception)
                )
                or (
                    isinstance(c, CommandHalt)
                    and type_is(c.exception, WorkflowTimeoutError)
                    and type_is(p.event, WorkflowTimedOutEvent)
                )
                or (
                    isinstance(c, CommandHalt)
                    and type_is(c.exception, WorkflowCancelledByUser)
                    and type_is(p.event, WorkflowCancelledEvent)
                )
            )
        )
    )


@contract("workflows.runtime.control_loop._reduce_tick")
class ReduceTick:
    properties = ["C01", "C03", "C04", "C11", "C31", "C35"]
    raises = ["ValueError"]

    def requires(tick, init, now_seconds, run_id):
        return (
            wf(init)
            and Inv1(init)
            and (
                (not isinstance(tick, TickStepResult))
                or (tick.step_name in init.workers and no_forged_telemetry(tick))
            )
        )

    def raises_ValueError(old, tick, init, now_seconds, run_id):
        # only a step result for a worker that is not in progress ("should not happen")
        return isinstance(tick, TickStepResult) and not exists(
            len(init.workers[tick.step_name].in_progress),
            lambda j: init.workers[tick.step_name].in_progress[j].worker_id == tick.worker_id,
        )

    def ensures_input_untouched(old, tick, init, now_seconds, run_id, result):
        return same(init, old.init)

    def ensures_inv(old, tick, init, now_seconds, run_id, result):
        # C01 for every tick kind: the per-step capacity / distinct-slot invariant is inductive
        return same_shape(result[0], init) and wf(result[0]) and Inv1(result[0])

    def ensures_work_conserving(old, tick, init, now_seconds, run_id, result):
        # C03(a): the "no idle capacity while work is queued" invariant is inductive unless the run ends
        return (
            exists(len(result[1]), lambda i: is_exit(result[1][i]))
            or (not Inv2(init))
            or Inv2(result[0])
        )

    def ensures_exits(old, tick, init, now_seconds, run_id, result):
        # C04: whatever the tick, an exit command is immediately preceded by its terminal event
        cmds = result[1]
        return forall(len(cmds), lambda i: exit_ok(cmds[i], cmds[i - 1], i))

    def ensures_idle_schedule(old, tick, init, now_seconds, run_id, result):
        # C03(b): an idle check is scheduled only when the new state is quiescent, and only as the last command
        cmds = result[1]
        return forall(
            len(cmds),
            lambda i: implies(
                isinstance(cmds[i], CommandScheduleIdleCheck), i == len(cmds) - 1 and quiescent(result[0])
            ),
        )

    def ensures_idle_check(old, tick, init, now_seconds, run_id, result):
        # C03(b): the idle announcement is made exactly when the state is quiescent at the time of the check
        cmds = result[1]
        return (not isinstance(tick, TickIdleCheck)) or (
            same(result[0], init)
            and (
                (len(cmds) == 1 and isinstance(cmds[0], CommandPublishEvent) and type_is(cmds[0].event, WorkflowIdleEvent))
                if quiescent(init)
                else len(cmds) == 0
            )
        )

    def ensures_cancel_timeout(old, tick, init, now_seconds, run_id, result):
        # C31: cancel keeps the state (resumable); timeout stops the run
        return ((not isinstance(tick, TickCancelRun)) or same(result[0], init)) and (
            (not isinstance(tick, TickTimeout)) or (result[0].is_running == False)  # noqa: E712
        )
