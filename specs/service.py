"""Contracts for llama_agents.server._service (C15: the handler record exists before its run can end)."""
from pyvc.dsl import *  # noqa

MODULE = "llama_agents.server._service"

PLAIN_CLASSES = {
    "_WorkflowService": [
        ("_runtime", "opaque:ServerRuntime"),
        ("_store", "opaque:AbstractWorkflowStore"),
    ],
}

OPAQUE_METHODS = {
    # writes the handler row (status running) for this run id
    ("ServerRuntime", "run_workflow_handler"): dict(ret="None", pure=False, log=True, may_raise=True),
    # schedules the run on the event loop: from here on the run may finish - and report its status - at any await
    ("WorkflowObj", "run"): dict(ret="opaque:WorkflowHandler", pure=False, log=True, may_raise=True),
    ("TagsCtx", "__enter__"): dict(ret="None", pure=True),
}

OPAQUE_ATTRS = {
    ("WorkflowObj", "workflow_name"): "str",
}

MODULE_FNS = {
    "llama_index_instrumentation.dispatcher.instrument_tags": dict(ret="opaque:TagsCtx", pure=True),
    "workflows.utils._nanoid": dict(ret="str", pure=False),
}


@contract("llama_agents.server._service._WorkflowService._context_from_handler_id")
class ContextFromHandlerId:
    properties = ["C15"]
    trusted = True
    raises = ["*user"]
    ret_type = "opaque:Context | None"
    notes = "trusted: looks a previous run's context up in the store; starts nothing and writes nothing"

    def requires(self, workflow, handler_id):
        return True

    def ensures_frame(old, self, workflow, handler_id, result):
        return same(self, old.self)


@contract("llama_agents.server._service._WorkflowService.load_handler")
class LoadHandler:
    properties = ["C15"]
    trusted = True
    raises = ["*user"]
    ret_type = "opaque:HandlerData | None"
    notes = "trusted: reads the handler row back from the store"

    def requires(self, handler_id):
        return True

    def ensures_frame(old, self, handler_id, result):
        return same(self, old.self)


@contract("llama_agents.server._service._WorkflowService.start_workflow")
class StartWorkflow:
    properties = ["C15"]
    param_types = {"workflow": "opaque:WorkflowObj", "start_event": "opaque:StartEvent | None",
                   "context": "opaque:Context | None"}
    ret_type = "opaque:HandlerData"
    raises = ["*user", "RuntimeError"]

    def requires(self, workflow, handler_id, start_event, context):
        return True

    def ensures_record_exists_before_the_run_starts(old, self, workflow, handler_id, start_event, context, result):
        # C15: the handler row is written - under the run id the run is then started with - BEFORE the run is
        # scheduled; a run that finishes at once finds its row and can record how it ended (an update for a row that
        # does not exist yet is skipped, and the late "running" row would then stay forever)
        return (
            False
            if calls(self._runtime, "run_workflow_handler") != 1 or calls(workflow, "run") != 1
            else call_seq(self._runtime, "run_workflow_handler", 0) < call_seq(workflow, "run", 0)
            and call_pos(self._runtime, "run_workflow_handler", 0, 0) == handler_id
            and call_pos(self._runtime, "run_workflow_handler", 0, 1) == workflow.workflow_name
            and call_pos(self._runtime, "run_workflow_handler", 0, 2) == call_kw(workflow, "run", 0, "run_id")
        )

    def raised_Exception(old, self, workflow, handler_id, start_event, context, exc):
        # whatever fails: a run is never scheduled without its record having been written first
        return calls(workflow, "run") == 0 or (
            calls(self._runtime, "run_workflow_handler") == 1
            and call_seq(self._runtime, "run_workflow_handler", 0) < call_seq(workflow, "run", 0)
        )
