"""Contracts for llama_agents.server._runtime.server_runtime, part 2 (C15: transient store write failures)."""
from pyvc.dsl import *  # noqa

MODULE = "llama_agents.server._runtime.server_runtime"

PLAIN_CLASSES = {
    "ServerRuntimeDecorator": [
        ("_persistence_backoff", "list[float]"),
    ],
}

OPAQUE_METHODS = {
    # the store write handed in by the caller: may fail (that is what the retry is for)
    ("StoreWrite", "__call__"): dict(ret="None", pure=False, may_raise=True),
}

MODULE_FNS = {
    "asyncio.sleep": dict(ret="None", pure=False),
}


@contract("llama_agents.server._runtime.server_runtime.ServerRuntimeDecorator._retry_store_write")
class RetryStoreWrite:
    properties = ["C15"]
    param_types = {"coro_fn": "opaque:StoreWrite"}
    modifies = []
    raises = ["*user"]

    def requires(self, coro_fn):
        return True

    # loop 1: while True (one attempt per iteration)
    def inv_1():
        return same(self, old(self))

    def ensures_retry_budget_is_per_write(old, self, coro_fn, result):
        # C15 (transient store write failures): retrying one write never uses up the runtime-wide backoff schedule -
        # every later write, e.g. the one that records a run's terminal status, gets the full number of attempts
        return same(self._persistence_backoff, old.self._persistence_backoff)

    def raised_Exception(old, self, coro_fn, exc):
        return same(self._persistence_backoff, old.self._persistence_backoff)
