/-
  Pigeonhole instance used as `assume_free_slot` at the entry of
  workflows.runtime.control_loop._add_or_enqueue_event (specs/control_loop.py):

    fewer than n in-progress entries cannot use up the n worker ids 0..n-1.

  `f j` is the worker id of the j-th in-progress entry (any integer), `m` their number, `n` = num_workers.
  The SMT side cannot do this counting argument; it is proved here once, with Lean 4 + Mathlib.
-/
import Mathlib

theorem exists_free_slot (n m : ℕ) (f : ℕ → ℤ) (h : m < n) :
    ∃ i : ℕ, i < n ∧ ∀ j : ℕ, j < m → f j ≠ (i : ℤ) := by
  classical
  by_contra hcon
  push_neg at hcon
  have hsub : (Finset.range n).image (fun i : ℕ => (i : ℤ)) ⊆ (Finset.range m).image f := by
    intro x hx
    rcases Finset.mem_image.mp hx with ⟨i, hi, rfl⟩
    rcases hcon i (Finset.mem_range.mp hi) with ⟨j, hj, hfj⟩
    exact Finset.mem_image.mpr ⟨j, Finset.mem_range.mpr hj, hfj⟩
  have hcardT : ((Finset.range n).image (fun i : ℕ => (i : ℤ))).card = n := by
    rw [Finset.card_image_of_injective _ Nat.cast_injective, Finset.card_range]
  have hcardS : ((Finset.range m).image f).card ≤ m := by
    calc ((Finset.range m).image f).card ≤ (Finset.range m).card := Finset.card_image_le
      _ = m := Finset.card_range m
  have hle := Finset.card_le_card hsub
  omega
