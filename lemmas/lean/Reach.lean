/-
C23: the last step of the `_dfs` contract (specs/validate_dfs.py).

The SMT obligations of `_dfs` establish, for the returned set V:
  (seeds)  every seed is in V                       (ensures_contains_seeds)
  (closed) V is closed under the adjacency lists     (ensures_closed)
  (only)   every member of V satisfies `reach`, for EVERY predicate `reach` that contains the seeds and is closed
           under the edges                            (ensures_only_reachable, proved from the two closure axioms only)
This file proves that such a V is exactly the inductively defined reachable set.
-/
import Mathlib.Data.Set.Basic

inductive Reach {α : Type} (seeds : Set α) (adj : α → α → Prop) : α → Prop
  | seed {x : α} : x ∈ seeds → Reach seeds adj x
  | step {x y : α} : Reach seeds adj x → adj x y → Reach seeds adj y

theorem dfs_result_is_reach {α : Type} (seeds : Set α) (adj : α → α → Prop) (V : Set α)
    (h_seeds : ∀ x, x ∈ seeds → x ∈ V)
    (h_closed : ∀ x y, x ∈ V → adj x y → y ∈ V)
    (h_only : ∀ (reach : α → Prop), (∀ x, x ∈ seeds → reach x) → (∀ x y, reach x → adj x y → reach y) →
      ∀ x, x ∈ V → reach x) :
    ∀ x, x ∈ V ↔ Reach seeds adj x := by
  intro x
  constructor
  · exact h_only (Reach seeds adj) (fun _ hx => Reach.seed hx) (fun _ _ hx hxy => Reach.step hx hxy) x
  · intro h
    induction h with
    | seed hx => exact h_seeds _ hx
    | step _ hxy ih => exact h_closed _ _ ih hxy
