"""Lemma harnesses over the snapshot functions of the repository.

These are not repository code: each function only COMPOSES real functions, the way the repository composes them across
layers (Context.to_dict -> BrokerState.to_serialized -> pydantic/JSON -> BrokerState.from_serialized <- Context.from_dict).
pyvc proves them against the callees' contracts (never their bodies), i.e. they are lemmas over those contracts.
"""
from workflows.context.serializers import BaseSerializer
from workflows.runtime.types.internal_state import BrokerState
from workflows.workflow import Workflow


def snapshot_roundtrip(state: BrokerState, workflow: Workflow, serializer: BaseSerializer) -> BrokerState:
    return BrokerState.from_serialized(state.to_serialized(serializer), workflow, serializer)
