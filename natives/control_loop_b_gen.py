from natives.control_loop_gen import *  # noqa
from natives.control_loop_gen import rand_state, rand_float, TickWaiterTimeout


def gen_WaiterTimeoutTick(rng):
    st = rand_state(rng, valid=rng.random() < 0.9)
    name = rng.choice(list(st.workers) + ["ghost"])
    return dict(tick=TickWaiterTimeout(step_name=name, waiter_id=rng.choice(["w1", "w2", "w3", "zz"])), init=st,
                now_seconds=rand_float(rng, False))


def gen_Rewind(rng):
    return dict(state=rand_state(rng, valid=rng.random() < 0.7), now_seconds=rand_float(rng, False))
