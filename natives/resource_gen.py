"""Random inputs for the ResourceManager contracts (native side): the REAL manager and REAL `_Resource` descriptors
around generated factories (sync / async, failing or not, with dependency graphs that may contain cycles)."""
from __future__ import annotations

import inspect
from typing import Annotated

from workflows.resource import ResourceManager as _RM, _Resource

from pyvc import dsl as _dsl

NAMES = ["r0", "r1", "r2", "r3", "r4"]


class ResourceManager(_RM):
    def __repr__(self):
        return (f"ResourceManager(resources={self.resources}, chain={self._resolving}, "
                f"scope={self._resolution_cache}, depth={self._resolution_depth})")


class Val:
    def __init__(self, tag):
        self.tag = tag

    def __repr__(self):
        return f"Val({self.tag})"


class Top(_Resource):
    """the descriptor handed to `_get`: its resolve() is the call the contract's ghost log talks about"""

    async def resolve(self, manager):
        rec = [(manager,), {}, None]
        _dsl._FLOG.setdefault("resolve", []).append(rec)
        rec[2] = await super().resolve(manager)
        return rec[2]

    def __repr__(self):
        return f"Top({self.name}, cache={self.cache}, graph={self.graph})"


def _factory(name, is_async, fail, counter):
    if is_async:
        async def f(**kw):
            counter.append(name)
            if fail:
                raise RuntimeError(f"factory {name} failed")
            return Val(f"{name}#{len(counter)}")
    else:
        def f(**kw):
            counter.append(name)
            if fail:
                raise RuntimeError(f"factory {name} failed")
            return Val(f"{name}#{len(counter)}")
    f.__qualname__ = name
    f.__name__ = name
    return f


def _graph(rng, top_name):
    counter = []
    facts = {n: _factory(n, rng.random() < 0.5, rng.random() < 0.12, counter) for n in NAMES}
    res = {n: (Top if n == top_name else _Resource)(facts[n], cache=rng.random() < 0.5) for n in NAMES}
    order = list(NAMES)
    edges = {}
    rng.shuffle(order)
    for i, n in enumerate(order):
        if rng.random() < 0.25:
            pool = order  # any edge: cycles possible
        else:
            pool = order[i + 1:]  # forward edges only
        deps = rng.sample(pool, min(len(pool), rng.choice([0, 0, 1, 1, 2])))
        params = [inspect.Parameter(f"d_{d}", inspect.Parameter.KEYWORD_ONLY, annotation=Annotated[object, res[d]])
                  for d in deps]
        facts[n].__signature__ = inspect.Signature(params)
        facts[n].__annotations__ = {p.name: p.annotation for p in params}
        edges[n] = (deps, res[n].cache)
    res[top_name].graph = edges
    return res, counter


def _manager(rng, res):
    m = ResourceManager()
    for n in NAMES:
        if rng.random() < 0.25:
            m.resources[n] = Val(f"{n}@wf")
        if rng.random() < 0.2:
            m._resolution_cache[n] = Val(f"{n}@scope")
    chain = rng.sample(NAMES, rng.choice([0, 0, 1, 2]))
    # a name on the chain is being resolved right now: it has no entry yet that its resolver did not see
    m._resolving = chain
    m._resolution_depth = rng.choice([1, 1, 2])
    return m


def gen_ManagerGet(rng):
    top = rng.choice(NAMES)
    res, _ = _graph(rng, top)
    m = _manager(rng, res)
    return dict(self=m, resource=res[top])


def gen_ManagerSet(rng):
    res, _ = _graph(rng, NAMES[0])
    m = _manager(rng, res)
    return dict(self=m, name=rng.choice(NAMES + ["other"]), val=Val("set"))
