"""Random inputs for the snapshot contracts (native side).  Real classes and the real JsonSerializer."""
from __future__ import annotations

from types import SimpleNamespace

from workflows.context.serializers import JsonSerializer

from natives.control_loop_gen import rand_state


class FakeWorkflow:
    """what BrokerState.from_workflow reads of a Workflow: its steps and the tables computed by _validate"""

    def __init__(self, state, extra_steps=(), drop_steps=()):
        self._steps = {n: SimpleNamespace(_step_config=ws.config) for n, ws in state.workers.items()
                       if n not in drop_steps}
        for n, cfg in extra_steps:
            self._steps[n] = SimpleNamespace(_step_config=cfg)
        self._timeout = state.config.timeout
        self._catch_error_handlers = dict(state.config.catch_error_handlers)
        self._handler_for_step = dict(state.config.handler_for_step)

    def _get_steps(self):
        return self._steps

    def __repr__(self):
        return f"FakeWorkflow({sorted(self._steps)})"


def gen_ToSerialized(rng):
    return dict(self=rand_state(rng, valid=rng.random() < 0.8), serializer=JsonSerializer())


def gen_FromWorkflow(rng):
    return dict(workflow=FakeWorkflow(rand_state(rng)))


def gen_FromSerialized(rng):
    st = rand_state(rng, valid=rng.random() < 0.8)
    ser = JsonSerializer()
    sc = st.to_serialized(ser)
    drop = [n for n in st.workers if rng.random() < 0.2]
    return dict(serialized=sc, workflow=FakeWorkflow(st, drop_steps=drop), serializer=ser)


def gen_SnapshotRoundtrip(rng):
    st = rand_state(rng, valid=rng.random() < 0.8)
    return dict(state=st, workflow=FakeWorkflow(st), serializer=JsonSerializer())
