"""Random inputs for the tick-journal adapter contract (native side)."""
from __future__ import annotations

from llama_agents.server._runtime.persistence_runtime import _PersistenceInternalRunAdapter
from workflows.runtime.types.ticks import (
    TickAddEvent, TickCancelRun, TickIdleCheck, TickPublishEvent, TickTimeout, TickWaiterTimeout,
)

from natives.control_loop_gen import rand_event
from natives.server_runtime_gen import Recorder


def gen_PersistTick(rng):
    a = object.__new__(_PersistenceInternalRunAdapter)
    a._decorated = Recorder("inner", run_id=rng.choice(["run-1", "run-2"]))
    a._store = Recorder("store")
    tick = rng.choice([
        TickAddEvent(event=rand_event(rng)), TickCancelRun(), TickIdleCheck(), TickTimeout(timeout=3.0),
        TickWaiterTimeout(step_name="s", waiter_id="w1"), TickPublishEvent(event=rand_event(rng)),
    ])
    return dict(self=a, tick=tick)
