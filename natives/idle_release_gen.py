"""Random inputs for the idle-release reload contract (native side): recording stand-ins around the real method."""
from __future__ import annotations

from types import SimpleNamespace

from llama_agents.server._runtime.idle_release_runtime import IdleReleaseDecorator
from llama_agents.server._store.abstract_workflow_store import PersistentHandler

from pyvc.dsl import tlog

RUNS = ["run-1", "run-2", "run-3"]


class FakeStore:
    def __init__(self, rows):
        self.calls, self._rows = [], rows

    async def query(self, q):
        return [h for h in self._rows if q.run_id_in is None or h.run_id in q.run_id_in]

    async def update_handler_status(self, *a, **k):
        self.calls.append(("update_handler_status", a, k))
        tlog("AbstractWorkflowStore", self, "update_handler_status", a, k)

    def __repr__(self):
        return f"FakeStore(rows={[(h.handler_id, h.run_id) for h in self._rows]}, calls={self.calls})"


class FakeWorkflow:
    def __init__(self, name):
        self.calls, self.workflow_name = [], name

    def run(self, *a, **k):
        self.calls.append(("run", a, k))
        tlog("WorkflowObj", self, "run", a, k)
        return SimpleNamespace(run_id=k.get("run_id"))

    def __repr__(self):
        return f"FakeWorkflow({self.workflow_name}, calls={self.calls})"


class FakePersistence:
    def __init__(self, known, replay):
        self._known, self._replay = known, replay

    def get_tracked_workflow(self, name):
        return self._known.get(name)

    async def context_from_ticks(self, workflow, run_id):
        return SimpleNamespace(context=SimpleNamespace(tag="replayed")) if self._replay else None

    def __repr__(self):
        return f"FakePersistence(known={sorted(self._known)}, replay={self._replay})"


def gen_EnsureActiveRun(rng):
    rows = []
    for i, r in enumerate(RUNS):
        for _ in range(rng.choice([0, 1, 1, 1, 2])):
            rows.append(PersistentHandler(handler_id=f"h{i}{len(rows)}", workflow_name=rng.choice(["wf_a", "wf_b"]),
                                          status="running", run_id=r))
    rt = object.__new__(IdleReleaseDecorator)
    rt._store = FakeStore(rows)
    rt._idle_timeout = 60.0
    rt._active_run_ids = set(rng.sample(RUNS, rng.randrange(0, 3)))
    rt._decorated = None
    rt._persistence = FakePersistence({n: FakeWorkflow(n) for n in rng.sample(["wf_a", "wf_b"], rng.randrange(1, 3))},
                                      replay=rng.random() < 0.7)
    return dict(self=rt, run_id=rng.choice(RUNS))


from pyvc.dsl import UNIVERSE  # noqa: E402

UNIVERSE["str"] = RUNS + ["run-x"]
