"""Random inputs for the validate_graph contract (native side)."""
from __future__ import annotations

from workflows.decorators import StepConfig
from workflows.events import StartEvent, StopEvent

from natives.validate_gen import EV_POOL, EvA, EvB, EvC, MyInput, MyReply, MyStart, MyStop, NAMES
from pyvc.dsl import UNIVERSE

UNIVERSE["str"] = NAMES + ["ghost"]
CHECKS = ["reachability", "terminal_event", "dead_end"]


def _cfg(rng, acc, ret):
    skip = [c for c in ("reachability", "dead_end") if rng.random() < 0.2]
    return StepConfig(accepted_events=acc, event_name="ev", return_types=ret, context_parameter=None,
                      num_workers=1, retry_policy=None, resources=[], skip_graph_checks=skip)


def gen_ValidateGraph(rng):
    start = rng.choice([StartEvent, MyStart])
    names = rng.sample(NAMES, rng.randrange(1, 5))
    steps = {}
    if rng.random() < 0.5:
        # a chain start -> ... -> stop; sometimes a link is broken (unreachable tail / dead-end head)
        chain = [start] + rng.sample([EvA, EvB, EvC], min(3, len(names) - 1)) + [rng.choice([StopEvent, MyStop])]
        chain = chain[:len(names)] + [chain[-1]]
        for i, n in enumerate(names):
            acc, ret = [chain[i]], [chain[i + 1]]
            if rng.random() < 0.25:
                acc = [rng.choice([EvA, EvB, EvC, MyReply])]
            if rng.random() < 0.25:
                ret = [rng.choice([EvA, EvB, EvC, MyInput, type(None)])]
            steps[n] = _cfg(rng, acc, ret)
    else:
        for n in names:
            steps[n] = _cfg(rng, rng.sample([start] + EV_POOL, rng.randrange(1, 3)),
                            rng.sample(EV_POOL + [type(None)], rng.randrange(1, 3)))
    skip = None if rng.random() < 0.5 else set(c for c in CHECKS if rng.random() < 0.3)
    catch = None if rng.random() < 0.6 else rng.sample(names, rng.randrange(0, len(names) + 1))
    return dict(steps=steps, start_event_class=start, skip_checks=skip, catch_error_steps=catch)
