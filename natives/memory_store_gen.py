"""Random inputs for the in-memory handler store contracts (native side): the real classes."""
from __future__ import annotations

from collections import deque
from datetime import datetime, timezone

from llama_agents.server._store.abstract_workflow_store import HandlerQuery, PersistentHandler
from llama_agents.server._store.memory_workflow_store import MemoryWorkflowStore

IDS = ["h1", "h2", "h3", "h4", "h5"]
STATUSES = ["running", "completed", "failed", "cancelled"]
WFS = ["wf_a", "wf_b"]


def rand_handler(rng, hid=None):
    return PersistentHandler(
        handler_id=hid or rng.choice(IDS), workflow_name=rng.choice(WFS), status=rng.choice(STATUSES),
        run_id=rng.choice([None, "r1", "r2", "r3"]),
        idle_since=rng.choice([None, datetime(2026, 1, 1, tzinfo=timezone.utc)]),
    )


def rand_query(rng):
    def lst(pool):
        r = rng.random()
        if r < 0.45:
            return None
        if r < 0.55:
            return []
        return rng.sample(pool, rng.randrange(1, len(pool) + 1))
    return HandlerQuery(handler_id_in=lst(IDS), run_id_in=lst(["r1", "r2", "r3"]), workflow_name_in=lst(WFS),
                        status_in=lst(STATUSES), is_idle=rng.choice([None, None, True, False]))


def rand_store(rng, exact=True):
    """a store as a sequence of update() calls leaves it when the queue is kept exact: the completion queue lists
    the completed handlers, each once, within the cap"""
    cap = rng.choice([None, 0, 1, 2, 3, 5])
    s = MemoryWorkflowStore(max_completed=cap)
    ids = rng.sample(IDS, rng.randrange(0, len(IDS) + 1))
    done = []
    for hid in ids:
        h = rand_handler(rng, hid)
        if h.status != "running" and cap is not None and len(done) >= cap:
            h = h.model_copy(update={"status": "running"})
        s.handlers[hid] = h
        if h.status != "running":
            done.append(hid)
    rng.shuffle(done)
    s._terminal_queue = deque(done)
    return s


def gen_MatchesQuery(rng):
    return dict(handler=rand_handler(rng), query=rand_query(rng))


def gen_StoreQuery(rng):
    return dict(self=rand_store(rng), query=rand_query(rng))


def gen_StoreDelete(rng):
    return dict(self=rand_store(rng), query=rand_query(rng))


def gen_EvictOldest(rng):
    s = rand_store(rng)
    if rng.random() < 0.5 and s.max_completed is not None:
        # over the cap (as update() calls it right after appending a completion)
        s.max_completed = rng.randrange(0, max(1, len(s._terminal_queue) + 1))
    return dict(self=s)


def gen_StoreUpdate(rng):
    s = rand_store(rng)
    return dict(self=s, handler=rand_handler(rng))


# ------------------------------------------------------------------ event log
def rand_envelope(rng):
    from llama_agents.client.protocol.serializable_events import EventEnvelopeWithMetadata
    return EventEnvelopeWithMetadata(value={"n": rng.randrange(5)}, qualified_name=None,
                                     type=rng.choice(["Event", "StopEvent"]), types=None)


def rand_log_store(rng):
    from llama_agents.server._store.abstract_workflow_store import StoredEvent
    s = rand_store(rng)
    for run in rng.sample(["r1", "r2", "r3"], rng.randrange(0, 4)):
        s.events[run] = [StoredEvent(run_id=run, sequence=i, timestamp=datetime(2026, 1, 1, tzinfo=timezone.utc),
                                     event=rand_envelope(rng)) for i in range(rng.randrange(0, 5))]
    return s


def gen_AppendEvent(rng):
    return dict(self=rand_log_store(rng), run_id=rng.choice(["r1", "r2", "r3", "r4"]), event=rand_envelope(rng))


def gen_QueryEvents(rng):
    return dict(self=rand_log_store(rng), run_id=rng.choice(["r1", "r2", "r3", "r4"]),
                after_sequence=rng.choice([None, None, -1, 0, 1, 2, 3, 7]), limit=rng.choice([None, None, 0, 1, 2, 10]))
