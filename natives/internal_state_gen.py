"""Random inputs for the state-copy contracts (native side)."""
from __future__ import annotations

from natives.control_loop_gen import rand_state, rand_worker_state


def _some_worker(rng):
    while True:
        ws = rand_worker_state(rng, "alpha", valid=rng.random() < 0.8)
        if rng.random() < 0.3 or ws.in_progress or ws.collected_events:
            return ws


def gen_WorkerStateDeepcopy(rng):
    return dict(self=_some_worker(rng))


def gen_InProgressDeepcopy(rng):
    while True:
        ws = _some_worker(rng)
        if ws.in_progress:
            return dict(self=rng.choice(ws.in_progress))


def gen_StepWorkerStateDeepcopy(rng):
    while True:
        ws = _some_worker(rng)
        if ws.in_progress:
            return dict(self=rng.choice(ws.in_progress).shared_state)


def gen_BrokerStateDeepcopy(rng):
    return dict(self=rand_state(rng, valid=rng.random() < 0.8))
