from natives.control_loop_gen import *  # noqa
from natives.control_loop_gen import (
    rand_state, rand_float, rand_add_tick, rand_event, TickCancelRun, TickIdleCheck, TickIdleRelease, TickPublishEvent,
    TickTimeout, TickWaiterTimeout,
)
from natives.control_loop_d_gen import gen_StepResultTick


def gen_ReduceTick(rng):
    k = rng.random()
    if k < 0.35:
        a = gen_StepResultTick(rng)
        return dict(tick=a["tick"], init=a["init"], now_seconds=a["now_seconds"], run_id=a["run_id"])
    st = rand_state(rng, valid=rng.random() < 0.9)
    if k < 0.6:
        tick = rand_add_tick(rng, st)
    elif k < 0.68:
        tick = TickCancelRun()
    elif k < 0.76:
        tick = TickTimeout(timeout=5.0)
    elif k < 0.84:
        tick = TickIdleCheck()
    elif k < 0.88:
        tick = TickIdleRelease()
    elif k < 0.94:
        tick = TickPublishEvent(event=rand_event(rng))
    else:
        tick = TickWaiterTimeout(step_name=rng.choice(list(st.workers) + ["ghost"]), waiter_id=rng.choice(["w1", "w2", "zz"]))
    return dict(tick=tick, init=st, now_seconds=rand_float(rng, False), run_id=rng.choice([None, "r"]))
