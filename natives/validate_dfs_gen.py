"""Random graphs for the `_dfs` contract (native side): nodes are step names and event classes, like in the real
step graph; `reach` is evaluated by an independent breadth-first search."""
from __future__ import annotations

from pyvc.dsl import UNIVERSE


class EvA:
    pass


class EvB:
    pass


class EvC:
    pass


NODES = ["s1", "s2", "s3", "s4", EvA, EvB, EvC]
UNIVERSE["GraphNode"] = list(NODES) + ["ghost"]


def gen_Dfs(rng):
    seeds = [rng.choice(NODES + ["ghost"]) for _ in range(rng.randrange(0, 4))]
    adjacency = {}
    for n in rng.sample(NODES, rng.randrange(0, len(NODES) + 1)):
        adjacency[n] = [rng.choice(NODES) for _ in range(rng.randrange(0, 4))]
    return dict(seeds=seeds, adjacency=adjacency)
