"""Random graphs for the `_dfs` contract (native side): nodes are step names and event classes, like in the real
step graph; `reach` is evaluated by an independent breadth-first search."""
from __future__ import annotations

from pyvc.dsl import UNIVERSE


class EvA:
    pass


class EvB:
    pass


class EvC:
    pass


NODES = ["s1", "s2", "s3", "s4", EvA, EvB, EvC]
UNIVERSE["GraphNode"] = list(NODES) + ["ghost"]


def gen_Dfs(rng):
    seeds = [rng.choice(NODES + ["ghost"]) for _ in range(rng.randrange(0, 4))]
    adjacency = {}
    for n in rng.sample(NODES, rng.randrange(0, len(NODES) + 1)):
        adjacency[n] = [rng.choice(NODES) for _ in range(rng.randrange(0, 4))]
    return dict(seeds=seeds, adjacency=adjacency)


def gen_BuildStepGraphReach(rng):
    """step configurations like the ones of the validate_graph contract (same generator), plus catch_error steps"""
    from natives import validate_gen as vg
    base = vg.gen_ValidateEventConnectivity(rng) if hasattr(vg, "gen_ValidateEventConnectivity") else None
    args = None
    for name in ("gen_ValidateGraph", "gen_ValidateEventConnectivity"):
        if hasattr(vg, name):
            args = getattr(vg, name)(rng)
            if "steps" in args and "start_event_class" in args:
                break
    steps = args["steps"]
    UNIVERSE["type"] = list(vg.UNIVERSE["type"]) if hasattr(vg, "UNIVERSE") else UNIVERSE.get("type", [])
    UNIVERSE["str"] = list(vg.NAMES) + ["ghost"]
    ce = None
    r = rng.random()
    if r < 0.4:
        ce = rng.sample(list(steps) + ["ghost"], rng.randrange(0, min(3, len(steps) + 1)))
    return dict(steps=steps, start_event_class=args["start_event_class"], catch_error_steps=ce)
