"""Random inputs for the retry_policy contracts (native side)."""
from workflows import retry_policy as rp


def f(rng, lo=0.0, hi=20.0):
    r = rng.random()
    if r < 0.15:
        return 0.0
    if r < 0.25:
        return float(rng.randrange(0, 5))
    return round(rng.uniform(lo, hi), 3)


def attempts(rng):
    return rng.choice([0, 1, 2, 3, 5, 10, 50, 1100, 5000])


def seed(rng):
    return rng.choice([None, 0, 7, 123456])


class ConstWait:
    def __init__(self, v):
        self.v = v

    def __call__(self, attempts, *, seed=None):
        return self.v + (0.5 if seed else 0.0)

    def __repr__(self):
        return f"ConstWait({self.v})"


class StopWhen:
    def __init__(self, n):
        self.n = n

    def __call__(self, attempts, elapsed_time, *, upcoming_sleep=0.0):
        return attempts >= self.n or elapsed_time + upcoming_sleep > 30

    def __repr__(self):
        return f"StopWhen({self.n})"


class RetryIf:
    def __init__(self, t):
        self.t = t

    def __call__(self, error):
        return isinstance(error, self.t)

    def __repr__(self):
        return f"RetryIf({self.t.__name__})"


def err(rng):
    return rng.choice([ValueError("v"), KeyError("k"), RuntimeError("r"), TimeoutError("t")])


def gen_WaitFixed(rng):
    return dict(self=rp.wait_fixed(f(rng)), attempts=attempts(rng), seed=seed(rng))


def gen_WaitExponential(rng):
    return dict(self=rp.wait_exponential(multiplier=f(rng, 0, 4), exp_base=rng.choice([0.5, 1.0, 1.5, 2.0, 3.0]),
                                         max=f(rng, 0, 100), min=rng.choice([0.0, 0.0, 1.0, -1.0, 200.0])),
                attempts=attempts(rng), seed=seed(rng))


def gen_WaitIncrementing(rng):
    return dict(self=rp.wait_incrementing(start=f(rng, -3, 5), increment=f(rng, -2, 4), max=f(rng, 0, 50)),
                attempts=attempts(rng), seed=seed(rng))


def gen_WaitRandom(rng):
    a, b = sorted([f(rng), f(rng)])
    return dict(self=rp.wait_random(min=a, max=b), attempts=attempts(rng), seed=seed(rng))


def gen_WaitExponentialJitter(rng):
    return dict(self=rp.wait_exponential_jitter(initial=f(rng, 0, 4), exp_base=rng.choice([0.5, 1.0, 2.0, 3.0]),
                                                max=f(rng, 0, 100), jitter=f(rng, 0, 3)),
                attempts=attempts(rng), seed=seed(rng))


def gen_WaitRandomExponential(rng):
    a, b = sorted([f(rng), f(rng, 0, 100)])
    return dict(self=rp.wait_random_exponential(multiplier=f(rng, 0, 4), exp_base=rng.choice([0.5, 1.0, 2.0, 3.0]),
                                                max=b, min=a), attempts=attempts(rng), seed=seed(rng))


def gen_WaitChain(rng):
    ws = [ConstWait(float(i + 1)) for i in range(rng.randrange(1, 4))]
    return dict(self=rp.wait_chain(*ws), attempts=rng.choice([0, 1, 2, 3, 4, 9]), seed=seed(rng))


def gen_WaitCombine(rng):
    ws = [ConstWait(f(rng)) for _ in range(rng.randrange(0, 4))]
    return dict(self=rp.wait_combine(*ws), attempts=attempts(rng), seed=seed(rng))


def _stop_args(rng):
    return dict(attempts=rng.randrange(0, 6), elapsed_time=f(rng, 0, 40), upcoming_sleep=f(rng, 0, 10))


def gen_StopAfterAttempt(rng):
    return dict(self=rp.stop_after_attempt(rng.randrange(0, 5)), **_stop_args(rng))


def gen_StopAfterDelay(rng):
    return dict(self=rp.stop_after_delay(f(rng, 0, 40)), **_stop_args(rng))


def gen_StopBeforeDelay(rng):
    return dict(self=rp.stop_before_delay(f(rng, 0, 40)), **_stop_args(rng))


def gen_StopAny(rng):
    return dict(self=rp.stop_any(*[StopWhen(rng.randrange(0, 6)) for _ in range(rng.randrange(0, 4))]), **_stop_args(rng))


def gen_StopAll(rng):
    return dict(self=rp.stop_all(*[StopWhen(rng.randrange(0, 6)) for _ in range(rng.randrange(0, 4))]), **_stop_args(rng))


def gen_RetryAny(rng):
    ts = [RetryIf(rng.choice([ValueError, KeyError, LookupError, OSError])) for _ in range(rng.randrange(0, 4))]
    return dict(self=rp.retry_any(*ts), error=err(rng))


def gen_RetryAll(rng):
    ts = [RetryIf(rng.choice([ValueError, KeyError, LookupError, Exception])) for _ in range(rng.randrange(0, 4))]
    return dict(self=rp.retry_all(*ts), error=err(rng))


def gen_PolicyNext(rng):
    pol = rp._ComposableRetryPolicy(
        retry=rng.choice([None, RetryIf(ValueError), RetryIf(Exception)]),
        wait=rng.choice([ConstWait(f(rng)), rp.wait_fixed(f(rng))]),
        stop=rng.choice([StopWhen(rng.randrange(0, 5)), rp.stop_after_attempt(rng.randrange(0, 5)),
                         rp.stop_after_delay(f(rng, 0, 30))]),
    )
    return dict(self=pol, elapsed_time=f(rng, 0, 40), attempts=rng.randrange(0, 6), error=err(rng), seed=seed(rng))


def gen_ToSeconds(rng):
    from datetime import timedelta
    return dict(value=rng.choice([timedelta(seconds=3), timedelta(milliseconds=800), timedelta(days=1, seconds=2),
                                  timedelta(minutes=2), timedelta(seconds=1.5), timedelta(0)]))
