"""Random inputs for the validate.py contracts (native side)."""
from __future__ import annotations

from workflows.decorators import CatchErrorHandler, StepConfig
from workflows.events import StopEvent

NAMES = ["a", "b", "c", "h1", "h2", "w"]


def rand_targets(rng, pool):
    r = rng.random()
    if r < 0.25:
        return None
    return [rng.choice(pool + ["ghost"]) if rng.random() < 0.15 else rng.choice(pool)
            for _ in range(rng.randrange(0, 3))]


def gen_ValidateCatchErrorHandlers(rng):
    names = rng.sample(NAMES, rng.randrange(1, len(NAMES) + 1))
    hs = []
    for n in rng.sample(names, rng.randrange(0, min(3, len(names)) + 1)):
        hs.append(CatchErrorHandler(step_name=n, for_steps=rand_targets(rng, names), max_recoveries=rng.randrange(1, 3)))
    return dict(handlers=hs, step_names=set(names))


def rand_cfg(rng, names, handler):
    cfg = StepConfig(accepted_events=[StopEvent], event_name="ev", return_types=[StopEvent], context_parameter=None,
                     num_workers=1, retry_policy=None, resources=[])
    if handler:
        cfg.role = "catch_error"
        cfg.catch_error_for_steps = rand_targets(rng, names)
        cfg.catch_error_max_recoveries = rng.choice([1, 1, 2, 3, 0])
    return cfg


def gen_CollectCatchErrorHandlers(rng):
    names = rng.sample(NAMES, rng.randrange(1, len(NAMES) + 1))
    # mostly consistent configurations (so that the function returns), sometimes arbitrary ones
    steps = {}
    if rng.random() < 0.7:
        plain = [n for n in names if not n.startswith(("h", "w"))]
        free = list(plain)
        for n in names:
            if n.startswith("h"):
                cfg = rand_cfg(rng, names, True)
                k = rng.randrange(0, len(free) + 1)
                cfg.catch_error_for_steps = [free.pop() for _ in range(min(k, len(free)))]
                cfg.catch_error_max_recoveries = rng.randrange(1, 4)
                steps[n] = cfg
            elif n == "w":
                cfg = rand_cfg(rng, names, True)
                cfg.catch_error_for_steps = None
                cfg.catch_error_max_recoveries = rng.randrange(1, 4)
                steps[n] = cfg
            else:
                steps[n] = rand_cfg(rng, names, False)
    else:
        for n in names:
            steps[n] = rand_cfg(rng, names, rng.random() < 0.4)
    return dict(steps=steps)


# ------------------------------------------------------------------ event connectivity
from workflows.events import Event, HumanResponseEvent, InputRequiredEvent, StartEvent, StepFailedEvent  # noqa: E402


class EvA(Event):
    pass


class EvB(Event):
    pass


class EvC(Event):
    pass


class MyStart(StartEvent):
    pass


class MyStop(StopEvent):
    pass


class MyInput(InputRequiredEvent):
    pass


class MyReply(HumanResponseEvent):
    pass


EV_POOL = [EvA, EvB, EvC, MyStop, StopEvent, MyInput, InputRequiredEvent, MyReply, HumanResponseEvent, StepFailedEvent]


def gen_ValidateEventConnectivity(rng):
    start = rng.choice([StartEvent, MyStart])
    names = rng.sample(NAMES, rng.randrange(1, 4))
    steps = {}
    if rng.random() < 0.6:
        # a connected chain start -> EvA -> EvB -> ... -> stop, with optional human-in-the-loop legs
        chain = [start] + rng.sample([EvA, EvB, EvC], len(names) - 1) + [rng.choice([StopEvent, MyStop])]
        for i, n in enumerate(names):
            acc, ret = [chain[i]], [chain[i + 1]]
            if rng.random() < 0.3:
                ret.append(rng.choice([MyInput, InputRequiredEvent]))
            if rng.random() < 0.3:
                acc.append(rng.choice([MyReply, HumanResponseEvent]))
            if rng.random() < 0.2:
                ret.append(type(None))
            steps[n] = StepConfig(accepted_events=acc, event_name="ev", return_types=ret, context_parameter=None,
                                  num_workers=1, retry_policy=None, resources=[])
    else:
        for n in names:
            steps[n] = StepConfig(accepted_events=rng.sample([start] + EV_POOL, rng.randrange(1, 3)), event_name="ev",
                                  return_types=rng.sample(EV_POOL + [type(None)], rng.randrange(1, 3)),
                                  context_parameter=None, num_workers=1, retry_policy=None, resources=[])
    return dict(steps=steps, start_event_class=start)


from pyvc.dsl import UNIVERSE  # noqa: E402

# every class a generated configuration can mention: natively, quantifiers over `type` range over this universe
UNIVERSE["type"] = [StartEvent, MyStart] + EV_POOL + [type(None)]
