"""Random valid inputs for the reducer contracts (native side).  Real classes from /repo."""
from __future__ import annotations

import random

from workflows.decorators import CatchErrorHandler, StepConfig
from workflows.events import (
    Event, HumanResponseEvent, InputRequiredEvent, StartEvent, StopEvent,
)
from workflows.retry_policy import retry_policy, stop_after_attempt, stop_after_delay, wait_fixed
from workflows.runtime.types.internal_state import (
    BrokerConfig, BrokerState, EventAttempt, InProgressState, InternalStepConfig, InternalStepWorkerState,
)
from workflows.runtime.types.results import (
    AddCollectedEvent, AddWaiter, DeleteCollectedEvent, DeleteWaiter, StepWorkerFailed, StepWorkerResult,
    StepWorkerState, StepWorkerWaiter,
)
from workflows.runtime.types.ticks import (
    TickAddEvent, TickCancelRun, TickIdleCheck, TickIdleRelease, TickPublishEvent, TickStepResult, TickTimeout,
    TickWaiterTimeout,
)


class EvA(Event):
    pass


class EvB(Event):
    pass


class EvC(Event):
    pass


class MyStop(StopEvent):
    pass


class MyInput(InputRequiredEvent):
    pass


class MyStart(StartEvent):
    pass


USER_EVENTS = [EvA, EvB, EvC, HumanResponseEvent, MyInput]
ALL_EVENT_TYPES = USER_EVENTS + [StartEvent, MyStart, StopEvent, MyStop]
STEP_NAMES = ["alpha", "beta", "gamma", "handler"]


def rand_event(rng, types=None):
    t = rng.choice(types or ALL_EVENT_TYPES)
    if rng.random() < 0.5:
        return t(user=rng.choice(["alice", "bob"]), n=rng.randrange(3))
    return t()


def rand_exc(rng):
    return rng.choice([ValueError("boom"), RuntimeError("bad"), KeyError("k"), TimeoutError("late")])


def rand_counts(rng):
    return {k: rng.randrange(0, 3) for k in rng.sample(STEP_NAMES, rng.randrange(0, 3))}


def rand_float(rng, allow_none=True):
    r = rng.random()
    if allow_none and r < 0.25:
        return None
    if r < 0.45:
        return 0.0
    return round(rng.uniform(0, 100), 2)


def rand_attempt(rng, types=None) -> EventAttempt:
    return EventAttempt(
        event=rand_event(rng, types),
        attempts=rng.choice([None, 0, 1, 2, 5]),
        first_attempt_at=rand_float(rng),
        last_exception=rng.choice([None, rand_exc(rng)]),
        last_failed_at=rand_float(rng),
        recovery_counts=rand_counts(rng),
    )


class RaisingPolicy:
    """a user-supplied policy whose code raises (the engine must not be derailed by it)"""

    def next(self, elapsed_time, attempts, error, *, seed=None):
        raise RuntimeError("user retry policy blew up")


def rand_policy(rng):
    r = rng.random()
    if r < 0.08:
        return RaisingPolicy()
    if r < 0.4:
        return None
    if r < 0.7:
        return retry_policy(wait=wait_fixed(rng.choice([0, 0.5, 2])), stop=stop_after_attempt(rng.randrange(1, 4)))
    return retry_policy(wait=wait_fixed(1), stop=stop_after_delay(rng.choice([1, 10, 50])))


def rand_step_config(rng, name) -> StepConfig:
    acc = rng.sample(ALL_EVENT_TYPES[:7], rng.randrange(1, 3))
    return StepConfig(
        accepted_events=acc, event_name="ev", return_types=[StopEvent], context_parameter=None,
        num_workers=rng.randrange(1, 4), retry_policy=rand_policy(rng), resources=[],
    )


def rand_waiter(rng, wid=None) -> StepWorkerWaiter:
    wt = rng.choice(USER_EVENTS)
    req = rng.choice([{}, {"user": "alice"}, {"user": "bob", "n": 1}])
    resolved = rng.choice([None, None, wt(user="alice")])
    return StepWorkerWaiter(
        waiter_id=wid or rng.choice(["w1", "w2", "w3"]), event=rand_event(rng), waiting_for_event=wt,
        requirements=req, has_requirements=bool(req) or rng.random() < 0.2, resolved_event=resolved,
        timed_out=rng.random() < 0.1,
    )


def rand_collected(rng):
    out = {}
    for b in rng.sample(["buf1", "buf2"], rng.randrange(0, 3)):
        out[b] = [rand_event(rng, USER_EVENTS) for _ in range(rng.randrange(0, 3))]
    return out


def rand_worker_state(rng, name=None, cfg=None, valid=True) -> InternalStepWorkerState:
    cfg = cfg or rand_step_config(rng, name or "alpha")
    n = cfg.num_workers
    waiters = []
    for wid in rng.sample(["w1", "w2", "w3"], rng.randrange(0, 3)):
        waiters.append(rand_waiter(rng, wid))
    collected = rand_collected(rng)
    k = rng.randrange(0, n + 1)
    ids = rng.sample(range(n), k)
    if not valid and rng.random() < 0.5:
        ids = [rng.randrange(0, n + 1) for _ in range(rng.randrange(0, n + 2))]
    in_progress = []
    for wid in ids:
        snap_ce = {b: list(v[: rng.randrange(0, len(v) + 1)]) for b, v in collected.items() if rng.random() < 0.8}
        in_progress.append(InProgressState(
            event=rand_event(rng, cfg.accepted_events), worker_id=wid,
            shared_state=StepWorkerState(step_name=name or "alpha", collected_events=snap_ce,
                                         collected_waiters=[w for w in waiters if rng.random() < 0.7]),
            attempts=rng.randrange(0, 4), first_attempt_at=rand_float(rng, False),
            last_exception=rng.choice([None, rand_exc(rng)]), last_failed_at=rand_float(rng),
            recovery_counts=rand_counts(rng),
        ))
    full = len(in_progress) == n
    qn = rng.randrange(0, 3) if (full or not valid or rng.random() < 0.15) else 0
    queue = [rand_attempt(rng, cfg.accepted_events) for _ in range(qn)]
    return InternalStepWorkerState(queue=queue, config=cfg, in_progress=in_progress,
                                   collected_events=collected, collected_waiters=waiters)


def rand_state(rng, valid=True) -> BrokerState:
    names = rng.sample(STEP_NAMES[:3], rng.randrange(1, 4))
    cfgs = {n: rand_step_config(rng, n) for n in names}
    handlers = {}
    handler_for = {}
    if rng.random() < 0.5:
        h = names[-1]
        handlers[h] = CatchErrorHandler(step_name=h, for_steps=None, max_recoveries=rng.randrange(0, 3))
        for n in names[:-1]:
            if rng.random() < 0.8:
                handler_for[n] = h
    config = BrokerConfig(
        steps={n: InternalStepConfig(accepted_events=c.accepted_events, retry_policy=c.retry_policy,
                                     num_workers=c.num_workers) for n, c in cfgs.items()},
        timeout=rng.choice([None, 10.0]), catch_error_handlers=handlers, handler_for_step=handler_for,
    )
    workers = {n: rand_worker_state(rng, n, cfgs[n], valid) for n in names}
    return BrokerState(is_running=rng.random() < 0.8, config=config, workers=workers)


# ------------------------------------------------------------------ per contract
def gen_AddOrEnqueue(rng):
    ws = rand_worker_state(rng, "alpha", valid=rng.random() < 0.9)
    return dict(event=rand_attempt(rng), step_name="alpha", state=ws, now_seconds=rand_float(rng, False))


def rand_add_tick(rng, state=None):
    ev = rand_event(rng)
    target = None
    if state is not None and rng.random() < 0.3:
        target = rng.choice(list(state.workers) + ["nope"])
    return TickAddEvent(
        event=ev, step_name=target, attempts=rng.choice([None, 0, 2]), first_attempt_at=rand_float(rng),
        last_exception=rng.choice([None, rand_exc(rng)]), last_failed_at=rand_float(rng),
        recovery_counts=rand_counts(rng),
    )


def gen_CheckIdle(rng):
    return dict(state=rand_state(rng))


def gen_CancelTick(rng):
    return dict(tick=TickCancelRun(), init=rand_state(rng))


def gen_PublishTick(rng):
    return dict(tick=TickPublishEvent(event=rand_event(rng)), init=rand_state(rng))


def gen_TimeoutTick(rng):
    return dict(tick=TickTimeout(timeout=rng.choice([1.0, 10.0])), init=rand_state(rng))
