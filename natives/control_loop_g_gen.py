"""Random inputs for the runner contract `_ControlLoopRunner.process_command` (native side).

The runner object is created without running __init__ (which needs a workflow and an adapter) and given exactly the
fields process_command / schedule_tick / cleanup_tasks touch; the adapter is a stand-in with a fixed clock."""
from natives.control_loop_gen import *  # noqa
from natives.control_loop_gen import USER_EVENTS, rand_counts, rand_event, rand_exc, rand_float
from workflows.events import StopEvent
from workflows.runtime.control_loop import _ControlLoopRunner
from workflows.runtime.types.commands import (
    CommandCompleteRun, CommandPublishEvent, CommandQueueEvent, CommandScheduleIdleCheck, CommandScheduleWaiterTimeout,
)
from workflows.runtime.types.ticks import TickAddEvent, TickIdleCheck


class FakeAdapter:
    def __init__(self, now):
        self.now = now
        self.published = []

    async def get_now(self):
        return self.now

    async def write_to_event_stream(self, ev):
        self.published.append(ev)

    async def close(self):
        pass

    def __repr__(self):
        return f"FakeAdapter(now={self.now})"


def rand_runner(rng):
    r = object.__new__(_ControlLoopRunner)
    r.adapter = FakeAdapter(rng.choice([0.0, 10.0, 1_700_000_000.0]))
    r.tick_buffer = [TickAddEvent(event=rand_event(rng)) for _ in range(rng.randrange(0, 3))]
    r._idle_check_pending = rng.random() < 0.3
    if r._idle_check_pending:
        r.tick_buffer.append(TickIdleCheck())
    r.scheduled_wakeups = []
    r._wakeup_sequence = 0
    for _ in range(rng.randrange(0, 3)):
        r.schedule_tick(TickAddEvent(event=rand_event(rng)), at_time=r.adapter.now + rng.choice([0.5, 1.0, 3.0]))
    r._pending_workers = []
    r.worker_tasks = set()
    r._task_keys = {}
    return r


def gen_ProcessCommand(rng):
    k = rng.random()
    if k < 0.5:
        cmd = CommandQueueEvent(
            event=rand_event(rng, USER_EVENTS), step_name=rng.choice([None, "alpha"]), delay=rng.choice([None, 0, 0.0, 0.5, 2.0]),
            attempts=rng.choice([None, 1, 3]), first_attempt_at=rand_float(rng), last_exception=rng.choice([None, rand_exc(rng)]),
            last_failed_at=rand_float(rng), recovery_counts=rand_counts(rng))
    elif k < 0.65:
        cmd = CommandScheduleIdleCheck()
    elif k < 0.8:
        cmd = CommandScheduleWaiterTimeout(step_name="alpha", waiter_id=rng.choice(["w1", "w2"]), timeout=rng.choice([0.5, 5.0]))
    elif k < 0.9:
        cmd = CommandPublishEvent(event=rand_event(rng, USER_EVENTS))
    else:
        cmd = CommandCompleteRun(result=StopEvent(result=1))
    return dict(self=rand_runner(rng), command=cmd)


# ------------------------------------------------------------------ _process_tick
from pyvc.dsl import tlog  # noqa: E402
from workflows.runtime.types.ticks import TickCancelRun, TickPublishEvent, TickTimeout  # noqa: E402


class JournalAdapter(FakeAdapter):
    """FakeAdapter plus the journal hooks; reports them to the type-indexed call log"""

    run_id = "run-1"

    async def on_tick(self, tick):
        tlog("InternalRunAdapter", self, "on_tick", (tick,), {})

    async def after_tick(self, tick):
        tlog("InternalRunAdapter", self, "after_tick", (tick,), {})

    def __repr__(self):
        return f"JournalAdapter(now={self.now})"


def gen_RunnerProcessTick(rng):
    r = rand_runner(rng)
    r.adapter = JournalAdapter(r.adapter.now)
    r.state = rand_state(rng)
    k = rng.random()
    if k < 0.6:
        tick = rand_add_tick(rng, r.state)
    elif k < 0.7:
        tick = TickCancelRun()
    elif k < 0.8:
        tick = TickPublishEvent(event=rand_event(rng, USER_EVENTS))
    elif k < 0.9:
        tick = TickTimeout(timeout=3.0)
    else:
        tick = TickIdleCheck()
    return dict(self=r, tick=tick)
