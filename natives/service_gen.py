"""Random inputs for the _WorkflowService contracts (native side): recording stand-ins around the real store."""
from __future__ import annotations

from types import SimpleNamespace

from llama_agents.server._service import _WorkflowService
from llama_agents.server._store.abstract_workflow_store import PersistentHandler
from llama_agents.server._store.memory_workflow_store import MemoryWorkflowStore


class FakeRuntime:
    def __init__(self, log, store, fail):
        self.calls, self._all_calls, self._store, self._fail = [], log, store, fail

    async def run_workflow_handler(self, handler_id, workflow_name, run_id):
        c = ("run_workflow_handler", (handler_id, workflow_name, run_id), {})
        self.calls.append(c)
        self._all_calls.append(c)
        if self._fail:
            raise RuntimeError("store unavailable")
        await self._store.update(PersistentHandler(handler_id=handler_id, workflow_name=workflow_name,
                                                   status="running", run_id=run_id))

    def __repr__(self):
        return f"FakeRuntime(fail={self._fail}, calls={self.calls})"


class FakeWorkflow:
    def __init__(self, log, name):
        self.calls, self._all_calls, self.workflow_name = [], log, name

    def run(self, *a, **k):
        c = ("run", a, k)
        self.calls.append(c)
        self._all_calls.append(c)
        return SimpleNamespace(run_id=k.get("run_id", "assigned-by-runtime"))

    def __repr__(self):
        return f"FakeWorkflow({self.workflow_name}, calls={self.calls})"


def gen_StartWorkflow(rng):
    log = []
    store = MemoryWorkflowStore()
    svc = object.__new__(_WorkflowService)
    svc._store = store
    svc._runtime = FakeRuntime(log, store, fail=rng.random() < 0.2)
    wf = FakeWorkflow(log, rng.choice(["wf_a", "wf_b"]))
    return dict(self=svc, workflow=wf, handler_id=rng.choice(["h1", "h2"]), start_event=None,
                context=rng.choice([None, SimpleNamespace(tag="ctx")]))
