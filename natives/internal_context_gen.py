"""Random inputs for the InternalContext contracts (native side)."""
from __future__ import annotations

from workflows.context.internal_context import InternalContext
from workflows.runtime.types.results import (
    Returns, StepWorkerContext, StepWorkerState, StepWorkerStateContextVar, StepWorkerWaiter,
)

from natives.control_loop_gen import USER_EVENTS, rand_event

REQS = [None, {}, {"user": "alice"}, {"user": "bob"}, {"user": "bob", "n": 1}]


def default_id(event_type, requirements):
    return f"waiter_{event_type.__module__}.{event_type.__name__}_{requirements or {}}"


def gen_WaitForEvent(rng):
    et = rng.choice(USER_EVENTS)
    req = rng.choice(REQS)
    explicit = rng.choice([None, None, "", "w1", "w2"])
    waiters = []
    for _ in range(rng.randrange(0, 4)):
        wt = rng.choice(USER_EVENTS)
        wreq = rng.choice(REQS)
        wid = rng.choice(["w1", "w2", default_id(wt, wreq), default_id(et, req), default_id(et, rng.choice(REQS))])
        waiters.append(StepWorkerWaiter(
            waiter_id=wid, event=rand_event(rng), waiting_for_event=wt, requirements=dict(wreq or {}),
            has_requirements=bool(wreq), resolved_event=rng.choice([None, None, wt(user="alice")]),
            timed_out=rng.random() < 0.2))
    ctx = StepWorkerContext(state=StepWorkerState(step_name="alpha", collected_events={}, collected_waiters=waiters),
                            returns=Returns(return_values=[]))
    StepWorkerStateContextVar.set(ctx)  # the ambient step context the call will see
    return dict(self=object.__new__(InternalContext), event_type=et, waiter_event=rng.choice([None, rand_event(rng)]),
                waiter_id=explicit, requirements=req, timeout=rng.choice([None, 5.0, 2000]))
