"""Random inputs for the ExternalContext contracts (native side)."""
from __future__ import annotations

from workflows.context.external_context import ExternalContext
from workflows.runtime.types.plugin import SnapshottableAdapter

from natives.control_loop_gen import rand_add_tick, rand_state


class FakeSnapshottable(SnapshottableAdapter):
    def __init__(self, state, ticks):
        self._s, self._t = state, ticks

    @property
    def init_state(self):
        return self._s

    def replay(self):
        return list(self._t)

    def __repr__(self):
        return f"FakeSnapshottable({self._s!r}, {self._t!r})"


def gen_ContextState(rng):
    state = rand_state(rng)
    ticks = [rand_add_tick(rng, state) for _ in range(rng.randrange(0, 4))]
    # the real constructor (it only stores its arguments): fields a change adds are initialised as the code does
    ctx = ExternalContext(workflow=None, external_adapter=FakeSnapshottable(state, ticks))
    return dict(self=ctx)
