from natives.control_loop_gen import *  # noqa
from natives.control_loop_gen import rand_state, rand_float, rand_add_tick


def gen_AddEventTick(rng):
    st = rand_state(rng, valid=rng.random() < 0.9)
    return dict(tick=rand_add_tick(rng, st), init=st, now_seconds=rand_float(rng, False))
