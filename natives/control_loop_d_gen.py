from natives.control_loop_gen import *  # noqa
from natives.control_loop_gen import (
    USER_EVENTS, MyStop, MyInput, AddCollectedEvent, AddWaiter, DeleteCollectedEvent, DeleteWaiter, StepWorkerFailed,
    StepWorkerResult, TickStepResult, rand_event, rand_exc, rand_float, rand_state,
)
from workflows.events import StopEvent


def rand_results(rng):
    out = []
    for _ in range(rng.randrange(0, 3)):
        k = rng.random()
        if k < 0.35:
            out.append(AddCollectedEvent(event_id=rng.choice(["buf1", "buf2", "buf3"]), event=rand_event(rng, USER_EVENTS)))
        elif k < 0.55:
            out.append(DeleteCollectedEvent(event_id=rng.choice(["buf1", "buf2", "buf3"])))
        elif k < 0.75:
            out.append(DeleteWaiter(waiter_id=rng.choice(["w1", "w2", "w9"])))
        else:
            out.append(StepWorkerResult(result=rng.choice([None, rand_event(rng, USER_EVENTS)])))
    k = rng.random()
    if k < 0.35:
        out.append(StepWorkerResult(result=rng.choice([None, rand_event(rng, USER_EVENTS), StopEvent(result=1), MyStop(),
                                                       MyInput()])))
    elif k < 0.6:
        out.append(AddWaiter(waiter_id=rng.choice(["w1", "w2", "w9"]), waiter_event=rng.choice([None, MyInput()]),
                             requirements=rng.choice([{}, {"user": "alice"}]), timeout=rng.choice([None, 2.5]),
                             event_type=rng.choice(USER_EVENTS)))
    elif k < 0.95:
        out.append(StepWorkerFailed(exception=rand_exc(rng), failed_at=rand_float(rng, False)))
    if rng.random() < 0.1:
        rng.shuffle(out)
    return out


def gen_StepResultTick(rng):
    st = rand_state(rng, valid=rng.random() < 0.9)
    name = rng.choice(list(st.workers))
    ws = st.workers[name]
    if ws.in_progress and rng.random() < 0.92:
        ip = rng.choice(ws.in_progress)
        wid, ev = ip.worker_id, ip.event
    else:
        wid, ev = rng.randrange(0, 4), rand_event(rng)
    tick = TickStepResult(step_name=name, worker_id=wid, event=ev, result=rand_results(rng))
    return dict(tick=tick, init=st, now_seconds=rand_float(rng, False), run_id=rng.choice([None, "run-1"]))
