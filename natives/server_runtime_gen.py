"""Random inputs for the server adapter contract (native side): the real adapter class with recording collaborators."""
from __future__ import annotations

from llama_agents.server._runtime.server_runtime import _ServerInternalRunAdapter
from workflows.events import (
    Event, StopEvent, WorkflowCancelledEvent, WorkflowFailedEvent, WorkflowTimedOutEvent,
)


class Recorder:
    """a collaborator that records every (async) call made on it: calls = [(method, args, kwargs)]"""

    def __init__(self, name, run_id="run-1", replaying=False):
        self._name = name
        self.run_id = run_id
        self._replaying = replaying
        self.calls = []

    def is_replaying(self):
        return self._replaying

    def __getattr__(self, m):
        if m.startswith("__"):
            raise AttributeError(m)

        async def rec(*a, **k):
            self.calls.append((m, a, k))

        return rec

    def __repr__(self):
        return f"Recorder({self._name}, replaying={self._replaying}, calls={[c[0] for c in self.calls]})"


class MyStop(StopEvent):
    pass


def rand_stream_event(rng):
    k = rng.randrange(6)
    if k == 0:
        return WorkflowFailedEvent(step_name="s", exception=rng.choice([ValueError("boom"), RuntimeError("bad")]),
                                   attempts=1, elapsed_seconds=0.5)
    if k == 1:
        return WorkflowTimedOutEvent(timeout=5.0, active_steps=["s"])
    if k == 2:
        return WorkflowCancelledEvent()
    if k == 3:
        return rng.choice([StopEvent(result=1), MyStop()])
    return Event(x=rng.randrange(3))


def gen_ServerWriteToEventStream(rng):
    a = object.__new__(_ServerInternalRunAdapter)
    a._decorated = Recorder("inner", run_id=rng.choice(["run-1", "run-2"]), replaying=rng.random() < 0.3)
    a._runtime = Recorder("runtime")
    a._store = Recorder("store")
    a._write_lock = None
    a._state_type = None
    a._state_store = None
    return dict(self=a, event=rand_stream_event(rng))
