"""Random inputs for the store-write retry contract (native side)."""
from __future__ import annotations

from llama_agents.server._runtime.server_runtime import ServerRuntimeDecorator


class FlakyWrite:
    """a store write that fails the first k times it is attempted"""

    def __init__(self, k):
        self.k, self.attempts = k, 0

    async def __call__(self):
        self.attempts += 1
        if self.attempts <= self.k:
            raise RuntimeError(f"transient store failure #{self.attempts}")

    def __repr__(self):
        return f"FlakyWrite(fails={self.k}, attempts={self.attempts})"


def gen_RetryStoreWrite(rng):
    rt = object.__new__(ServerRuntimeDecorator)
    rt._persistence_backoff = [0.0] * rng.randrange(0, 4)  # (zero-length sleeps: the schedule's length is what matters)
    return dict(self=rt, coro_fn=FlakyWrite(rng.randrange(0, 5)))
