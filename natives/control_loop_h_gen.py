"""Random inputs for the C09 variant contracts on _process_step_result_tick (native side)."""
from natives.control_loop_gen import *  # noqa
from natives.control_loop_gen import (
    USER_EVENTS, AddCollectedEvent, DeleteCollectedEvent, StepWorkerResult, TickStepResult, rand_event, rand_float,
    rand_state,
)


def _slot(rng):
    """a state with at least one invocation in flight, and that invocation"""
    while True:
        st = rand_state(rng, valid=True)
        cands = [(n, ip) for n, ws in st.workers.items() for ip in ws.in_progress]
        if cands:
            name, ip = rng.choice(cands)
            ws = st.workers[name]
            # buffers the invocation's snapshot may be behind of
            for b in rng.sample(["buf1", "buf2"], rng.randrange(0, 3)):
                live = ws.collected_events.setdefault(b, [])
                seen = rng.randrange(0, len(live) + 1) if rng.random() < 0.7 else len(live)
                ip.shared_state.collected_events[b] = list(live[:seen])
            return st, name, ip


def gen_CollectWaiting(rng):
    st, name, ip = _slot(rng)
    res = [AddCollectedEvent(event_id=rng.choice(["buf1", "buf2", "buf3"]), event=rand_event(rng, USER_EVENTS)),
           StepWorkerResult(result=None)]
    tick = TickStepResult(step_name=name, worker_id=ip.worker_id, event=ip.event, result=res)
    return dict(tick=tick, init=st, now_seconds=rand_float(rng, False), run_id=rng.choice([None, "run-1"]))


def gen_CollectCompleting(rng):
    st, name, ip = _slot(rng)
    res = [DeleteCollectedEvent(event_id=rng.choice(["buf1", "buf2", "buf3"])),
           StepWorkerResult(result=rand_event(rng, USER_EVENTS))]
    tick = TickStepResult(step_name=name, worker_id=ip.worker_id, event=ip.event, result=res)
    return dict(tick=tick, init=st, now_seconds=rand_float(rng, False), run_id=rng.choice([None, "run-1"]))
