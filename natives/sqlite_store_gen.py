"""Random inputs for the SQLite filter-builder contract (native side)."""
from __future__ import annotations

from llama_agents.server._store.sqlite.sqlite_workflow_store import SqliteWorkflowStore

from natives.memory_store_gen import rand_query
from pyvc.dsl import tlog


def gen_BuildFilters(rng):
    s = object.__new__(SqliteWorkflowStore)  # _build_filters reads nothing from the store
    s.db_path = ":memory:"
    return dict(self=s, query=rand_query(rng))


class FakeCursor:
    def __init__(self, log, rowcount):
        self.calls, self._all_calls, self.rowcount = [], log, rowcount

    def execute(self, *a, **k):
        c = ("execute", a, k)
        self.calls.append(c)
        self._all_calls.append(c)
        tlog("Cursor", self, "execute", a, k)

    def __repr__(self):
        return f"FakeCursor(rowcount={self.rowcount}, calls={self.calls})"


class FakeConn:
    """stands in for the shared sqlite3 connection of a single-connection store: records what is sent to it"""

    def __init__(self, rng):
        self.calls, self._all_calls = [], []
        self.total_changes = rng.randrange(0, 50)  # connection-wide counter: includes earlier operations
        self._cur = FakeCursor(self._all_calls, rng.randrange(0, 5))

    def cursor(self):
        return self._cur

    def execute(self, *a, **k):
        c = ("execute", a, k)
        self.calls.append(c)
        self._all_calls.append(c)
        tlog("Connection", self, "execute", a, k)
        return self._cur

    def commit(self):
        c = ("commit", (), {})
        self.calls.append(c)
        self._all_calls.append(c)
        tlog("Connection", self, "commit", (), {})

    def __repr__(self):
        return f"FakeConn(total_changes={self.total_changes}, cursor={self._cur}, calls={self.calls})"


def gen_SqliteDelete(rng):
    s = object.__new__(SqliteWorkflowStore)
    s.db_path = ":memory:"
    s._single_connection = True
    s._persistent_conn = FakeConn(rng)
    return dict(self=s, query=rand_query(rng))
